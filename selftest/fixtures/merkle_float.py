# positive control for C12.INT: the float route the pinned tree used (wrong at 2**29)
from math import ceil, log


def branch_length_float(hash_count):
    if hash_count < 1:
        raise ValueError('hash_count must be at least 1')
    return ceil(log(hash_count, 2))
