# positive control for the WHO rule: a durable write outside the flush / backup / open protocols
class DB:
    def __init__(self):
        self.utxo_db = None


class Rogue:
    def __init__(self, db):
        self.db = DB()

    def note_peer(self, key, value):
        # a "harmless" extra record written directly, outside any flush protocol
        self.db.utxo_db.put(b'P' + key, value)
