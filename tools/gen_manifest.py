#!/opt/veriftools/pyvenv/bin/python
'''Regenerate MANIFEST.json from the rule modules that exist (sa/rules/cNN.py) and NOT_APPLICABLE below.'''
import glob
import importlib
import json
import os
import sys

VERIF = os.path.dirname(os.path.dirname(os.path.abspath(__file__)))
sys.path.insert(0, VERIF)

DESIGN_REF = {f'C{i:02d}': f'DESIGN.md section 4, C{i:02d}' for i in range(1, 21)}
NOT_BUILT_REASON = 'check under construction in this session (see DESIGN.md section 4); not yet claimed'


def main():
    props = [json.loads(l) for l in open(f'{VERIF}/properties.jsonl')]
    built = sorted(os.path.basename(p)[:-3].upper() for p in glob.glob(f'{VERIF}/sa/rules/c[0-9][0-9].py'))
    checks, na = [], []
    for p in props:
        pid = p['id']
        if pid not in built:
            na.append({'property_id': pid, 'reason': NOT_BUILT_REASON})
            continue
        mod = importlib.import_module(f'sa.rules.{pid.lower()}')
        rules = ''
        ev = f'{VERIF}/evidence/{pid}.json'
        if os.path.exists(ev):
            try:
                pr_ = json.load(open(ev))['coverage'].get('per_rule', {})
                rules = ' Rules run by this check (own and those of the properties it depends on; see RULES.md): ' + ', '.join(pr_) + '.'
            except Exception:
                rules = ''
        checks.append({
            'property_id': pid,
            'quick_cmd': f'./check {pid} --tier quick',
            'thorough_cmd': f'./check {pid} --tier thorough',
            'evidence_file': f'/verif/evidence/{pid}.json',
            'replay_cmd_template': f'./check {pid} --explain {{path}}',
            'engine': 'sa',
            'level_claimed': {
                'category': 'other',
                'text': 'Static necessary conditions, decided on all CFG paths / call sites of the analysed functions of the '
                        'current source (nothing is executed): ' + mod.EXPLANATION + rules,
                'design_ref': DESIGN_REF[pid],
            },
            'level_note': 'Trusted: CPython ast, the sa/ engine (CFG, resolver tables derived from the source, effect inlining), '
                          'and: ' + '; '.join(mod.ASSUMPTIONS) + '. Not a proof of the behavioural statement: the undecided '
                          'remainder is listed in DESIGN.md section 4.',
            'technique': getattr(mod, 'TECHNIQUE', 'static analysis: custom ast/CFG/call-graph rules (path, dominance, pairing, '
                                                   'who-may-call, sibling agreement, epoch-validated reads, definite assignment) over the '
                                                   'parsed and normalised source'),
        })
    m = {
        'version': 1,
        'setup_cmd': "python3-vt -c \"import ast, networkx; print('sa engine prerequisites ok')\"",
        'hooks': {
            'guard': 'ELECTRUMX_VERIF',
            'enable': 'none needed: checks parse /repo\'s sources and never execute them; the guard variable is unused and no hook commit exists',
            'baseline_off_cmd': 'cd /repo && /venv/bin/python -m pytest -ra -q -p no:cacheprovider --timeout=900 --continue-on-collection-errors',
            'source_commits': [],
            'add_only': True,
        },
        'engines': [{'name': 'sa', 'path': '/verif/sa', 'serves_properties': built,
                     'kind_free_text': 'repository-specific static analyser: ast + networkx CFGs with exception edges, dominators, '
                                       'alias/type resolver derived from constructor sites, context-annotated call graph, inlined '
                                       'durable-effect graphs, await-suspension summaries, byte-layout and JSON-taint interpreters'}],
        'checks': checks,
        'notes': 'static analysis only; every check re-reads /repo on each run; exit 2 = ANALYSIS-ERROR (never a verdict); '
                 'known findings in /verif/KNOWN_FINDINGS.txt; seeded mutations in /verif/seeded',
        'not_applicable': na,
    }
    json.dump(m, open(f'{VERIF}/MANIFEST.json', 'w'), indent=1)
    import jsonschema
    jsonschema.validate(m, json.load(open('/root/.vp/MANIFEST.schema.json')))
    print(f'MANIFEST.json: {len(checks)} checks, {len(na)} not_applicable; valid')


if __name__ == '__main__':
    main()
