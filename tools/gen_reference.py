#!/opt/veriftools/pyvenv/bin/python
'''Record the names the rules were confirmed against (sa/reference_names.json): per source unit, the qualified names of all
functions / methods / nested functions and the module- and class-level constant names.  The normaliser treats names that are
NOT in this table as definitional sugar introduced by a later refactor (a new private helper is inlined at its call sites,
a new named constant is replaced by its value); names in the table keep their identity because rules speak about them.
Regenerate only when the rules have been re-confirmed against a new reference tree.'''
import ast
import json
import os
import sys

VERIF = os.path.dirname(os.path.dirname(os.path.abspath(__file__)))
sys.path.insert(0, VERIF)
os.environ['VERIF_NO_NORMALIZE'] = '1'
from sa.model import Repo  # noqa

repo = Repo('/repo')
out = {}
for rel, unit in sorted(repo.units.items()):
    funcs, consts = [], []

    def walk(body, prefix):
        for n in body:
            if isinstance(n, (ast.FunctionDef, ast.AsyncFunctionDef)):
                funcs.append(prefix + n.name)
                walk(n.body, prefix + n.name + '.')
            elif isinstance(n, ast.ClassDef):
                walk(n.body, prefix + n.name + '.')
            elif isinstance(n, (ast.Assign, ast.AnnAssign)) and not prefix.count('.') > 1:
                for t in (n.targets if isinstance(n, ast.Assign) else [n.target]):
                    for e in (t.elts if isinstance(t, ast.Tuple) else [t]):
                        if isinstance(e, ast.Name):
                            consts.append(prefix + e.id)
            elif isinstance(n, (ast.If, ast.Try, ast.With, ast.For, ast.While)):
                for fld in ('body', 'orelse', 'finalbody', 'handlers'):
                    sub = getattr(n, fld, [])
                    walk([x for x in sub if isinstance(x, ast.stmt)], prefix)
                    for h in sub:
                        if isinstance(h, ast.ExceptHandler):
                            walk(h.body, prefix)
    walk(ast.parse(unit.source).body, '')
    out[rel] = {'functions': sorted(set(funcs)), 'constants': sorted(set(consts))}
# how each record type (class) is constructed in the reference tree: positionally or by keywords (N31 keeps that style)
styles = {}
for rel, unit in sorted(repo.units.items()):
    for c in ast.walk(ast.parse(unit.source)):
        if isinstance(c, ast.Call) and isinstance(c.func, ast.Name) and c.func.id[:1].isupper() and (c.args or c.keywords):
            st = 'keywords' if c.keywords and not c.args else 'positional' if c.args and not c.keywords else 'mixed'
            styles.setdefault(c.func.id, set()).add(st)
out['__record_styles__'] = {'functions': [], 'constants': [], 'styles': {k: sorted(v)[0] for k, v in styles.items() if len(v) == 1}}
json.dump(out, open(f'{VERIF}/sa/reference_names.json', 'w'), indent=1, sort_keys=True)
print(sum(len(v['functions']) for v in out.values()), 'functions,', sum(len(v['constants']) for v in out.values()), 'constants in', len(out) - 1, 'units')
