#!/opt/veriftools/pyvenv/bin/python
'''try_edit.py PROP relpath 'old text' 'new text'  -- run a check on an in-memory single-edit variant (overlay).'''
import sys, os
sys.path.insert(0, os.path.dirname(os.path.dirname(os.path.abspath(__file__))))
import importlib
from sa.engine import Ctx
from sa.model import Repo
prop, rel, old, new = sys.argv[1:5]
src = open(f'/repo/{rel}').read()
assert src.count(old) >= 1, 'old text not found'
ctx = Ctx(prop, overlay={rel: src.replace(old, new, 1)})
mod = importlib.import_module(f'sa.rules.{prop.lower()}')
mod.run(ctx)
bad = [o for o in ctx.obligations if o.verdict == 'violated']
for o in bad[:6]:
    print('VIOLATION', o.rule, '|', o.construct[-90:], '|', o.why[:160])
for e in ctx.errors[:3]:
    print('ANALYSIS-ERROR', e[:200])
print(f'{len(ctx.obligations)} obligations, {len(bad)} violated, {len(ctx.errors)} errors')
