#!/usr/bin/env python3
'''Import sub-agent mutations from /tmp/seed/<ID>/out/m<k> into /verif/seeded/<ID>-m<k>/ after confirming, in a
scratch worktree of /repo HEAD, that (1) the patch applies, (2) the 142-test baseline still passes with it,
(3) the demonstration fails with the patch and passes without it.

usage: seed_import.py C01 C02 ...   (property ids whose agents have finished)
'''
import json
import os
import re
import shutil
import subprocess
import sys
from concurrent.futures import ThreadPoolExecutor

VERIF = os.path.dirname(os.path.dirname(os.path.abspath(__file__)))
PY = '/venv/bin/python'


def sh(cmd, cwd, timeout=600):
    p = subprocess.run(cmd, cwd=cwd, shell=True, capture_output=True, text=True, timeout=timeout)
    return p.returncode, (p.stdout + p.stderr)


def confirm(args):
    pid, k, slot = args
    src = f'/tmp/seed/{pid}/out/m{k}'
    if not os.path.exists(f'{src}/patch.diff'):
        return pid, k, None
    wt = f'/tmp/mutwt/{slot}'
    sh('git reset -q --hard; git checkout -q --detach $(git -C /repo rev-parse HEAD) && git reset -q --hard && git clean -fdq', wt)
    meta = {'property': pid, 'mutation': f'm{k}', 'repo_head': sh('git rev-parse --short HEAD', '/repo')[1].strip()}
    demo = 'demo.py' if os.path.exists(f'{src}/demo.py') else 'test_demo.py'
    os.makedirs(f'{wt}/out/m{k}', exist_ok=True)
    shutil.copy(f'{src}/{demo}', f'{wt}/out/m{k}/{demo}')
    for extra in os.listdir(src):
        if extra.endswith('.py') and extra != demo:
            shutil.copy(f'{src}/{extra}', f'{wt}/out/m{k}/{extra}')
    rc0, out0 = sh(f'{PY} out/m{k}/{demo}', wt, 300)
    meta['demo_unpatched'] = {'exit': rc0, 'tail': out0.strip().splitlines()[-2:]}
    rc, out = sh(f'git apply {src}/patch.diff', wt)
    if rc != 0:
        rc, out = sh(f'git apply --3way {src}/patch.diff', wt)
    meta['applies'] = rc == 0
    if rc != 0:
        meta['apply_error'] = out[-400:]
        return pid, k, meta
    # refresh the patch against the current HEAD
    _rc, diff = sh('git diff', wt)
    meta['patch'] = diff
    rc, out = sh(f'{PY} -m pytest -q -p no:cacheprovider --timeout=900 2>&1 | tail -3', wt, 900)
    m = re.search(r'(\d+) passed', out)
    meta['suite'] = out.strip().splitlines()[-1] if out.strip() else ''
    meta['suite_ok'] = bool(m) and int(m.group(1)) == 142 and ('1 failed' in out)
    rc1, out1 = sh(f'{PY} out/m{k}/{demo}', wt, 300)
    meta['demo_patched'] = {'exit': rc1, 'tail': out1.strip().splitlines()[-2:]}
    sh('git checkout -- . && git clean -fdq', wt)
    meta['confirmed'] = meta['suite_ok'] and rc0 == 0 and rc1 != 0
    return pid, k, meta


def main():
    ids = sys.argv[1:]
    jobs = []
    slot = 0
    for pid in ids:
        for k in range(1, 25):
            jobs.append((pid, k, slot % 8))
            slot += 1
    # run 8 at a time, one worktree per slot (jobs of a slot are sequential)
    by_slot = {}
    for j in jobs:
        by_slot.setdefault(j[2], []).append(j)

    sh('git -C /repo worktree prune', '/')
    for slot_ in by_slot:       # serially: concurrent `git worktree add` calls race on the shared lock
        wt = f'/tmp/mutwt/{slot_}'
        if not os.path.exists(wt):
            rc, out = sh(f'git -C /repo worktree add -f --detach {wt} HEAD -q', '/')
            if rc != 0:
                sys.exit('cannot create scratch worktree: ' + out)

    def run_slot(js):
        return [confirm(j) for j in js]
    with ThreadPoolExecutor(8) as ex:
        results = [r for rs in ex.map(run_slot, by_slot.values()) for r in rs]
    for pid, k, meta in results:
        if meta is None:
            continue
        dst = f'{VERIF}/seeded/{pid}-m{k}'
        status = 'CONFIRMED' if meta.get('confirmed') else 'REJECTED'
        print(pid, f'm{k}', status, meta.get('suite'), meta.get('demo_unpatched', {}).get('exit'), meta.get('demo_patched', {}).get('exit'),
              '' if meta.get('applies') else 'PATCH DOES NOT APPLY')
        if not meta.get('confirmed'):
            os.makedirs(f'{VERIF}/seeded/_rejected', exist_ok=True)
            json.dump(meta, open(f'{VERIF}/seeded/_rejected/{pid}-m{k}.json', 'w'), indent=1)
            continue
        src = f'/tmp/seed/{pid}/out/m{k}'
        os.makedirs(dst, exist_ok=True)
        with open(f'{dst}/patch.diff', 'w') as f:
            f.write(meta.pop('patch'))
        for fn in os.listdir(src):
            if fn.endswith('.py') or fn == 'notes.md':
                shutil.copy(f'{src}/{fn}', f'{dst}/{fn}')
        notes = open(f'{src}/notes.md').read() if os.path.exists(f'{src}/notes.md') else ''
        meta['breaks'] = pid
        meta['needs_to_manifest'] = 'see notes.md'
        meta['what_was_run'] = ['git apply patch.diff (scratch worktree of /repo HEAD)',
                                'pytest baseline with patch: ' + meta['suite'],
                                f'demo without patch: exit {meta["demo_unpatched"]["exit"]}',
                                f'demo with patch: exit {meta["demo_patched"]["exit"]}']
        json.dump(meta, open(f'{dst}/meta.json', 'w'), indent=1)
    for s in range(8):
        if os.path.exists(f'/tmp/mutwt/{s}'):
            sh(f'git -C /repo worktree remove --force /tmp/mutwt/{s}', '/')


if __name__ == '__main__':
    main()
