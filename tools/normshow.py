#!/usr/bin/env python3
'''print the normalised form of a function:  normshow.py <repo dir> <relpath> <qualname substring>'''
import ast, sys, os
sys.path.insert(0, os.path.dirname(os.path.dirname(os.path.abspath(__file__))))
from sa.normalize import normalize
repo, rel, name = sys.argv[1:4]
tree = normalize(ast.parse(open(os.path.join(repo, rel)).read()), rel)
def walk(node, q):
    for n in getattr(node, 'body', []):
        if isinstance(n, (ast.FunctionDef, ast.AsyncFunctionDef, ast.ClassDef)):
            qq = (q + '.' if q else '') + n.name
            if not isinstance(n, ast.ClassDef) and name in qq:
                print('#', qq); print(ast.unparse(n)); print()
            else:
                walk(n, qq)
walk(tree, '')
