#!/usr/bin/env python3
'''Run the checks against every confirmed seeded mutation (scratch worktrees of /repo HEAD, never /repo itself).

usage: seed_check.py [--all-props] [ID-mK ...]
For each seed: apply patch.diff to a scratch worktree, run ./check <its property> --repo <wt> --no-evidence
(with --all-props: every built check), report caught (exit 1) / missed (exit 0) / error (exit 2).
Writes seeded/RESULTS.json.
'''
import glob
import json
import os
import subprocess
import sys
from concurrent.futures import ThreadPoolExecutor

VERIF = os.path.dirname(os.path.dirname(os.path.abspath(__file__)))


def sh(cmd, cwd='/', timeout=600):
    p = subprocess.run(cmd, cwd=cwd, shell=True, capture_output=True, text=True, timeout=timeout)
    return p.returncode, p.stdout + p.stderr


def built_props():
    return sorted(os.path.basename(p)[:-3].upper() for p in glob.glob(f'{VERIF}/sa/rules/c[0-9][0-9].py'))


def run_seed(args):
    name, slot, props = args
    d = f'{VERIF}/seeded/{name}'
    wt = f'/tmp/mutchk/{slot}'
    sh('git checkout -q --detach $(git -C /repo rev-parse HEAD) && git checkout -- . && git clean -fdq', wt)
    rc, out = sh(f'git apply {d}/patch.diff', wt)
    if rc != 0:
        return name, {'error': 'patch does not apply: ' + out[-200:]}
    res = {}
    for p in props:
        rc, out = sh(f'{VERIF}/check {p} --repo {wt} --no-evidence', VERIF)
        rules = sorted({l.split()[1] for l in out.splitlines() if l.startswith('  rule ')})
        res[p] = {'exit': rc, 'rules': rules}
        if rc == 2:
            res[p]['error'] = [l for l in out.splitlines() if 'ANALYSIS-ERROR' in l][:1]
    sh('git checkout -- . && git clean -fdq', wt)
    return name, res


def main():
    args = sys.argv[1:]
    allp = '--all-props' in args
    names = [a for a in args if not a.startswith('--')]
    if not names:
        names = sorted(n for n in os.listdir(f'{VERIF}/seeded') if os.path.exists(f'{VERIF}/seeded/{n}/patch.diff'))
    built = built_props()
    jobs = []
    for i, n in enumerate(names):
        own = n.split('-')[0]
        props = built if allp else [p for p in built if p == own]
        jobs.append((n, i % 12, props))
    by_slot = {}
    for j in jobs:
        by_slot.setdefault(j[1], []).append(j)
    sh('git -C /repo worktree prune')
    for slot in by_slot:      # serially: concurrent `git worktree add` calls race on the shared lock
        wt = f'/tmp/mutchk/{slot}'
        if not os.path.exists(wt):
            rc, out = sh(f'git -C /repo worktree add -f --detach {wt} HEAD -q')
            if rc != 0:
                sys.exit('cannot create scratch worktree: ' + out)
    with ThreadPoolExecutor(12) as ex:
        results = dict(r for rs in ex.map(lambda js: [run_seed(j) for j in js], by_slot.values()) for r in rs)
    for s in range(12):
        if os.path.exists(f'/tmp/mutchk/{s}'):
            sh(f'git -C /repo worktree remove --force /tmp/mutchk/{s}')
    caught = missed = err = unbuilt = 0
    for n in names:
        r = results[n]
        own = n.split('-')[0]
        if 'error' in r:
            print(f'{n:10s} ERROR {r["error"]}')
            err += 1
            continue
        if own not in r:
            others = {p: v['rules'] for p, v in r.items() if v['exit'] == 1}
            print(f'{n:10s} (no check built for {own}) caught by others: {others}')
            unbuilt += 1
            continue
        o = r[own]
        others = {p: v['rules'] for p, v in r.items() if p != own and v['exit'] == 1}
        if o['exit'] == 1:
            caught += 1
            print(f'{n:10s} CAUGHT  {o["rules"]}' + (f'  also: {others}' if others else ''))
        elif o['exit'] == 0:
            missed += 1
            print(f'{n:10s} MISSED' + (f'  (but caught by {others})' if others else ''))
        else:
            err += 1
            print(f'{n:10s} ANALYSIS-ERROR {o.get("error")}')
    print(f'caught {caught}  missed {missed}  errors {err}  no-check-yet {unbuilt}')
    prev = {}
    path = f'{VERIF}/seeded/RESULTS.json'
    if os.path.exists(path):
        prev = json.load(open(path))
    prev.update(results)
    json.dump(prev, open(path, 'w'), indent=1, sort_keys=True)


if __name__ == '__main__':
    main()
