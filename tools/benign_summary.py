#!/usr/bin/env python3
import json,collections,re,os
r=json.load(open(os.path.dirname(os.path.dirname(os.path.abspath(__file__)))+'/benign/RESULTS.json'))
noisy=0
for k,v in sorted(r.items()):
    rules=collections.OrderedDict()
    for p,d in v.items():
        if p=='error': rules[('ERR',str(d))]=['-']; continue
        for l in d['lines']:
            m=re.search(r'rule (C\d+)\.(\w+) at (\S+): (.*)',l)
            if m:
                key=(m.group(2), m.group(4).split(' :: ',1)[1][:100])
                rules.setdefault(key,[]).append(p)
            else:
                rules.setdefault(('?',re.sub(r'property=C\d+ rule C\d+','',l)[:170]),[]).append(p)
    if rules:
        noisy+=1; print(k)
    for (rule,what),ps in rules.items():
        print('   ',rule,'|',what,'|',','.join(sorted(set(ps))))
print(len(r),'refactors,',noisy,'noisy')
