#!/opt/veriftools/pyvenv/bin/python
'''Silent twins: behaviour-preserving rewrites of the whole tree, analysed as in-memory overlays.  Every check must stay
silent (no violation, no analysis error) on each twin; a twin that makes a rule fire shows the rule depends on spelling.

  rename   every local variable of every function gets the suffix _r (parameters, globals, attributes untouched)
  noop     a no-op statement is inserted at the top of every function body
  flip     every single-operator ordering comparison a OP b is rewritten b OP' a
  invert   every two-armed `if c: A else: B` becomes `if not c: B else: A`
  namedcond every compound `if` test is first bound to a local (`_vc = test; if _vc:`)
  tempret  every `return <expr>` becomes `_vr = <expr>; return _vr`
  augexpand every `x += e` on a name / attribute becomes `x = x + e`
  alias    in every method the most-read, never-assigned `self.<attr>` is bound to a local at the top and read through it
  reflow   sources are re-emitted by ast.unparse (comments dropped, layout and line numbers changed)

usage: twins.py [--write DIR kind]   (default: run all checks on all twins and print a matrix)
'''
import ast
import glob
import importlib
import os
import sys
from concurrent.futures import ProcessPoolExecutor

VERIF = os.path.dirname(os.path.dirname(os.path.abspath(__file__)))
sys.path.insert(0, VERIF)



from sa.twins import make_overlay, KINDS  # noqa


def run_one(args):
    kind, prop = args
    from sa.engine import Ctx, load_known_findings, match_known
    overlay = make_overlay(kind)
    try:
        ctx = Ctx(prop, overlay=overlay)
        mod = importlib.import_module(f'sa.rules.{prop.lower()}')
        mod.run(ctx)
    except Exception as e:
        return kind, prop, [], [f'{type(e).__name__}: {e}']
    known = load_known_findings()
    bad = [o for o in ctx.obligations if o.verdict == 'violated' and match_known(o, known) is None]
    return kind, prop, [(o.rule, o.construct[-80:], o.why[:120]) for o in bad], list(ctx.errors)


def main():
    if len(sys.argv) > 1 and sys.argv[1] == '--write':
        d, kind = sys.argv[2], sys.argv[3]
        for rel, src in make_overlay(kind).items():
            p = os.path.join(d, rel)
            with open(p, 'w') as f:
                f.write(src)
        print('written', kind, 'to', d)
        return
    kinds = [a for a in sys.argv[1:] if not a.startswith('C')] or list(KINDS)
    props = [a for a in sys.argv[1:] if a.startswith('C')] or sorted(os.path.basename(p)[:-3].upper() for p in glob.glob(f'{VERIF}/sa/rules/c[0-9][0-9].py'))
    jobs = [(k, p) for k in kinds for p in props]
    noisy = 0
    with ProcessPoolExecutor(16) as ex:
        for kind, prop, bad, errs in ex.map(run_one, jobs):
            if bad or errs:
                noisy += 1
                print(f'{kind:7s} {prop}: {len(bad)} violations, {len(errs)} errors')
                for b in bad[:6]:
                    print('      V', b)
                for e in errs[:4]:
                    print('      E', e[:200])
    print(f'{len(jobs)} (twin, property) runs, {noisy} noisy')


if __name__ == '__main__':
    main()
