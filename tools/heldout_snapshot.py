#!/usr/bin/env python3
'''Freeze the FIRST-CONTACT verdict of held-out seeds (round >= 2) into seeded/HELDOUT.json.

A seed's entry is written once, the first time it appears in RESULTS.json, and never overwritten: it records what the
checks said before anybody looked at the patch, which is the honest generalisation figure quoted in DESIGN.md.
'''
import json, os, re, sys
V = os.path.dirname(os.path.dirname(os.path.abspath(__file__)))
res = json.load(open(f'{V}/seeded/RESULTS.json'))
path = f'{V}/seeded/HELDOUT.json'
held = json.load(open(path)) if os.path.exists(path) else {}
for name, r in sorted(res.items()):
    m = re.match(r'(C\d\d)-m(\d+)$', name)
    if not m or int(m.group(2)) < 4 or name in held:
        continue
    own = r.get(m.group(1), {})
    held[name] = {'first_contact': {0: 'missed', 1: 'caught', 2: 'analysis-error'}.get(own.get('exit'), 'n/a'),
                  'rules': own.get('rules', []), 'error': own.get('error', [])}
json.dump(held, open(path, 'w'), indent=1, sort_keys=True)
c = {}
for v in held.values():
    c[v['first_contact']] = c.get(v['first_contact'], 0) + 1
print(len(held), c)
