#!/usr/bin/env python3
'''Import behaviour-preserving refactors made by sub-agents (/tmp/benign/<ID>/out/r<k>) into /verif/benign/<ID>-r<k>/ after
confirming in a scratch worktree of /repo HEAD that the patch applies, the 142-test baseline still passes with it, and the
agent's driver prints the same DIGEST line without and with the patch.

usage: benign_import.py C01 C02 ...
'''
import json
import os
import re
import shutil
import subprocess
import sys
from concurrent.futures import ThreadPoolExecutor

VERIF = os.path.dirname(os.path.dirname(os.path.abspath(__file__)))
PY = '/venv/bin/python'


def sh(cmd, cwd, timeout=900):
    p = subprocess.run(cmd, cwd=cwd, shell=True, capture_output=True, text=True, timeout=timeout)
    return p.returncode, (p.stdout + p.stderr)


def digest(out):
    m = re.findall(r'^DIGEST\s+(\S+)', out, re.M)
    return m[-1] if m else None


def confirm(args):
    pid, k, slot = args
    src = f'/tmp/benign/{pid}/out/r{k}'
    if not os.path.exists(f'{src}/patch.diff'):
        return pid, k, None
    wt = f'/tmp/benwt/{slot}'
    sh('git reset -q --hard; git checkout -q --detach $(git -C /repo rev-parse HEAD) && git reset -q --hard && git clean -fdq', wt)
    meta = {'property': pid, 'refactor': f'r{k}', 'repo_head': sh('git rev-parse --short HEAD', '/repo')[1].strip()}
    os.makedirs(f'{wt}/out/r{k}', exist_ok=True)
    for fn in os.listdir(src):
        if fn.endswith('.py'):
            shutil.copy(f'{src}/{fn}', f'{wt}/out/r{k}/{fn}')
    rc0, out0 = sh(f'{PY} out/r{k}/driver.py', wt, 300)
    meta['digest_clean'] = digest(out0)
    rc, out = sh(f'git apply {src}/patch.diff', wt)
    meta['applies'] = rc == 0
    if rc != 0:
        meta['apply_error'] = out[-300:]
        return pid, k, meta
    _rc, diff = sh('git diff', wt)
    meta['patch'] = diff
    rc, out = sh(f'{PY} -m pytest -q -p no:cacheprovider --timeout=900 2>&1 | tail -3', wt, 900)
    m = re.search(r'(\d+) passed', out)
    meta['suite'] = out.strip().splitlines()[-1] if out.strip() else ''
    meta['suite_ok'] = bool(m) and int(m.group(1)) == 142 and ('1 failed' in out)
    rc1, out1 = sh(f'{PY} out/r{k}/driver.py', wt, 300)
    meta['digest_patched'] = digest(out1)
    sh('git reset -q --hard && git clean -fdq', wt)
    meta['confirmed'] = bool(meta['suite_ok'] and meta['digest_clean'] and meta['digest_clean'] == meta['digest_patched'] and rc0 == 0 and rc1 == 0)
    return pid, k, meta


def main():
    ids = sys.argv[1:]
    jobs, slot = [], 0
    for pid in ids:
        for k in range(1, 22):
            jobs.append((pid, k, slot % 8))
            slot += 1
    by_slot = {}
    for j in jobs:
        by_slot.setdefault(j[2], []).append(j)
    sh('git -C /repo worktree prune', '/')
    for s in by_slot:
        wt = f'/tmp/benwt/{s}'
        if not os.path.exists(wt):
            rc, out = sh(f'git -C /repo worktree add -f --detach {wt} HEAD -q', '/')
            if rc != 0:
                sys.exit('cannot create scratch worktree: ' + out)
    with ThreadPoolExecutor(8) as ex:
        results = [r for rs in ex.map(lambda js: [confirm(j) for j in js], by_slot.values()) for r in rs]
    for pid, k, meta in results:
        if meta is None:
            continue
        status = 'CONFIRMED' if meta.get('confirmed') else 'REJECTED'
        print(pid, f'r{k}', status, meta.get('suite'), meta.get('digest_clean', '')[:10] if meta.get('digest_clean') else None,
              meta.get('digest_patched', '')[:10] if meta.get('digest_patched') else None, '' if meta.get('applies') else 'PATCH DOES NOT APPLY')
        if not meta.get('confirmed'):
            os.makedirs(f'{VERIF}/benign/_rejected', exist_ok=True)
            json.dump(meta, open(f'{VERIF}/benign/_rejected/{pid}-r{k}.json', 'w'), indent=1)
            continue
        src, dst = f'/tmp/benign/{pid}/out/r{k}', f'{VERIF}/benign/{pid}-r{k}'
        os.makedirs(dst, exist_ok=True)
        with open(f'{dst}/patch.diff', 'w') as f:
            f.write(meta.pop('patch'))
        for fn in os.listdir(src):
            if fn.endswith('.py') or fn == 'notes.md':
                shutil.copy(f'{src}/{fn}', f'{dst}/{fn}')
        json.dump(meta, open(f'{dst}/meta.json', 'w'), indent=1)
    for s in range(8):
        if os.path.exists(f'/tmp/benwt/{s}'):
            sh(f'git -C /repo worktree remove --force /tmp/benwt/{s}', '/')


if __name__ == '__main__':
    main()
