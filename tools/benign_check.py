#!/usr/bin/env python3
'''Run EVERY check against every confirmed behaviour-preserving refactor under /verif/benign (scratch worktrees of /repo
HEAD): any violation or analysis error is a false alarm of the checker.  Writes benign/RESULTS.json.

usage: benign_check.py [--keep] [--prev] [ID-rK ...]
   --keep   leave the patched copies under /tmp/bo/<name> (for --explain sessions)
   --prev   run only the checks that alarmed in the recorded RESULTS.json (plus the refactor's own property)
'''
import glob
import json
import os
import subprocess
import sys
from concurrent.futures import ThreadPoolExecutor

VERIF = os.path.dirname(os.path.dirname(os.path.abspath(__file__)))


def sh(cmd, cwd='/', timeout=900):
    p = subprocess.run(cmd, cwd=cwd, shell=True, capture_output=True, text=True, timeout=timeout)
    return p.returncode, p.stdout + p.stderr


def run_one(args):
    name, prop = args
    wt = f'/tmp/bo/{name}'
    rc, out = sh(f'{VERIF}/check {prop} --repo {wt} --no-evidence', VERIF)
    if rc != 0:
        return name, prop, {'exit': rc, 'lines': [l for l in out.splitlines() if l.startswith('  rule ') or 'ANALYSIS-ERROR' in l][:4]}
    return name, prop, None


def main():
    argv = sys.argv[1:]
    keep = '--keep' in argv
    prev_only = '--prev' in argv
    argv = [a for a in argv if not a.startswith('--')]
    names = argv or sorted(n for n in os.listdir(f'{VERIF}/benign') if os.path.exists(f'{VERIF}/benign/{n}/patch.diff'))
    props = sorted(os.path.basename(p)[:-3].upper() for p in glob.glob(f'{VERIF}/sa/rules/c[0-9][0-9].py'))
    path = f'{VERIF}/benign/RESULTS.json'
    prev = json.load(open(path)) if os.path.exists(path) else {}
    jobs = []
    results = {}
    for n in names:
        wt = f'/tmp/bo/{n}'
        sh(f'rm -rf {wt}; mkdir -p {wt} && git -C /repo archive HEAD | tar -x -C {wt}')
        rc, out = sh(f'patch -p1 -s < {VERIF}/benign/{n}/patch.diff', wt)
        if rc != 0:
            results[n] = {'error': 'patch does not apply: ' + out[-200:]}
            continue
        results[n] = {}
        ps = sorted(set(prev.get(n, {})) | {n.split('-')[0]}) if prev_only and n in prev else props
        jobs += [(n, p) for p in ps if p != 'error']
    with ThreadPoolExecutor(16) as ex:
        for n, p, r in ex.map(run_one, jobs):
            if r:
                results[n][p] = r
    if not keep:
        for n in names:
            sh(f'rm -rf /tmp/bo/{n}')
    noisy = 0
    for n in names:
        r = results[n]
        if r:
            noisy += 1
            print(f'{n:10s} FALSE ALARM')
            for p, v in sorted(r.items()):
                if p == 'error':
                    print('      ', v)
                else:
                    print(f'      {p} exit {v["exit"]}: ' + ' | '.join(x.strip()[:150] for x in v['lines']))
        else:
            print(f'{n:10s} silent')
    print(f'{len(names)} refactors, {noisy} with a false alarm')
    prev.update(results)
    json.dump(prev, open(path, 'w'), indent=1, sort_keys=True)


if __name__ == '__main__':
    main()
