#!/usr/bin/env python3
'''Run EVERY check against every confirmed behaviour-preserving refactor under /verif/benign (scratch worktrees of /repo
HEAD): any violation or analysis error is a false alarm of the checker.  Writes benign/RESULTS.json.

usage: benign_check.py [ID-rK ...]
'''
import glob
import json
import os
import subprocess
import sys
from concurrent.futures import ThreadPoolExecutor

VERIF = os.path.dirname(os.path.dirname(os.path.abspath(__file__)))


def sh(cmd, cwd='/', timeout=900):
    p = subprocess.run(cmd, cwd=cwd, shell=True, capture_output=True, text=True, timeout=timeout)
    return p.returncode, p.stdout + p.stderr


def run_one(args):
    name, slot, props = args
    d = f'{VERIF}/benign/{name}'
    wt = f'/tmp/benchk/{slot}'
    sh('git reset -q --hard; git checkout -q --detach $(git -C /repo rev-parse HEAD) && git reset -q --hard && git clean -fdq', wt)
    rc, out = sh(f'git apply {d}/patch.diff', wt)
    if rc != 0:
        return name, {'error': 'patch does not apply: ' + out[-200:]}
    res = {}
    for p in props:
        rc, out = sh(f'{VERIF}/check {p} --repo {wt} --no-evidence', VERIF)
        if rc != 0:
            res[p] = {'exit': rc, 'lines': [l for l in out.splitlines() if l.startswith('  rule ') or 'ANALYSIS-ERROR' in l][:4]}
    sh('git reset -q --hard && git clean -fdq', wt)
    return name, res


def main():
    names = [a for a in sys.argv[1:]] or sorted(n for n in os.listdir(f'{VERIF}/benign') if os.path.exists(f'{VERIF}/benign/{n}/patch.diff'))
    props = sorted(os.path.basename(p)[:-3].upper() for p in glob.glob(f'{VERIF}/sa/rules/c[0-9][0-9].py'))
    jobs = [(n, i % 12, props) for i, n in enumerate(names)]
    by_slot = {}
    for j in jobs:
        by_slot.setdefault(j[1], []).append(j)
    sh('git -C /repo worktree prune')
    for s in by_slot:
        wt = f'/tmp/benchk/{s}'
        if not os.path.exists(wt):
            rc, out = sh(f'git -C /repo worktree add -f --detach {wt} HEAD -q')
            if rc != 0:
                sys.exit('cannot create scratch worktree: ' + out)
    with ThreadPoolExecutor(12) as ex:
        results = dict(r for rs in ex.map(lambda js: [run_one(j) for j in js], by_slot.values()) for r in rs)
    for s in range(12):
        if os.path.exists(f'/tmp/benchk/{s}'):
            sh(f'git -C /repo worktree remove --force /tmp/benchk/{s}')
    noisy = 0
    for n in names:
        r = results[n]
        if r:
            noisy += 1
            print(f'{n:10s} FALSE ALARM')
            for p, v in r.items():
                if p == 'error':
                    print('      ', v)
                else:
                    print(f'      {p} exit {v["exit"]}: ' + ' | '.join(x.strip()[:150] for x in v['lines']))
        else:
            print(f'{n:10s} silent')
    print(f'{len(names)} refactors, {noisy} with a false alarm')
    path = f'{VERIF}/benign/RESULTS.json'
    prev = json.load(open(path)) if os.path.exists(path) else {}
    prev.update(results)
    json.dump(prev, open(path, 'w'), indent=1, sort_keys=True)


if __name__ == '__main__':
    main()
