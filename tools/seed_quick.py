#!/usr/bin/env python3
'''Fast regression loop over the recorded seeds (patched copies under /tmp/so, kept between runs).

usage: seed_quick.py [--rule SUFFIX ...] [--prop Cxx ...] [ID-mK ...]
  --rule SUFFIX   only seeds that RESULTS.json records as reported by a rule whose name ends with SUFFIX
Prints the seeds that are NOT reported any more by their own property's check.  Does not write RESULTS.json.
'''
import json, os, subprocess, sys
from concurrent.futures import ThreadPoolExecutor
VERIF = os.path.dirname(os.path.dirname(os.path.abspath(__file__)))


def sh(cmd, cwd='/'):
    p = subprocess.run(cmd, cwd=cwd, shell=True, capture_output=True, text=True, timeout=900)
    return p.returncode, p.stdout + p.stderr


def main():
    a = sys.argv[1:]
    rules, props, names = [], [], []
    while a:
        x = a.pop(0)
        if x == '--rule':
            rules.append(a.pop(0))
        elif x == '--prop':
            props.append(a.pop(0))
        else:
            names.append(x)
    rec = json.load(open(f'{VERIF}/seeded/RESULTS.json'))
    allnames = sorted(n for n in os.listdir(f'{VERIF}/seeded') if os.path.exists(f'{VERIF}/seeded/{n}/patch.diff'))
    sel = []
    for n in allnames:
        own = n.split('-')[0]
        r = rec.get(n, {}).get(own, {})
        if names and n not in names:
            continue
        if props and own not in props:
            continue
        if rules and not any(x.split('.')[-1] == s for x in r.get('rules', []) for s in rules):
            continue
        sel.append(n)
    head = sh('git -C /repo rev-parse HEAD')[1].strip()
    for n in sel:
        wt = f'/tmp/so/{n}'
        if not os.path.exists(f'{wt}/.ok-{head}'):
            sh(f'rm -rf {wt}; mkdir -p {wt} && git -C /repo archive HEAD | tar -x -C {wt}')
            rc, out = sh(f'patch -p1 -s < {VERIF}/seeded/{n}/patch.diff', wt)
            if rc != 0:
                print(n, 'patch does not apply', out[-100:])
                continue
            open(f'{wt}/.ok-{head}', 'w').close()

    def one(n):
        own = n.split('-')[0]
        rc, out = sh(f'{VERIF}/check {own} --repo /tmp/so/{n} --no-evidence', VERIF)
        return n, rc, sorted({l.split()[1] for l in out.splitlines() if l.startswith('  rule ')}), [l for l in out.splitlines() if 'ANALYSIS-ERROR' in l][:1]
    bad = 0
    with ThreadPoolExecutor(16) as ex:
        for n, rc, rl, err in ex.map(one, sel):
            if rc != 1:
                bad += 1
                print(f'{n:10s} {"MISSED" if rc == 0 else "ANALYSIS-ERROR"} (was {rec.get(n, {}).get(n.split("-")[0], {}).get("rules")}) {err}')
    print(f'{len(sel)} seeds, {bad} not reported')


if __name__ == '__main__':
    main()
