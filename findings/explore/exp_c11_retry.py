'''C11 replay (F17): the request is for (37 hashes, index 30) and stays valid on the new chain (40 hashes).  A truncate()
while it waits for its leaf hashes cuts the level below index 30; branch_and_root_from_level's consistency check then raises
ValueError *before* the truncation counter is re-checked, so the client gets an internal error instead of a proof.
usage: REPO=/repo /venv/bin/python exp_c11_retry.py   (exit 0 = a proof for the current chain, 1 = wrong root or an exception)'''
import asyncio, os, sys
sys.path.insert(0, os.environ.get('REPO', '/repo'))
from electrumx.lib.merkle import Merkle, MerkleCache
from electrumx.lib.hash import double_sha256


async def main():
    m = Merkle()
    old = [double_sha256(b'old%d' % i) for i in range(40)]
    new = old[:24] + [double_sha256(b'new%d' % i) for i in range(24, 40)]     # fork at height 24
    cur = {'hashes': old}
    gate, entered = asyncio.Event(), asyncio.Event()
    calls = {'n': 0, 'pause_at': None}

    async def source(start, count):
        calls['n'] += 1
        data = cur['hashes'][start:start + count]
        if calls['n'] == calls['pause_at']:
            entered.set()
            await gate.wait()
        return data
    mc = MerkleCache(m, source)
    await mc.initialize(40)
    calls['pause_at'] = calls['n'] + 1            # the next read is the leaf read of the request below
    t = asyncio.ensure_future(mc.branch_and_root(37, 30))
    await entered.wait()
    # reorg while the request waits: 16 blocks undone (truncate runs on the worker thread), new branch indexed
    for h in range(39, 23, -1):
        mc.truncate(h)                             # flush_backup -> header_mc.truncate(height + 1), one per block
    cur['hashes'] = new
    gate.set()
    try:
        branch, root = await t
    except Exception as e:
        print('FAIL: the request is valid on the current chain but ended in', type(e).__name__, e)
        return 1
    ok_new, ok_old = root == m.root(new[:37]), root == m.root(old[:37])
    print('root matches current chain:', ok_new, ' matches the abandoned chain:', ok_old)
    if not ok_new:
        print('FAIL: a header proof was answered with a root that is not the root of the current block hashes')
        return 1
    print('PASS')
    return 0
sys.exit(asyncio.run(main()))
