'''C11 replay: header merkle cache re-polluted in the window between backup_fs (truncates the cache) and
flush_utxo_db (lowers DB.state.height) of the LAST backed-out block of a reorganisation.

Real DB / BlockProcessor / MerkleCache; the only instrumentation is a pause inside History.backup (the worker thread
really is inside that call for the duration of a LevelDB write) during which a header-proof request with
cp_height == old tip is served on the event loop, exactly as a session would.

usage: REPO=/repo /venv/bin/python exp_c11_window.py      exit 0 = proofs verify, 1 = stale root served
'''
import asyncio, os, sys, shutil, tempfile, threading
sys.path.insert(0, os.path.dirname(os.path.abspath(__file__)))
from harness import *       # noqa
NO_RACE = bool(os.environ.get('NO_RACE'))


async def main():
    d = tempfile.mkdtemp()
    try:
        # reorg_limit small so the cache is initialised well below the tip; segment = 1 << depth_higher
        env = make_env(d, reorg_limit=10)
        chain = Chain(1)
        for _ in range(40):
            chain.add_block()                     # heights 0..39
        db = DB(env)
        daemon = FakeDaemon(chain)
        bp = BlockProcessor(env, db, daemon, Notifications())
        await sync(bp)
        await db.populate_header_merkle_cache()
        mc = db.header_mc
        seg = 1 << mc.depth_higher
        tip = db.state.height
        # choose the fork so that (F + 2) is segment aligned: the polluted segment is complete and never re-read
        F = tip - 1
        while (F + 2) % seg:
            F -= 1
        print(f'tip {tip}, segment {seg}, fork after height {F}')
        new = chain.fork(F + 1)
        for _ in range(tip - F + 2):
            new.add_block(salt=7)
        daemon.chain = new

        # pause the worker thread inside History.backup of the last backed-out block (height F+1)
        loop = asyncio.get_event_loop()
        orig = db.history.backup
        served = {}

        def paused_backup(hashXs, tx_count):
            if db.fs_height == F and not NO_RACE:                       # backup_fs has already run for the last block
                fut = asyncio.run_coroutine_threadsafe(db.header_branch_and_root(F + 2, 0), loop)
                served['in_window'] = fut.result(10)    # a session's header proof with cp_height = F + 1 (<= DB.state.height)
            return orig(hashXs, tx_count)
        db.history.backup = paused_backup
        await loop_sync(bp)
        assert db.state.height == len(new.blocks) - 1, db.state.height
        db.history.backup = orig

        # quiescent: every header proof must fold to the root of the CURRENT block hashes
        bad = 0
        for cp in range(F + 1, db.state.height + 1):
            hashes = await db.fs_block_hashes(0, cp + 1)
            want = db.merkle.root(hashes)
            branch, root = await db.header_branch_and_root(cp + 1, 0)
            if root != want:
                bad += 1
                print(f'  cp_height {cp}: root {root.hex()[:16]} != {want.hex()[:16]} (current chain)')
        print('request served inside the window:', 'in_window' in served)
        print('FAIL: stale header roots served after the reorg' if bad else 'PASS')
        return 1 if bad else 0
    finally:
        shutil.rmtree(d, ignore_errors=True)

sys.exit(asyncio.run(main()))
