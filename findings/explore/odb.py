import os, sys, random
sys.path.insert(0, __import__('os').environ.get('REPO','/repo'))
from electrumx.server.block_processor import OnDiskBlock
from electrumx.lib.tx import Tx, TxInput, TxOutput
from electrumx.lib.util import pack_varint
def mk(nin, nout, slen, seed):
    r = random.Random(seed)
    ins=[TxInput(bytes(r.randrange(256) for _ in range(32)), r.randrange(1000), bytes(slen), 0xffffffff) for _ in range(nin)]
    outs=[TxOutput(r.randrange(10**8), bytes(r.randrange(1,30))) for _ in range(nout)]
    return Tx(1, ins, outs, 0)
def run(txs, chunk):
    os.makedirs('meta/blocks', exist_ok=True)
    raw = bytes(80) + pack_varint(len(txs)) + b''.join(t.serialize() for t in txs)
    hh = 'ab'*32
    open(OnDiskBlock.filename(hh, 1),'wb').write(raw)
    OnDiskBlock.chunk_size = chunk
    with OnDiskBlock(hh, 1, len(raw)) as b:
        fwd = [t for t,h in b.iter_txs()]
    try:
        with OnDiskBlock(hh, 1, len(raw)) as b:
            rev = [t for t,h in b.iter_txs_reversed()]
        ok_rev = rev == list(reversed(txs))
    except Exception as e:
        ok_rev = f'EXC {type(e).__name__}: {e}'
    return fwd == txs, ok_rev
txs = [mk(1,1,300,1)] + [mk(1,2,10,i) for i in range(2,6)]
for chunk in (50, 100, 200, 340, 400, 1000, 5000):
    print(chunk, run(txs, chunk))
