import asyncio, tempfile, shutil, os, logging
from harness import *
from electrumx.server.session import SessionManager
logging.basicConfig(level=logging.ERROR)
async def main():
    d = tempfile.mkdtemp(prefix='c10')
    chain = Chain(1)
    for i in range(8): chain.add_block(2)
    env = make_env(d)
    db = DB(env); daemon = FakeDaemon(chain); await daemon.height()
    n = Notifications()
    bp = BlockProcessor(env, db, daemon, n)
    await sync(bp)           # first catch-up: caught_up True, reopened for serving
    sm = SessionManager(env, db, bp, daemon, None, asyncio.Event())
    await n.start(db.state.height, sm._notify_sessions)
    H = db.state.height
    hx = {a: sha256(script(a))[:11] for a in range(5)}
    truth = {a: await db.limited_history(hx[a], limit=None) for a in hx}
    # forced reorg of 1 block; chain never changes
    assert bp.force_chain_reorg(1)
    await bp.reorg_chain(bp.reorg_count); bp.reorg_count = None
    print('backed up to', db.state.height)
    # client query in the window
    for a in hx: await sm.limited_history(hx[a])
    await loop_sync(bp)      # re-advance to H, on_block(touched, H)
    await n.on_mempool(set(), H)
    print('height', db.state.height, 'notified', sm.notified_height)
    stale = [a for a in hx if (await sm.limited_history(hx[a]))[0] != truth[a]]
    print('stale cached histories for addrs:', stale)
    for a in stale[:2]:
        print(' addr', a, 'served', len((await sm.limited_history(hx[a]))[0]), 'true', len(truth[a]))
    db.utxo_db.close(); db.history.close_db(); os.chdir('/tmp'); shutil.rmtree(d)
asyncio.run(main())
