import asyncio, tempfile, shutil, os, logging
from harness import *
from electrumx.server.session import SessionManager, ElectrumX
from electrumx.server.mempool import MemPool, MemPoolAPI
from aiorpcx import NetAddress
logging.basicConfig(level=logging.ERROR)
class T:
    kind = None
    def __init__(self): self.sent = []
    def remote_address(self): return NetAddress('8.8.8.8', 1234)
    async def write(self, m): self.sent.append(m)
    def is_closing(self): return False
    async def close(self, force_after=None): pass
    async def abort(self): pass
async def main():
    d = tempfile.mkdtemp(prefix='c07')
    chain = Chain(1)
    for i in range(6): chain.add_block(2)
    env = make_env(d)
    db = DB(env); daemon = FakeDaemon(chain); await daemon.height()
    n = Notifications(); MemPoolAPI.register(Notifications)
    bp = BlockProcessor(env, db, daemon, n)
    await sync(bp)
    mempool = MemPool(env.coin, n)
    sm = SessionManager(env, db, bp, daemon, mempool, asyncio.Event())
    await n.start(db.state.height, sm._notify_sessions)
    t = T(); s = ElectrumX(sm, db, mempool, sm.peer_mgr, 'TCP', t)
    shs = {a: sha256(script(a))[::-1].hex() for a in range(5)}
    gate = asyncio.Event(); entered = asyncio.Event()
    orig = db.limited_history
    async def slow(hashX, *, limit=1000):
        res = await orig(hashX, limit=limit); entered.set(); await gate.wait(); return res
    db.limited_history = slow
    reqs = {a: asyncio.ensure_future(s.scripthash_subscribe(shs[a])) for a in shs}
    await entered.wait(); db.limited_history = orig
    chain.add_block(2); await daemon.height(); await loop_sync(bp)
    await n.on_mempool(set(), db.state.height)
    gate.set()
    replies = {a: await reqs[a] for a in reqs}
    print('notifications sent to client:', len(t.sent))
    # quiescent now; what is the true status?
    s2 = ElectrumX(sm, db, mempool, sm.peer_mgr, 'TCP', T()); sm._history_cache.clear()
    true = {a: await s2.address_status(sha256(script(a))[:11]) for a in shs}
    print('subscribed:', len(s.hashX_subs), 'stale last-held statuses:', [a for a in shs if replies[a] != true[a]])
    db.utxo_db.close(); db.history.close_db(); os.chdir('/tmp'); shutil.rmtree(d)
asyncio.run(main())
