'''Exploratory harness: drive the real BlockProcessor/DB over a synthetic chain with a fake daemon.'''
import asyncio, os, sys, shutil, random, tempfile, logging
sys.path.insert(0, os.environ.get('REPO', '/repo'))
from electrumx.server.env import Env
from electrumx.server.db import DB
from electrumx.server.block_processor import BlockProcessor, OnDiskBlock
from electrumx.server.controller import Notifications
from electrumx.lib.tx import Tx, TxInput, TxOutput
from electrumx.lib.util import pack_varint
from electrumx.lib.hash import double_sha256, hash_to_hex_str, sha256

ZERO = bytes(32)
def script(n): return bytes([0x76, 0xa9, 20]) + n.to_bytes(20, 'big') + bytes([0x88, 0xac])

class Chain:
    '''A synthetic chain; blocks are (header, [Tx])'''
    def __init__(self, seed=0):
        self.r = random.Random(seed); self.blocks = []; self.utxos = []  # (txhash, idx, value, addr)
    def tip(self): return double_sha256(self.blocks[-1][0]) if self.blocks else ZERO
    def add_block(self, ntx=2, salt=0):
        h = len(self.blocks)
        cb = Tx(1, [TxInput(ZERO, 0xffffffff, bytes([h & 255, salt & 255, 1, 2]), 0)],
                [TxOutput(50, script(self.r.randrange(5)))], 0)
        txs = [cb]
        for _ in range(ntx):
            if not self.utxos: break
            th, idx, val, a = self.utxos.pop(self.r.randrange(len(self.utxos)))
            txs.append(Tx(1, [TxInput(th, idx, b'', 0)], [TxOutput(val // 2, script(self.r.randrange(5))), TxOutput(val - val // 2, script(self.r.randrange(5)))], salt))
        for t in txs:
            th = double_sha256(t.serialize())
            for i, o in enumerate(t.outputs): self.utxos.append((th, i, o.value, o.pk_script))
        root = bytes(32)
        header = (1).to_bytes(4, 'little') + self.tip() + root + bytes([h & 255, salt & 255]) + bytes(10)
        assert len(header) == 80
        self.blocks.append((header, txs))
    def raw(self, h):
        header, txs = self.blocks[h]
        return header + pack_varint(len(txs)) + b''.join(t.serialize() for t in txs)
    def fork(self, keep):
        c = Chain(); c.r = random.Random(self.r.random()); c.blocks = self.blocks[:keep]
        c.utxos = []
        spent = set()
        for header, txs in c.blocks:
            for t in txs:
                th = double_sha256(t.serialize())
                for i in t.inputs: spent.add((bytes(i.prev_hash), i.prev_idx))
                for i, o in enumerate(t.outputs): c.utxos.append((th, i, o.value, o.pk_script))
        c.utxos = [u for u in c.utxos if (u[0], u[1]) not in spent]
        return c

class FakeDaemon:
    def __init__(self, chain): self.chain = chain; self._h = None
    async def height(self): self._h = len(self.chain.blocks) - 1; return self._h
    def cached_height(self): return self._h
    async def block_hex_hashes(self, first, count):
        return [hash_to_hex_str(double_sha256(self.chain.blocks[h][0])) for h in range(first, first + count)]
    async def get_block(self, hex_hash, filename):
        for h, (header, _) in enumerate(self.chain.blocks):
            if hash_to_hex_str(double_sha256(header)) == hex_hash:
                raw = self.chain.raw(h); open(filename, 'wb').write(raw); return len(raw)
        raise RuntimeError('no such block')

def make_env(dbdir, reorg_limit=10):
    os.environ.clear()
    os.environ.update(DB_DIRECTORY=dbdir, DAEMON_URL='http://u:p@localhost:1/', COIN='BitcoinSV', NET='regtest', REORG_LIMIT=str(reorg_limit))
    return Env()

async def hist(db, n=5):
    out = {}
    for a in range(n):
        hx = sha256(script(a))[:11]
        out[a] = [(hash_to_hex_str(h)[:8], ht) for h, ht in await db.limited_history(hx, limit=None)]
    return out

async def sync(bp):
    bp.state = OnDiskBlock.state = (await bp.db.open_for_sync()).copy()
    OnDiskBlock.blocks = {}; OnDiskBlock.tasks = {}
    await OnDiskBlock.scan_files()
    await loop_sync(bp)

async def loop_sync(bp):
    for _ in range(50):
        hex_hashes, dh = await bp.next_block_hashes()
        if hex_hashes:
            await bp.advance_blocks(hex_hashes)
        else:
            await bp.on_caught_up()
            if bp.reorg_count is None: return
        if bp.reorg_count is not None:
            await bp.reorg_chain(bp.reorg_count); bp.reorg_count = None
