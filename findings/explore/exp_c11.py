import asyncio, sys
sys.path.insert(0, __import__('os').environ.get('REPO','/repo'))
from electrumx.lib.merkle import Merkle, MerkleCache
from electrumx.lib.hash import double_sha256
async def main():
    m = Merkle()
    old = [double_sha256(b'old%d' % i) for i in range(40)]
    new = old[:30] + [double_sha256(b'new%d' % i) for i in range(30, 40)]   # fork at height 30
    cur = {'hashes': old}
    gate = asyncio.Event(); entered = asyncio.Event()
    slow = {'on': False}
    async def source(start, count):
        data = cur['hashes'][start:start+count]          # read happens before the suspension (thread read of old headers)
        if slow['on']:
            entered.set(); await gate.wait()
        return data
    mc = MerkleCache(m, source)
    await mc.initialize(20)                               # cache covers height - reorg_limit
    slow['on'] = True
    t = asyncio.ensure_future(mc.branch_and_root(40, 5))  # header proof with cp_height = tip, in flight
    await entered.wait()
    # reorg: blocks 30..39 undone (backup_fs -> truncate(height+1)), new branch indexed
    mc.truncate(30); cur['hashes'] = new
    slow['on'] = False; gate.set()
    try:
        await t
    except Exception as e:
        print('in-flight request:', type(e).__name__, e)
    # later request on the new chain
    branch, root = await mc.branch_and_root(40, 5)
    print('cache length', mc.length, 'root ok:', root == m.root(new), 'root is old-chain root:', root == m.root(old))
asyncio.run(main())
