'''F16 replay (found by a round-4 seeding agent while reading; NOT a seeded mutation): behaviour of the tree before fix F16.

Two overlapping requests that both have to extend the cache, to different lengths: the one whose
read returns last commits `self.length = <its own, shorter length>` and shrinks the cache under the
other request, whose _level_for() then slices a level that is too short (no truncation, so nothing
is redone).  Prints `False True` on the unmodified tree: request A (length 40) is wrong.
The three demos m10-m12 avoid this schedule.
'''
import sys, os, asyncio
sys.path.insert(0, os.environ.get("REPO", "/repo"))
from electrumx.lib.merkle import Merkle, MerkleCache
m = Merkle()
H = [m.hash_func(bytes([i])) for i in range(64)]
async def main():
    gates = {}
    async def source(start, count):
        ev = gates.get((start, count))
        if ev:
            await ev.wait()
        return H[start:start+count]
    c = MerkleCache(m, source)
    await c.initialize(33)
    print('dh', c.depth_higher)
    gA = gates[(32, 8)] = asyncio.Event()
    gB = gates[(32, 4)] = asyncio.Event()
    gL = gates[(0, 8)] = asyncio.Event()
    tA = asyncio.ensure_future(c.branch_and_root(40, 1))
    tB = asyncio.ensure_future(c.branch_and_root(36, 1))
    await asyncio.sleep(0)
    await asyncio.sleep(0)
    gA.set()
    for _ in range(5): await asyncio.sleep(0)
    print('len after A commit', c.length)
    gB.set()
    for _ in range(5): await asyncio.sleep(0)
    print('len after B commit', c.length)
    gL.set()
    rA = await tA
    rB = await tB
    okA, okB = rA == m.branch_and_root(H[:40], 1), rB == m.branch_and_root(H[:36], 1)
    print(okA, okB)
    print('PASS' if okA and okB else 'FAIL: a request overlapped by a shorter extension got a wrong branch/root')
    return 0 if okA and okB else 1
sys.exit(asyncio.run(main()))
# exit status for replay use: 0 when both answers equal the from-scratch computation
