#!/usr/bin/env python3
"""C19 / F18: a JSON boolean announced as a port (or as `pruning`) passes Peer._integer because bool is a subclass of int:
the peer then has tcp_port True, is advertised with the detail 't True'-style string 'tTrue' and handed to connection code.
"ports valid or absent" - True is neither.   usage: /venv/bin/python exp_c19_boolport.py [repo]   (PASS = property holds)"""
import sys
sys.path.insert(0, sys.argv[1] if len(sys.argv) > 1 else '/repo')
from electrumx.lib.peer import Peer

bad = []
for key in ('tcp_port', 'ssl_port'):
    for val in (True, False):
        feats = {'hosts': {'peer.example.com': {key: val}}, 'protocol_max': '1.4', 'pruning': True}
        peers = Peer.peers_from_features(feats, 'demo')
        for p in peers:
            port = getattr(p, key)
            if port is not None and (type(port) is not int or not 0 < port < 65536):
                bad.append((key, val, port, p.real_name()))
            if p.pruning is not None and type(p.pruning) is not int:
                bad.append(('pruning', True, p.pruning, p.real_name()))
if bad:
    print('FAIL', bad[:4])
    sys.exit(1)
print('PASS')
