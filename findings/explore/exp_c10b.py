import asyncio, tempfile, shutil, os, logging
from harness import *
from electrumx.server.session import SessionManager
logging.basicConfig(level=logging.ERROR)
async def main():
    d = tempfile.mkdtemp(prefix='c10b')
    chain = Chain(1)
    for i in range(6): chain.add_block(2)
    env = make_env(d)
    db = DB(env); daemon = FakeDaemon(chain); await daemon.height()
    n = Notifications()
    bp = BlockProcessor(env, db, daemon, n)
    await sync(bp)
    sm = SessionManager(env, db, bp, daemon, None, asyncio.Event())
    await n.start(db.state.height, sm._notify_sessions)
    hx = {a: sha256(script(a))[:11] for a in range(5)}
    # worker-thread latency: the history read completes (old data) but its completion is delivered late
    gate = asyncio.Event(); entered = asyncio.Event()
    orig = db.limited_history
    async def slow_limited_history(hashX, *, limit=1000):
        res = await orig(hashX, limit=limit)     # real read at the old height
        entered.set(); await gate.wait()          # completion callback delayed
        return res
    db.limited_history = slow_limited_history
    reqs = [asyncio.ensure_future(sm.limited_history(hx[a])) for a in hx]
    await entered.wait()
    db.limited_history = orig
    # a new block arrives, is indexed and flushed; sessions are notified (history cache invalidated)
    chain.add_block(2); await daemon.height()
    await loop_sync(bp)
    await n.on_mempool(set(), db.state.height)
    print('height', db.state.height, 'notified', sm.notified_height)
    gate.set(); await asyncio.gather(*reqs)
    truth = {a: await db.limited_history(hx[a], limit=None) for a in hx}
    stale = [a for a in hx if (await sm.limited_history(hx[a]))[0] != truth[a]]
    print('stale cached histories for addrs:', stale)
    db.utxo_db.close(); db.history.close_db(); os.chdir('/tmp'); shutil.rmtree(d)
asyncio.run(main())
