import asyncio, tempfile, shutil, os, logging
from harness import *
logging.basicConfig(level=logging.ERROR)

class N(Notifications):
    pass

async def main():
    d = tempfile.mkdtemp(prefix='c05')
    chain = Chain(1)
    for i in range(8): chain.add_block(2)
    env = make_env(d)
    db = DB(env); daemon = FakeDaemon(chain); await daemon.height()
    n = N(); 
    bp = BlockProcessor(env, db, daemon, n)
    await sync(bp)
    print('height', db.state.height, 'tx', db.state.tx_count)
    h_before = await hist(db)
    # forced reorg of 1 with crash between history.backup commit and UTXO commit
    bp.caught_up = True
    orig = db.flush_utxo_db
    calls = {'n': 0}
    def crash(fd):
        raise SystemError('CRASH before UTXO commit')
    bp.force_chain_reorg(1)
    db.flush_utxo_db = crash
    try:
        await bp.reorg_chain(bp.reorg_count)
    except SystemError as e:
        print('crashed:', e)
    # "restart": new process objects on same directory
    db.utxo_db.close(); db.history.close_db()
    os.chdir('/tmp')
    env = make_env(d)
    db2 = DB(env); daemon2 = FakeDaemon(chain); await daemon2.height()
    bp2 = BlockProcessor(env, db2, daemon2, N())
    await sync(bp2)
    print('after restart height', db2.state.height)
    h_after = await hist(db2)
    for a in h_before:
        if h_before[a] != h_after[a]:
            print('MISMATCH addr', a, 'before', h_before[a][-3:], 'after', h_after[a][-3:])
    print('equal' if h_before == h_after else 'HISTORY DIFFERS')
    db2.utxo_db.close(); db2.history.close_db(); os.chdir('/tmp'); shutil.rmtree(d)
if __name__=='__main__': asyncio.run(main())
