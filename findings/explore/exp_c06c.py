import asyncio, tempfile, shutil, os, logging, threading, time
from harness import *

logging.basicConfig(level=logging.ERROR)

async def fresh(chain):
    d = tempfile.mkdtemp(prefix='fresh')
    env = make_env(d); db = DB(env); daemon = FakeDaemon(chain); await daemon.height()
    bp = BlockProcessor(env, db, daemon, Notifications())
    await sync(bp)
    h = await hist(db); st = (db.state.height, db.state.tx_count, db.state.utxo_count)
    db.utxo_db.close(); db.history.close_db(); os.chdir('/tmp'); shutil.rmtree(d)
    return h, st

async def main():
    chain = Chain(1)
    for i in range(6): chain.add_block(2)
    hf, stf = await fresh(chain)
    d = tempfile.mkdtemp(prefix='c06')
    env = make_env(d)
    db = DB(env); daemon = FakeDaemon(chain); await daemon.height()
    bp = BlockProcessor(env, db, daemon, Notifications())
    bp.polling_delay = 0.05
    OnDiskBlock.blocks = {}; OnDiskBlock.tasks = {}
    # schedule: first flush thread pauses inside History.flush just before committing its batch
    first_in_hist = threading.Event(); release_first = threading.Event()
    H = db.history
    orig_ws = H.write_state
    state = {'n': 0}
    def ws(batch):
        state['n'] += 1
        if state['n'] == 1:
            # emulate preemption of the first flush thread just before its history batch commits
            first_in_hist.set(); release_first.wait(5)
        return orig_ws(batch)
    H.write_state = ws
    orig_fd = db.flush_dbs
    import traceback
    def fd_wrap(*a):
        try:
            return orig_fd(*a)
        except BaseException as e:
            print('flush_dbs thread exception:', type(e).__name__, e); traceback.print_exc(limit=3); raise
    db.flush_dbs = fd_wrap
    caught = asyncio.Event(); shutdown = asyncio.Event()
    task = asyncio.ensure_future(bp.fetch_and_process_blocks(caught, shutdown))
    while not first_in_hist.is_set(): await asyncio.sleep(0.01)
    shutdown.set(); task.cancel()
    try:
        await task
        print('bp task returned normally (second flush done while first still running)')
    except BaseException as e:
        print('task raised', type(e).__name__, e)
    release_first.set()
    await asyncio.sleep(1.0)
    import gc; gc.collect()
    print('history flush calls', state['n'], 'hist flush_count', H.flush_count, 'utxo flush_count', db.state.flush_count)
    db.utxo_db.close(); db.history.close_db(); os.chdir('/tmp')
    # restart
    env = make_env(d); db2 = DB(env); daemon2 = FakeDaemon(chain); await daemon2.height()
    bp2 = BlockProcessor(env, db2, daemon2, Notifications())
    try:
        await sync(bp2)
        h2 = await hist(db2); st2 = (db2.state.height, db2.state.tx_count, db2.state.utxo_count)
        print('state', st2, 'fresh', stf)
        print('history equal to fresh:', h2 == hf)
        for a in hf:
            if hf[a] != h2[a]: print(' addr', a, 'len fresh', len(hf[a]), 'len got', len(h2[a]))
    except BaseException as e:
        print('restart failed', type(e).__name__, e)
    shutil.rmtree(d, ignore_errors=True)
asyncio.run(main())
