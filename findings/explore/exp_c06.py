import asyncio, tempfile, shutil, os, logging, threading, time
from harness import *
logging.basicConfig(level=logging.ERROR)

async def main():
    d = tempfile.mkdtemp(prefix='c06')
    chain = Chain(1)
    for i in range(6): chain.add_block(2)
    env = make_env(d)
    db = DB(env); daemon = FakeDaemon(chain); await daemon.height()
    bp = BlockProcessor(env, db, daemon, Notifications())
    bp.polling_delay = 0.05
    OnDiskBlock.blocks = {}; OnDiskBlock.tasks = {}
    # instrument flush_dbs: count concurrent executions
    active = {'n': 0, 'max': 0, 'calls': 0}
    orig = db.flush_dbs
    in_flush = threading.Event()
    def slow_flush(fd, fu, sr):
        if fd.state.height == db.state.height:
            return orig(fd, fu, sr)
        active['n'] += 1; active['calls'] += 1; active['max'] = max(active['max'], active['n'])
        in_flush.set()
        time.sleep(0.3)      # worker-thread latency
        try:
            return orig(fd, fu, sr)
        finally:
            active['n'] -= 1
    db.flush_dbs = slow_flush
    caught = asyncio.Event(); shutdown = asyncio.Event()
    task = asyncio.ensure_future(bp.fetch_and_process_blocks(caught, shutdown))
    # wait until a real flush is in progress in on_caught_up (after all blocks advanced)
    while not in_flush.is_set(): await asyncio.sleep(0.01)
    print('flush in progress at bp height', bp.state.height, 'db height', db.state.height)
    shutdown.set(); task.cancel()
    try:
        await task
    except BaseException as e:
        print('task raised', type(e).__name__, e)
    await asyncio.sleep(0.6)
    print('non-trivial flush calls', active['calls'], 'max concurrent', active['max'])
    os.chdir('/tmp'); shutil.rmtree(d)
asyncio.run(main())
