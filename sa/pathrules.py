'''Path-rule primitives on a CFG (ORDER / MUSTPASS / PAIR / DOM families).'''
import ast

from .model import AnalysisError, head


def _drop(srcs, avoid):
    return [s for s in srcs if s not in avoid]


QUERY_LOG = None     # set to a list by the thorough tier: every reachability query is recorded for re-checking


def path_avoiding(cfg, srcs, dsts, avoid, avoid_edge_kinds=()):
    '''Witness path from any src to any dst that touches no node in `avoid` (sources inside avoid
    are dropped; destinations are allowed to be in avoid only if listed in dsts).'''
    srcs = srcs if isinstance(srcs, (list, tuple, set)) else [srcs]
    dsts = set(dsts if isinstance(dsts, (list, tuple, set)) else [dsts])
    avoid = set(avoid)
    srcs = _drop(srcs, avoid)
    res = None
    for s in srcs:
        if s in dsts:
            res = [s]
            break
    if res is None:
        res = cfg.find_path(srcs, dsts, avoiding=avoid, avoid_edge_kinds=avoid_edge_kinds)
    if QUERY_LOG is not None and not avoid_edge_kinds:
        QUERY_LOG.append((cfg, tuple(srcs), frozenset(dsts), frozenset(avoid), res is not None))
    return res


def body_entries(cfg, loop_stmt):
    h = cfg.node(loop_stmt)
    return [m for m in cfg.g.successors(h) if 'true' in cfg.g[h][m]['kinds']]


def outside_loop(cfg, loop_stmt):
    '''CFG nodes that do not belong to the loop statement (a path through them has left the loop).'''
    inside = set()
    for sub in ast.walk(loop_stmt):
        n = cfg.of_stmt.get(sub)
        if n is not None:
            inside.add(n)
    for w, xs in cfg.exits_of_with.items():
        if cfg.of_stmt.get(w) in inside:
            inside.update(xs)
    return set(cfg.g.nodes) - inside


def once_per_iteration(cfg, loop_stmt, nodes):
    '''Each completed iteration of the loop (body entry -> back to the loop head, never leaving the
    loop) passes exactly one node of `nodes`.  Returns (ok, witness_text).'''
    h = cfg.node(loop_stmt)
    nodes = set(nodes)
    out = outside_loop(cfg, loop_stmt)
    if not nodes:
        return False, ['no such statement in the loop']
    p = path_avoiding(cfg, body_entries(cfg, loop_stmt), [h], nodes | out)
    if p is not None:
        return False, ['iteration path that skips it:'] + cfg.describe_path(p)
    for n in nodes:
        p = cfg.find_path([n], nodes, avoiding={h} | out)
        if p is not None:
            return False, ['iteration path that passes it twice:'] + cfg.describe_path(p)
    return True, None


def at_least_once_per_iteration(cfg, loop_stmt, nodes):
    h = cfg.node(loop_stmt)
    out = outside_loop(cfg, loop_stmt)
    p = path_avoiding(cfg, body_entries(cfg, loop_stmt), [h], set(nodes) | out)
    if p is not None:
        return False, ['iteration path that skips it:'] + cfg.describe_path(p)
    return True, None


def precedes_on_all_paths(cfg, a_nodes, b_nodes):
    '''No path from any b to any a (b never happens before a on a path that reaches a later).'''
    for b in b_nodes:
        p = cfg.find_path([b], set(a_nodes))
        if p is not None:
            return False, cfg.describe_path(p)
    return True, None


def all_paths_to_exit_pass(cfg, src, through, exit_node=None):
    '''Every normal path src -> exit passes a node of `through`.'''
    exit_node = cfg.exit if exit_node is None else exit_node
    p = path_avoiding(cfg, [src], [exit_node], set(through))
    if p is not None:
        return False, cfg.describe_path(p)
    return True, None


def dominated_by_any(cfg, n, guards):
    return any(cfg.dominates(g, n) for g in guards)


def control_conditions(node, stop):
    '''[(test expr, branch)] of the if/while statements enclosing `node` up to `stop` (innermost
    first); branch is True for the body, False for orelse.  A guard clause passed on the way (`if c: ...; return / raise /
    continue / break` earlier in an enclosing statement list) counts as (c, False): it governs what follows it just as an
    enclosing `if not c:` would.'''
    out = []
    child = node
    p = getattr(node, '_parent', None)
    while p is not None:
        # guard clauses passed on the way: a preceding sibling `if c: ...; <jump>` (no else) governs what follows it
        for fld in ('body', 'orelse', 'finalbody'):
            lst = getattr(p, fld, None)
            if isinstance(lst, list) and any(x is child for x in lst):
                i = next(k for k, x in enumerate(lst) if x is child)
                for prev in reversed(lst[:i]):
                    if isinstance(prev, ast.If) and not prev.orelse and prev.body and \
                            isinstance(prev.body[-1], (ast.Return, ast.Raise, ast.Continue, ast.Break)):
                        out.append((prev.test, False, prev))
        if p is stop:
            break
        if isinstance(p, (ast.If, ast.While)):
            if any(x is child for x in p.body):
                out.append((p.test, True, p))
            elif any(x is child for x in p.orelse):
                out.append((p.test, False, p))
        if isinstance(p, ast.IfExp):
            if p.body is child:
                out.append((p.test, True, p))
            elif p.orelse is child:
                out.append((p.test, False, p))
        child = p
        p = getattr(p, '_parent', None)
    return out


def silent_conditions(node, stop):
    """control_conditions without the guard clauses that end in `raise`: argument validation that refuses loudly is not a
    condition under which something is silently skipped"""
    return [(t, b, p) for t, b, p in control_conditions(node, stop)
            if not (isinstance(p, ast.If) and not b and not p.orelse and p.body and isinstance(p.body[-1], ast.Raise)
                    and not any(x is node for x in ast.walk(p)))]


def guard_conditions(node, stop):
    """control_conditions plus the guard clauses passed on the way: a preceding sibling `if c: ...; <jump>` (no else)
    contributes (c, False).  `not X` tests are reported as (X, flipped branch), so both spellings of a guarded region -
    nested under `if X:` or following `if not X: continue / return` - give the same list.  Negative comparison operators
    (is not, !=, not in) are reported as their positive twin with the branch flipped."""
    _POS = {ast.IsNot: ast.Is, ast.NotEq: ast.Eq, ast.NotIn: ast.In}

    def strip(t, b, p_):
        while isinstance(t, ast.UnaryOp) and isinstance(t.op, ast.Not):
            t, b = t.operand, not b
        if isinstance(t, ast.Compare) and len(t.ops) == 1 and type(t.ops[0]) in _POS:
            t2 = ast.Compare(left=t.left, ops=[_POS[type(t.ops[0])]()], comparators=t.comparators)
            t, b = ast.copy_location(t2, t), not b
        return (t, b, p_)
    out = []
    child = node
    p = getattr(node, '_parent', None)
    while p is not None:
        for fld in ('body', 'orelse', 'finalbody'):
            lst = getattr(p, fld, None)
            if isinstance(lst, list) and any(x is child for x in lst):
                i = next(k for k, x in enumerate(lst) if x is child)
                for prev in reversed(lst[:i]):
                    if isinstance(prev, ast.If) and not prev.orelse and prev.body and \
                            isinstance(prev.body[-1], (ast.Return, ast.Raise, ast.Continue, ast.Break)):
                        out.append(strip(prev.test, False, prev))
        if p is stop:
            break
        if isinstance(p, (ast.If, ast.While)):
            if any(x is child for x in p.body):
                out.append(strip(p.test, True, p))
            elif any(x is child for x in p.orelse):
                out.append(strip(p.test, False, p))
        if isinstance(p, ast.IfExp):
            if p.body is child:
                out.append(strip(p.test, True, p))
            elif p.orelse is child:
                out.append(strip(p.test, False, p))
        child = p
        p = getattr(p, '_parent', None)
    return out


def conjuncts(test):
    if isinstance(test, ast.BoolOp) and isinstance(test.op, ast.And):
        out = []
        for v in test.values:
            out += conjuncts(v)
        return out
    return [test]


def control_equivalent_in_loop(cfg, loop_stmt, a_nodes, b_nodes):
    """Within one iteration of the loop (paths that stay inside it and do not take the back edge) a node of
    A is passed iff a node of B is passed.  Returns (ok, witness)."""
    h = cfg.node(loop_stmt)
    out = outside_loop(cfg, loop_stmt)
    A, B = set(a_nodes), set(b_nodes)
    if not A or not B:
        return False, ['one side of the pair is missing in the loop']
    for X, Y, tx, ty in ((A, B, 'first', 'second'), (B, A, 'second', 'first')):
        for x in X:
            if x in Y:
                continue
            pre = path_avoiding(cfg, body_entries(cfg, loop_stmt), [x], Y | out | {h})
            post = path_avoiding(cfg, [x], [h], Y | out) if x != h else None
            # x reachable in an iteration without Y before it, and the iteration can finish without Y after it
            if pre is not None and post is not None:
                return False, [f'an iteration passes the {tx} but not the {ty}:'] + cfg.describe_path(pre) + cfg.describe_path(post[1:])
    return True, None
