'''Positive controls: tiny fixture modules under selftest/fixtures that a rule MUST report on every run
(a rule whose expected count on the real tree is zero would otherwise pass vacuously forever).'''
import os

from .model import Repo, Unit
from .engine import Ctx, VERIF
from .resolve import Resolver


class MiniRepo(Repo):
    '''A repository made of fixture files only (relpath 'fixture' for the primary one).'''

    def __init__(self, files):
        self._files = files
        super().__init__(root=os.path.join(VERIF, 'selftest', 'fixtures'))

    def _load(self):
        for rel, path in self._files.items():
            with open(path) as f:
                unit = Unit(rel, f.read())
            self.units[rel] = unit
            self._index(unit, unit.tree.body, '', None, None)


def fixture_ctx(fname, prop='FIXTURE'):
    path = os.path.join(VERIF, 'selftest', 'fixtures', fname)
    ctx = Ctx.__new__(Ctx)
    ctx.prop, ctx.tier, ctx.root = prop, 'quick', path
    ctx.repo = MiniRepo({'fixture': path})
    ctx.res = Resolver(ctx.repo)
    ctx._cg, ctx._cfgs = None, {}
    ctx.obligations, ctx.floors, ctx.notes, ctx.consulted, ctx.errors = [], {}, [], set(), []
    ctx.paths_enumerated = ctx.path_evals = 0
    return ctx
