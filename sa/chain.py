'''Chain-state mutation model shared by C03 / C06 rules.

"Chain state" = what must be consistent with one height: the ChainState height fields, the unflushed
caches handed to FlushData, DB.tx_counts / fs pointers, History.unflushed / flush_count, and the
durable stores.  The field set is derived from BlockProcessor.flush_data() and from the fields
advance_block writes, not listed by hand.
'''
import ast

from .model import AnalysisError, norm, walk_own, dotted
from . import q

MUTATORS = {'append', 'extend', 'pop', 'clear', 'update', 'add', 'remove', 'discard', 'insert', 'popitem',
            'setdefault', '__setitem__', '__delitem__', 'sort', 'reverse', 'frombytes'}
STATE_FIELDS_FALLBACK = {'height', 'tip', 'tx_count', 'chain_size', 'utxo_count'}
EXTRA_FIELDS = {('DB', 'tx_counts'), ('DB', 'fs_height'), ('DB', 'fs_tx_count'),
                ('History', 'unflushed'), ('History', 'flush_count')}


def _peel(expr):
    '''Strip subscripts / calls to reach the underlying Name/Attribute chain.'''
    while True:
        if isinstance(expr, ast.Subscript):
            expr = expr.value
        elif isinstance(expr, ast.Call) and isinstance(expr.func, ast.Attribute) and expr.func.attr in ('get', 'setdefault'):
            expr = expr.func.value
        else:
            return expr


class ChainModel:
    def __init__(self, ctx):
        self.ctx = ctx
        bp_fd = ctx.func('bp', 'BlockProcessor.flush_data')
        rets = [n for n in bp_fd.own_nodes() if isinstance(n, ast.Return)]
        if len(rets) != 1 or not isinstance(rets[0].value, ast.Call):
            raise AnalysisError('BlockProcessor.flush_data: expected `return FlushData(...)`')
        self.bp_fields = set()
        for a in rets[0].value.args:
            d = dotted(a)
            if d and d.startswith('self.') and d.count('.') == 1:
                self.bp_fields.add(d.split('.')[1])
        if len(self.bp_fields) < 5:
            raise AnalysisError('BlockProcessor.flush_data: fewer than 5 cache fields found')
        self.cache_fields = {('BlockProcessor', f) for f in self.bp_fields if f != 'state'} | EXTRA_FIELDS
        # state fields = attributes of the ChainState written by advance_block
        adv = ctx.func('bp', 'BlockProcessor.advance_block')
        self.state_fields = set()
        for n in adv.own_nodes():
            if isinstance(n, (ast.Assign, ast.AugAssign)):
                tg = n.targets if isinstance(n, ast.Assign) else [n.target]
                for t in tg:
                    if isinstance(t, ast.Attribute):
                        bt = ctx.res.type_of(t.value, adv)
                        if bt == ('inst', 'ChainState'):
                            self.state_fields.add(t.attr)
        if not self.state_fields >= {'height', 'tip', 'tx_count'}:
            raise AnalysisError(f'advance_block: state fields written not recognised: {self.state_fields}')
        self._direct = {}
        self._sync_mut = None

    # -- classification of one function's own body
    def _field_of(self, expr, func):
        '''(class, field) owning the object that `expr` denotes or is part of, if it is a chain cache.'''
        e = _peel(expr)
        # walk down the attribute chain: the first (class, field) hit wins
        chain = []
        while isinstance(e, ast.Attribute):
            chain.append(e)
            e = e.value
        for a in reversed(chain):
            bt = self.ctx.res.type_of(a.value, func)
            if bt and bt[0] == 'inst':
                for c in self.ctx.repo.bases_of(bt[1]):
                    if (c, a.attr) in self.cache_fields:
                        return (c, a.attr)
        if isinstance(e, ast.Name):
            al = self.ctx.res.aliases(func).get(e.id)
            f = func
            while al is None and f.parent is not None:
                f = f.parent
                al = self.ctx.res.aliases(f).get(e.id)
            if al is not None:
                return self._field_of(al, f)
        return None

    def mutations(self, func):
        '''[(node, text)] direct chain-state mutations in func's own body.'''
        got = self._direct.get(func.key)
        if got is not None:
            return got
        out = []
        res = self.ctx.res
        for n in func.own_nodes():
            if isinstance(n, (ast.Assign, ast.AugAssign, ast.Delete)):
                tg = n.targets if isinstance(n, (ast.Assign, ast.Delete)) else [n.target]
                flat = []
                for t in tg:
                    flat += list(t.elts) if isinstance(t, (ast.Tuple, ast.List)) else [t]
                for t in flat:
                    if isinstance(t, ast.Attribute):
                        bt = res.type_of(t.value, func)
                        if bt == ('inst', 'ChainState') and t.attr in self.state_fields:
                            # only the live state objects count (self.state of BlockProcessor, flush_data.state is the same object)
                            out.append((n, f'state.{t.attr} written'))
                            continue
                        if bt and bt[0] == 'inst':
                            for c in self.ctx.repo.bases_of(bt[1]):
                                if (c, t.attr) in self.cache_fields and func.name != '__init__':
                                    out.append((n, f'{c}.{t.attr} rebound'))
                    elif isinstance(t, ast.Subscript):
                        fld = self._field_of(t, func)
                        if fld:
                            out.append((n, f'{fld[0]}.{fld[1]}[...] written'))
            elif isinstance(n, ast.Call):
                fn = n.func
                # alias of a bound mutator: put_utxo = self.utxo_cache.__setitem__
                if isinstance(fn, ast.Name):
                    al = None
                    f = func
                    while f is not None and al is None:
                        al = res.aliases(f).get(fn.id)
                        f = f.parent
                    if al is not None and isinstance(al, ast.Attribute):
                        fn = al
                if isinstance(fn, ast.Attribute):
                    bt = res.type_of(fn.value, func)
                    if bt and bt[0] == 'store' and fn.attr in ('put', 'delete', 'write_batch'):
                        out.append((n, f'{bt[1]} store {fn.attr}'))
                    elif bt and bt[0] == 'file' and fn.attr == 'write':
                        out.append((n, f'file {bt[1]} write'))
                    elif fn.attr in MUTATORS:
                        fld = self._field_of(fn.value, func)
                        if fld:
                            out.append((n, f'{fld[0]}.{fld[1]}.{fn.attr}()'))
        self._direct[func.key] = out
        return out

    # -- transitive (sync) closure
    def sync_mutators(self, barrier=()):
        '''Keys of sync functions that mutate chain state directly or through sync calls.'''
        if self._sync_mut is not None:
            return self._sync_mut
        cg = self.ctx.cg
        mut = {}
        funcs = [f for f in self.ctx.repo.funcs.values() if not f.is_async]
        for f in funcs:
            if f.key in barrier:
                continue
            m = self.mutations(f)
            if m:
                mut[f.key] = f'{f.qual}: {m[0][1]}'
        changed = True
        while changed:
            changed = False
            for f in funcs:
                if f.key in mut or f.key in barrier:
                    continue
                for (_c, callee, kind, node) in cg.callees(f, kinds=('CALL',)):
                    if callee.key in mut and not callee.is_async:
                        mut[f.key] = f'{f.qual} -> {mut[callee.key]}'
                        changed = True
                        break
        self._sync_mut = mut
        return mut


    def sites(self, f, skip=('flush_data',)):
        """Mutation sites in f: direct mutations plus calls (also through local aliases) of sync mutators."""
        mut = self.sync_mutators()
        out = list(self.mutations(f))
        for c in q.own_calls(f):
            tgt = self.ctx.res.resolve_ref(c.func, f)
            if tgt is None and isinstance(c.func, ast.Name):
                al = self.ctx.res.aliases(f).get(c.func.id)
                tgt = self.ctx.res.resolve_ref(al, f) if al is not None else None
            if tgt is not None and tgt.key in mut and tgt.name not in skip:
                out.append((c, f'call of {tgt.qual}'))
        return out
