'''A structural copy of a syntax tree: fields and positions only (analysis annotations such as parent links are not
followed, which is what makes copy.deepcopy on an annotated tree copy the whole unit).'''
import ast

_POS = ('lineno', 'col_offset', 'end_lineno', 'end_col_offset')


def fast_copy(n):
    if isinstance(n, ast.AST):
        new = n.__class__()
        for f in n._fields:
            try:
                v = getattr(n, f)
            except AttributeError:
                continue
            setattr(new, f, fast_copy(v))
        for a in _POS:
            if hasattr(n, a):
                setattr(new, a, getattr(n, a))
        return new
    if isinstance(n, list):
        return [fast_copy(x) for x in n]
    return n
