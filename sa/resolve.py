'''Name / type / call resolution over the repository model.

Types are small tuples:
  ('inst', ClassName)   an instance of a repo class
  ('cls', ClassName)    the class object itself
  ('mod', relpath)      a repo module
  ('func', Func)        a function / method reference
  ('store', 'UTXO'|'HIST')   a Storage handle         (from STORE_FIELDS)
  ('file', name)        a LogicalFile                 (from FILE_FIELDS)
  ('ext', dotted)       something from outside the repository (aiorpcx.run_in_thread, ...)

Receiver types of `self.<field>` are *derived from the source*: `self.f = Class(...)`, or `self.f = param`
bound at every constructor / method call site found in the tree (fix-point).  The few dynamic sites
(session classes chosen through the coin class) are listed in DYNAMIC_CLASSES and checked to exist.
'''
import ast

from .model import AnalysisError, dotted, walk_own, norm

# names bound to a class chosen at run time -> the repo classes they can denote
# class-valued attributes chosen at run time (keyed by the attribute name, a stable part of the coin API)
CLASS_ATTRS = {'SESSIONCLS': ['ElectrumX']}
DYNAMIC_CLASSES = {}     # kept for compatibility: local names are no longer consulted

# (class, field) -> store identity.  Validated: the field is assigned from a `db_class(...)` call.
STORE_FIELDS = {('DB', 'utxo_db'): 'UTXO', ('History', 'db'): 'HIST'}
FILE_FIELDS = {('DB', 'headers_file'): 'headers', ('DB', 'tx_counts_file'): 'txcounts',
               ('DB', 'hashes_file'): 'hashes'}

# parameters whose type cannot be derived from a constructor (passed through threads / generic names)
PARAM_TYPES = {
    'flush_data': ('inst', 'FlushData'),
    'block': ('inst', 'OnDiskBlock'),
    'session': ('inst', 'ElectrumX'),
    'peer': ('inst', 'Peer'),
    'deserializer': ('inst', 'Deserializer'),
}

# attributes of attr.s classes that hold instances
ATTR_FIELD_TYPES = {('FlushData', 'state'): ('inst', 'ChainState')}


class Resolver:
    def __init__(self, repo):
        self.repo = repo
        self.field_types = {}       # (cls, field) -> type
        self.field_sources = {}     # (cls, field) -> description of where it was derived
        self.conflicts = {}
        self._alias_cache = {}
        self._class_sets = {}
        self._local_cache = {}
        self._assign_counts = {}
        self.stats = {'calls': 0, 'resolved': 0}
        self._derive_field_types()

    # ---------------------------------------------------------------- aliases
    def assign_counts(self, func):
        '''name -> number of binding occurrences in the function's own body.'''
        c = self._assign_counts.get(func.key)
        if c is not None:
            return c
        c = {}

        def bind(t):
            if isinstance(t, ast.Name):
                c[t.id] = c.get(t.id, 0) + 1
            elif isinstance(t, (ast.Tuple, ast.List)):
                for e in t.elts:
                    bind(e)
            elif isinstance(t, ast.Starred):
                bind(t.value)
        for p in func.params + func.kwonly:
            c[p.lstrip('*')] = 1
        if func.node.args.kwarg:
            c[func.node.args.kwarg.arg] = 1
        for n in func.own_nodes():
            if isinstance(n, ast.Assign):
                for t in n.targets:
                    bind(t)
            elif isinstance(n, (ast.AugAssign, ast.AnnAssign)):
                bind(n.target)
            elif isinstance(n, (ast.For, ast.AsyncFor)):
                bind(n.target)
            elif isinstance(n, (ast.With, ast.AsyncWith)):
                for i in n.items:
                    if i.optional_vars is not None:
                        bind(i.optional_vars)
            elif isinstance(n, ast.ExceptHandler) and n.name:
                c[n.name] = c.get(n.name, 0) + 1
            elif isinstance(n, ast.NamedExpr):
                bind(n.target)
            elif isinstance(n, ast.comprehension):
                bind(n.target)
        # nested defs bind their name
        for name in func.nested:
            c[name] = c.get(name, 0) + 1
        self._assign_counts[func.key] = c
        return c

    def aliases(self, func):
        '''name -> expression node, for names bound exactly once to a Name/Attribute chain.'''
        a = self._alias_cache.get(func.key)
        if a is not None:
            return a
        a = {}
        counts = self.assign_counts(func)
        for n in func.own_nodes():
            if not isinstance(n, ast.Assign) or len(n.targets) != 1:
                continue
            t, v = n.targets[0], n.value
            pairs = []
            if isinstance(t, ast.Name):
                pairs = [(t, v)]
            elif isinstance(t, ast.Tuple) and isinstance(v, ast.Tuple) and len(t.elts) == len(v.elts):
                pairs = [(x, y) for x, y in zip(t.elts, v.elts) if isinstance(x, ast.Name)]
            for x, y in pairs:
                if counts.get(x.id, 0) == 1 and dotted(y) is not None and dotted(y) != x.id:
                    a[x.id] = y
        # a name bound to a field that this function later re-assigns is a value snapshot, not an alias
        written = set()
        for n in func.own_nodes():
            tg = []
            if isinstance(n, ast.Assign):
                tg = n.targets
            elif isinstance(n, (ast.AugAssign, ast.AnnAssign)):
                tg = [n.target]
            for t in tg:
                for e in (t.elts if isinstance(t, (ast.Tuple, ast.List)) else [t]):
                    if isinstance(e, ast.Attribute) and dotted(e):
                        written.add(dotted(e))
        for name in list(a):
            if dotted(a[name]) in written:
                del a[name]
        # an alias denotes an object or a bound method: the name must be used as a callee or as the base of an
        # attribute / subscript somewhere (a name only used as a value is a snapshot of that value)
        used_as_object = set()
        stack = [func]
        while stack:
            g = stack.pop()
            stack.extend(g.nested.values())
            for n in g.own_nodes():
                if isinstance(n, ast.Call) and isinstance(n.func, ast.Name):
                    used_as_object.add(n.func.id)
                elif isinstance(n, (ast.Attribute, ast.Subscript)) and isinstance(n.value, ast.Name):
                    used_as_object.add(n.value.id)
                elif isinstance(n, (ast.For, ast.AsyncFor, ast.comprehension)) and isinstance(n.iter, ast.Name):
                    used_as_object.add(n.iter.id)
                elif isinstance(n, ast.Call):
                    for arg in n.args:
                        if isinstance(arg, ast.Name) and isinstance(n.func, ast.Name) and n.func.id in ('set', 'len', 'sorted', 'list'):
                            used_as_object.add(arg.id)
        for name in list(a):
            if name not in used_as_object:
                del a[name]
        self._alias_cache[func.key] = a
        return a

    def canon(self, expr, func, _depth=0):
        '''Canonical dotted access path of a Name/Attribute chain with local aliases expanded
        (closures see the aliases of their enclosing functions).  None if not a chain.'''
        d = dotted(expr)
        if d is None:
            return None
        if _depth > 8:
            return d
        base, _, rest = d.partition('.')
        f = func
        while f is not None:
            counts = self.assign_counts(f)
            if base in counts:
                al = self.aliases(f).get(base)
                if al is not None:
                    c = self.canon(al, f, _depth + 1)
                    if c is not None:
                        return c + ('.' + rest if rest else '')
                return d
            f = f.parent
        return d

    # ---------------------------------------------------------------- types
    def _class_type(self, name):
        if name in self.repo.class_units:
            return ('cls', name)
        return None

    def _module_lookup(self, unit, name):
        '''Module-level binding `name` in unit -> type.'''
        f = self.repo.funcs.get(f'{unit.relpath}::{name}')
        if f is not None:
            return ('func', f)
        if (unit.relpath, name) in self.repo.classes:
            return ('cls', name)
        imp = unit.imports.get(name)
        if imp is not None:
            mod, attr = imp
            rel = mod.replace('.', '/') + '.py'
            if attr is None:
                if rel in self.repo.units:
                    return ('mod', rel)
                pkg_init = mod.replace('.', '/') + '/__init__.py'
                if pkg_init in self.repo.units:
                    return ('mod', pkg_init)
                return ('ext', mod)
            # from pkg import module
            rel2 = (mod + '.' + attr).replace('.', '/') + '.py'
            if rel2 in self.repo.units:
                return ('mod', rel2)
            if rel in self.repo.units:
                return self._module_lookup(self.repo.units[rel], attr) or ('ext', f'{mod}.{attr}')
            return ('ext', f'{mod}.{attr}')
        # module-level simple assignment `name = <chain>` (e.g. hex_to_bytes = bytes.fromhex)
        return None

    def local_types(self, func):
        '''Types of local variables bound once from a constructor / typed expression.'''
        lt = self._local_cache.get(func.key)
        if lt is not None:
            return lt
        lt = {}
        self._local_cache[func.key] = lt
        counts = self.assign_counts(func)
        for n in func.own_nodes():
            pairs = []
            if isinstance(n, ast.Assign) and len(n.targets) == 1 and isinstance(n.targets[0], ast.Name):
                pairs.append((n.targets[0].id, n.value))
            elif isinstance(n, (ast.With, ast.AsyncWith)):
                for i in n.items:
                    if isinstance(i.optional_vars, ast.Name):
                        pairs.append((i.optional_vars.id, i.context_expr))
            # x = A if c else B binds x to either arm (the normaliser writes `if c: x = A else: x = B` this way)
            pairs = [(name, arm) for name, v in pairs for arm in ((v.body, v.orelse) if isinstance(v, ast.IfExp) else (v,))]
            multi = {name for name, _v in pairs if [p_[0] for p_ in pairs].count(name) > 1}
            for name, v in pairs:
                if counts.get(name, 0) != 1 or name in multi:
                    # a local bound several times, every time to a class: remember all candidates
                    if isinstance(n, ast.Assign) and name not in func.params:
                        t = self.type_of(v, func) if not isinstance(v, ast.Name) or v.id != name else None
                        if t and t[0] == 'cls':
                            cs = self._class_sets.setdefault((func.key, name), [])
                            if t[1] not in cs:
                                cs.append(t[1])
                    continue
                if isinstance(v, ast.Await):
                    v = v.value
                if isinstance(v, ast.Call):
                    t = self.type_of(v.func, func)
                    if t and t[0] == 'cls':
                        lt[name] = ('inst', t[1])
                    elif t and t[0] == 'func' and t[1].name == 'copy' and t[1].cls:
                        lt[name] = ('inst', t[1].cls)
        return lt

    def type_of(self, expr, func, _depth=0):
        if _depth > 10:
            return None
        if isinstance(expr, ast.Await):
            return self.type_of(expr.value, func, _depth + 1)
        if isinstance(expr, ast.IfExp):
            a, b = self.type_of(expr.body, func, _depth + 1), self.type_of(expr.orelse, func, _depth + 1)
            if a == b or b is None:
                return a
            return b if a is None else (a if a[0] == b[0] == 'cls' else None)
        if isinstance(expr, ast.Name):
            return self._type_of_name(expr.id, func, _depth)
        if isinstance(expr, ast.Attribute):
            if expr.attr in CLASS_ATTRS:
                return ('cls', CLASS_ATTRS[expr.attr][0])
            bt = self.type_of(expr.value, func, _depth + 1)
            return self._attr_type(bt, expr.attr)
        if isinstance(expr, ast.Call):
            ft = self.type_of(expr.func, func, _depth + 1)
            if ft and ft[0] == 'cls':
                return ('inst', ft[1])
            if isinstance(expr.func, ast.Name) and expr.func.id == 'super':
                if func.cls:
                    bases = self.repo.bases_of(func.cls)
                    if len(bases) > 1:
                        return ('inst', bases[1])
            if ft and ft[0] == 'func' and ft[1].name == 'copy' and ft[1].cls:
                return ('inst', ft[1].cls)
            if ft and ft[0] == 'func':
                return self.return_type(ft[1], _depth + 1)
            return None
        return None

    def return_type(self, f, _depth=0):
        '''Type returned by repo function f when every `return <expr>` has the same derivable type.'''
        memo = self.__dict__.setdefault('_ret_memo', {})
        if f.key in memo:
            return memo[f.key]
        stack = self.__dict__.setdefault('_ret_stack', [])
        if len(stack) > 6 or f.key in stack:
            return None
        stack.append(f.key)
        tys = []
        try:
            for n in f.own_nodes():
                if isinstance(n, ast.Return) and n.value is not None:
                    tys.append(self.type_of(n.value, f, 0))
        finally:
            stack.pop()
        out = None
        if tys and all(t is not None for t in tys) and len({self._tykey(t) for t in tys}) == 1:
            out = tys[0]
        memo[f.key] = out
        return out

    def _type_of_name(self, name, func, _depth):
        f = func
        while f is not None:
            if name == 'self' and f.cls and 'self' in f.params[:1]:
                return ('inst', f.cls)
            if name == 'cls' and f.cls and f.is_classmethod:
                return ('cls', f.cls)
            counts = self.assign_counts(f)
            if name in counts:
                al = self.aliases(f).get(name)
                if al is not None:
                    return self.type_of(al, f, _depth + 1)
                if name in f.nested:
                    return ('func', f.nested[name])
                lt = self.local_types(f).get(name)
                if lt is not None:
                    return lt
                if name in f.params or name in f.kwonly:
                    pt = self.param_type(f, name)
                    if pt is not None:
                        return pt
                self.local_types(f)
                cs = self._class_sets.get((f.key, name))
                if cs:
                    return ('cls', cs[0])
                return None
            f = f.parent
        return self._module_lookup(func.unit, name)

    def param_type(self, f, name):
        t = self.field_types.get(('param', f.key, name))
        if t is not None:
            return t
        return PARAM_TYPES.get(name)

    def _attr_type(self, bt, attr):
        if bt is None:
            return None
        kind = bt[0]
        if kind == 'inst':
            for c in self.repo.bases_of(bt[1]):
                if (c, attr) in STORE_FIELDS:
                    return ('store', STORE_FIELDS[(c, attr)])
                if (c, attr) in FILE_FIELDS:
                    return ('file', FILE_FIELDS[(c, attr)])
                t = self.field_types.get((c, attr)) or ATTR_FIELD_TYPES.get((c, attr))
                if t is not None:
                    return t
            m = self.repo.methods_of(bt[1]).get(attr)
            if m is not None:
                return ('func', m)
            return None
        if kind == 'cls':
            m = self.repo.methods_of(bt[1]).get(attr)
            if m is not None:
                return ('func', m)
            return None
        if kind == 'mod':
            unit = self.repo.units.get(bt[1])
            if unit is None:
                return None
            return self._module_lookup(unit, attr)
        if kind == 'ext':
            return ('ext', bt[1] + '.' + attr)
        return None

    # ---------------------------------------------------------------- field type derivation
    def _derive_field_types(self):
        repo = self.repo
        # pass 0: self.f = Class(...)  (in any method)
        param_flows = []   # (Func method, param name, cls, field)
        for f in repo.funcs.values():
            if not f.cls or f.parent is not None or not f.params or f.params[0] != 'self':
                continue
            for n in f.own_nodes():
                if not isinstance(n, ast.Assign):
                    continue
                for t in n.targets:
                    if isinstance(t, ast.Attribute) and isinstance(t.value, ast.Name) and t.value.id == 'self':
                        v = n.value
                        if isinstance(v, ast.Name) and v.id in f.params[1:] and self.assign_counts(f).get(v.id) == 1:
                            param_flows.append((f, v.id, f.cls, t.attr))
        for _round in range(6):
            changed = False
            for f in repo.funcs.values():
                if not f.cls or f.parent is not None or not f.params or f.params[0] != 'self':
                    continue
                for n in f.own_nodes():
                    if not isinstance(n, ast.Assign):
                        continue
                    for t in n.targets:
                        if isinstance(t, ast.Attribute) and isinstance(t.value, ast.Name) and t.value.id == 'self':
                            ty = self.type_of(n.value, f)
                            if ty and ty[0] in ('inst', 'func') and (f.cls, t.attr) not in self.field_types \
                                    and not (ty[0] == 'func' and f.name != '__init__'):
                                self.field_types[(f.cls, t.attr)] = ty
                                self.field_sources[(f.cls, t.attr)] = f'{f.key}: {norm(n)}'
                                changed = True
            # call sites binding parameters
            sites = self._call_sites_index()
            for (m, pname, cls, field) in param_flows:
                idx = m.params.index(pname)
                tys = []
                for (caller, call, offset) in sites.get(m.key, []):
                    arg = self._arg_at(call, m, idx, offset)
                    if arg is None:
                        continue
                    ty = self.type_of(arg, caller)
                    if ty is not None:
                        tys.append((ty, f'{caller.key}: {norm(call)[:90]}'))
                kinds = {self._tykey(t) for t, _ in tys}
                if len(kinds) == 1:
                    ty, src = tys[0]
                    if self.field_types.get((cls, field)) != ty:
                        if (cls, field) not in self.field_types:
                            self.field_types[(cls, field)] = ty
                            self.field_sources[(cls, field)] = src
                            changed = True
                    if self.field_types.get(('param', m.key, pname)) is None:
                        self.field_types[('param', m.key, pname)] = ty
                        changed = True
                elif len(kinds) > 1:
                    self.conflicts[(cls, field)] = sorted(str(k) for k in kinds)
            # attribute wiring on typed locals: `notifications.lookup_utxos = db.lookup_utxos`
            for f in repo.funcs.values():
                for n in f.own_nodes():
                    if isinstance(n, ast.Assign) and len(n.targets) == 1 and isinstance(n.targets[0], ast.Attribute):
                        t = n.targets[0]
                        if isinstance(t.value, ast.Name) and t.value.id != 'self':
                            bt = self.type_of(t.value, f)
                            if bt and bt[0] == 'inst':
                                ty = self.type_of(n.value, f)
                                if ty and (bt[1], t.attr) not in self.field_types:
                                    self.field_types[(bt[1], t.attr)] = ty
                                    self.field_sources[(bt[1], t.attr)] = f'{f.key}: {norm(n)}'
                                    changed = True
            self.__dict__.pop('_ret_memo', None)
            self._local_cache = {}
            if not changed:
                break

    @staticmethod
    def _tykey(t):
        if t[0] == 'func':
            return ('func', t[1].key)
        return t

    def _arg_at(self, call, callee, idx, offset):
        '''Argument expression bound to callee parameter index `idx`; offset = number of callee
        parameters bound implicitly (self) or by a preceding positional (partial / spawn forms).'''
        pos = idx - offset
        args = call.args
        if 0 <= pos < len(args) and not any(isinstance(a, ast.Starred) for a in args[:pos + 1]):
            return args[pos]
        pname = callee.params[idx]
        for kw in call.keywords:
            if kw.arg == pname:
                return kw.value
        return None

    def _call_sites_index(self):
        '''callee key -> [(caller Func, Call node, offset)] including constructor and partial forms.'''
        out = {}
        for f in self.repo.funcs.values():
            for n in f.own_nodes():
                if not isinstance(n, ast.Call):
                    continue
                t = self.type_of(n.func, f)
                if t is None:
                    # partial(<dynamic class>, ...)
                    continue
                if t[0] == 'func':
                    callee = t[1]
                    offset = 1 if (callee.cls and callee.parent is None and not callee.is_staticmethod) else 0
                    out.setdefault(callee.key, []).append((f, n, offset))
                elif t[0] == 'cls':
                    names = self.class_candidates(n.func, f) or [t[1]]
                    for cn in names:
                        init = self._real_init(cn)
                        if init is not None:
                            out.setdefault(init.key, []).append((f, n, 1))
                elif t[0] == 'ext' and t[1].endswith('partial') and n.args:
                    t0 = self.type_of(n.args[0], f)
                    if t0 and t0[0] == 'cls':
                        names = self.class_candidates(n.args[0], f) or [t0[1]]
                        for cn in names:
                            init = self._real_init(cn)
                            if init is not None:
                                fake = ast.Call(func=n.args[0], args=n.args[1:], keywords=n.keywords)
                                out.setdefault(init.key, []).append((f, fake, 1))
        return out

    def class_candidates(self, expr, f):
        '''All repo classes a class-valued expression may denote.'''
        if isinstance(expr, ast.Name):
            g = f
            while g is not None:
                self.local_types(g)
                cs = self._class_sets.get((g.key, expr.id))
                if cs:
                    return list(cs)
                g = g.parent
        if isinstance(expr, ast.Attribute) and expr.attr in CLASS_ATTRS:
            return list(CLASS_ATTRS[expr.attr])
        t = self.type_of(expr, f)
        return [t[1]] if t and t[0] == 'cls' else []

    def _real_init(self, clsname):
        '''First __init__ in the MRO that does not merely forward (*args, **kwargs).'''
        for cn in self.repo.bases_of(clsname):
            f = self.repo.funcs.get(f'{self.repo.class_units.get(cn)}::{cn}.__init__')
            if f is None:
                continue
            if f.params == ['self', '*args']:
                continue
            return f
        return None

    # ---------------------------------------------------------------- calls
    def resolve_ref(self, expr, func):
        '''Function reference expression -> Func or None.'''
        t = self.type_of(expr, func)
        if t and t[0] == 'func':
            return t[1]
        if t and t[0] == 'cls':
            return self.repo.methods_of(t[1]).get('__init__')
        return None

    def resolve_call(self, call, func):
        '''Call node -> Func (callee) or None for external / unresolved.'''
        self.stats['calls'] += 1
        f = self.resolve_ref(call.func, func)
        if f is not None:
            self.stats['resolved'] += 1
            return f
        t = self.type_of(call.func, func)
        if t and t[0] in ('ext', 'cls'):
            self.stats['resolved'] += 1
        return None

    def ext_name(self, call, func):
        '''Dotted external name of the callee ('aiorpcx.run_in_thread'), or the canonical access
        path when nothing is known ('self.utxo_cache.pop').'''
        t = self.type_of(call.func, func)
        if t and t[0] == 'ext':
            return t[1]
        return self.canon(call.func, func) or norm(call.func)

    def is_ext(self, call, func, *suffixes):
        t = self.type_of(call.func, func)
        if t and t[0] == 'ext':
            return any(t[1] == s or t[1].endswith('.' + s) for s in suffixes)
        return False


class CallGraph:
    '''Context-annotated call graph: edges (caller key, callee key, kind, Call node).
    kinds: CALL, AWAIT (call directly awaited), THREAD (run_in_thread target), TASK (spawn target),
    REF (function passed as a value), COROARG (coroutine object passed as an argument).'''

    def __init__(self, repo, resolver):
        self.repo = repo
        self.r = resolver
        self.edges = []
        self.out = {}
        self.inn = {}
        self.coro_args = []    # (caller Func, outer Call, inner Call, inner callee Func or None)
        self._build()

    def _add(self, caller, callee, kind, node):
        e = (caller, callee, kind, node)
        self.edges.append(e)
        self.out.setdefault(caller.key, []).append(e)
        self.inn.setdefault(callee.key, []).append(e)

    def _build(self):
        r = self.r
        for f in self.repo.funcs.values():
            for n in f.own_nodes():
                if not isinstance(n, ast.Call):
                    continue
                callee = r.resolve_call(n, f)
                awaited = isinstance(getattr(n, '_parent', None), ast.Await)
                if callee is not None:
                    self._add(f, callee, 'AWAIT' if awaited else 'CALL', n)
                special = None
                if r.is_ext(n, f, 'run_in_thread'):
                    special = 'THREAD'
                elif r.is_ext(n, f, 'spawn') or (isinstance(n.func, ast.Attribute) and n.func.attr == 'spawn'):
                    special = 'TASK'
                for i, a in enumerate(n.args):
                    if isinstance(a, ast.Call):
                        inner = r.resolve_ref(a.func, f)
                        if inner is not None and inner.is_async or r.is_ext(a, f, 'run_in_thread'):
                            self.coro_args.append((f, n, a, inner))
                            if special == 'TASK' and inner is not None:
                                self._add(f, inner, 'TASK', n)
                    elif isinstance(a, (ast.Name, ast.Attribute)):
                        ref = r.resolve_ref(a, f)
                        if ref is not None and r.type_of(a, f)[0] == 'func':
                            kind = special if (special and i == 0) else 'REF'
                            self._add(f, ref, kind, n)

    def callers(self, func, kinds=None):
        return [e for e in self.inn.get(func.key, []) if kinds is None or e[2] in kinds]

    def callees(self, func, kinds=None):
        return [e for e in self.out.get(func.key, []) if kinds is None or e[2] in kinds]
