'''Await-atomicity model: which awaits can really yield to the event loop.

`await <repo coroutine>(...)` does not by itself suspend: the callee runs synchronously until *it*
reaches a primitive suspension point.  Primitive suspension points are awaits on awaitables from
outside the repository (run_in_thread, sleep, Event.wait, shield, locks, task groups, aiohttp / aiorpcX
calls), awaits on values whose origin is unknown (tasks, coroutine parameters), and `async for` /
`async with` over such objects.  may_suspend(f) is the may-summary over f's body (recursion cut = may).
'''
import ast

from .model import norm, walk_own


class Suspension:
    def __init__(self, ctx):
        self.ctx = ctx
        self.memo = {}

    def may_suspend(self, f, stack=()):
        '''None if f can never yield to the loop, else a short reason (first suspension found).'''
        if f.key in self.memo:
            return self.memo[f.key]
        if f.key in stack:
            return None
        reason = None
        for n in f.own_nodes():
            if isinstance(n, ast.Await):
                r = self.may_suspend_expr(n.value, f, stack + (f.key,))
                if r:
                    reason = f'{f.qual}:{int(round(n.lineno))} {r}'
                    break
            elif isinstance(n, (ast.AsyncFor, ast.AsyncWith)):
                reason = f'{f.qual}:{int(round(n.lineno))} async {"for" if isinstance(n, ast.AsyncFor) else "with"}'
                break
        if not stack:
            self.memo[f.key] = reason
        return reason

    def may_suspend_expr(self, expr, f, stack=()):
        '''Awaited expression -> reason string if it may suspend, else None.'''
        if isinstance(expr, ast.Call):
            callee = self.ctx.res.resolve_ref(expr.func, f)
            if callee is not None and callee.is_async:
                return self.may_suspend(callee, stack)
            if callee is not None and not callee.is_async:
                return f'awaits the result of sync {callee.qual} (unknown awaitable)'
            return f'awaits external {self.ctx.res.ext_name(expr, f)}'
        return f'awaits `{norm(expr)}` (task / coroutine object)'

    def suspensions_in(self, node, f):
        '''[(ast node, reason)] suspension points inside `node` (own body only).'''
        out = []
        for n in walk_own(node):
            if isinstance(n, ast.Await):
                r = self.may_suspend_expr(n.value, f)
                if r:
                    out.append((n, r))
            elif isinstance(n, (ast.AsyncFor, ast.AsyncWith)):
                out.append((n, 'async for/with'))
        return out

    def stmt_suspends(self, stmt, f):
        '''Does the statement head itself (not nested statements) contain a suspension point?'''
        from .cfg import head_exprs
        for n in head_exprs(stmt):
            if isinstance(n, ast.Await):
                r = self.may_suspend_expr(n.value, f)
                if r:
                    return r
        if isinstance(stmt, (ast.AsyncFor, ast.AsyncWith)):
            return 'async for/with'
        return None
