'''Byte-layout abstract interpreter.

A fixed-width byte string is a tuple of per-byte atoms:
  ('H32', i)            byte i of a 32-byte hash
  ('HX', i)             byte i of a hashX (HASHX_LEN bytes)
  ('I', codec, w, i)    byte i (memory order) of an integer packed with a struct of width w, codec 'le' | 'be'
  ('T', v)              constant byte v (tags)          ('Z',)  constant zero byte
A Rep(elem) is the concatenation of any number of `elem` layouts (undo info, history rows).  TOP = unknown.

Sources are read from the code: the Struct table of lib/util.py gives every pack_* its width and endianness,
HASHX_LEN comes from lib/hash.py, double_sha256 / header_hash give H32, hashX_from_script gives HX.
Nothing about the schemas is hard-coded: they are whatever the designated writers build.
'''
import ast

from .model import AnalysisError, norm, const_value, walk_own
from . import dataflow as df


class Lay:
    __slots__ = ('atoms',)

    def __init__(self, atoms):
        self.atoms = tuple(atoms)

    def __len__(self):
        return len(self.atoms)

    def __eq__(self, o):
        return isinstance(o, Lay) and self.atoms == o.atoms

    def __hash__(self):
        return hash(self.atoms)

    def __add__(self, o):
        return Lay(self.atoms + o.atoms)

    def slice(self, lo, hi):
        return Lay(self.atoms[lo:hi])

    def text(self):
        '''Run-length text: h32[0:4] le32[0:4] le64[0:5] ...'''
        out = []
        i = 0
        a = self.atoms
        while i < len(a):
            x = a[i]
            j = i
            if x[0] in ('H32', 'HX'):
                while j + 1 < len(a) and a[j + 1][0] == x[0] and a[j + 1][1] == a[j][1] + 1:
                    j += 1
                out.append(f'{"hash32" if x[0] == "H32" else "hashX"}[{x[1]}:{a[j][1] + 1}]')
            elif x[0] == 'I':
                while j + 1 < len(a) and a[j + 1][:3] == x[:3] and a[j + 1][3] == a[j][3] + 1:
                    j += 1
                out.append(f'{x[1]}{x[2] * 8}[{x[3]}:{a[j][3] + 1}]')
            elif x[0] == 'T':
                while j + 1 < len(a) and a[j + 1][0] == 'T':
                    j += 1
                out.append('tag' + repr(bytes(y[1] for y in a[i:j + 1])))
            else:
                while j + 1 < len(a) and a[j + 1][0] == 'Z':
                    j += 1
                out.append(f'zero*{j - i + 1}')
            i = j + 1
        return ' + '.join(out) or 'empty'

    def __repr__(self):
        return f'<{self.text()}>'


class Rep:
    def __init__(self, elem):
        self.elem = elem

    def __eq__(self, o):
        return isinstance(o, Rep) and self.elem == o.elem

    def __hash__(self):
        return hash(('rep', self.elem))

    def text(self):
        return f'repeat({self.elem.text() if self.elem is not None else "?"})'

    def __repr__(self):
        return f'<{self.text()}>'


TOP = None


def H32():
    return Lay(('H32', i) for i in range(32))


def tag(b):
    return Lay((('Z',) if v == 0 else ('T', v)) for v in b)


def zeros(n):
    return Lay(('Z',) for _ in range(n))


class World:
    '''Facts read from the tree: struct table, HASHX_LEN, helper classification.'''

    def __init__(self, ctx):
        from .rules.c13 import struct_table
        self.ctx = ctx
        self.st = struct_table(ctx)
        hu = ctx.repo.unit('hash')
        ctx.consulted.add(hu.relpath)
        self.hashx_len = None
        for s in hu.tree.body:
            if isinstance(s, ast.Assign) and norm(s.targets[0]) == 'HASHX_LEN' and isinstance(const_value(s.value), int):
                self.hashx_len = const_value(s.value)
        if not self.hashx_len:
            raise AnalysisError('HASHX_LEN not found in lib/hash.py')

    def HX(self):
        return Lay(('HX', i) for i in range(self.hashx_len))

    def packed(self, name):
        '''pack_* alias -> full-width int layout'''
        st = self.st.get(name)
        if st is None or st[2] != 'pack':
            return None
        fmt = st[1]
        import struct
        w = struct.calcsize(fmt)
        codec = 'be' if fmt.startswith('>') else 'le'
        if fmt in ('B',):
            codec = 'le'
        return Lay(('I', codec, w, i) for i in range(w))

    def unpacker(self, name):
        st = self.st.get(name)
        if st is None or not st[2].startswith('unpack'):
            return None
        import struct
        fmt = st[1]
        return ('be' if fmt.startswith('>') else 'le'), struct.calcsize(fmt)


class Env:
    '''Evaluator of byte-string expressions inside one function.'''

    HASH_FUNCS = ('double_sha256', 'sha256', 'header_hash', 'header_prevhash', 'hash_func')
    HASHX_FUNCS = ('hashX_from_script', 'script_hashX', 'to_hashX')

    def __init__(self, world, func, bindings=None, schemas=None):
        self.w = world
        self.ctx = world.ctx
        self.f = func
        self.b = dict(bindings or {})      # name -> Lay | Rep | TOP (explicit)
        self.schemas = schemas or {}
        self.defs = df.defs(func)
        self._stack = set()

    def const_int(self, e):
        v = const_value(e)
        if isinstance(v, int) and not isinstance(v, bool):
            return v
        if isinstance(e, ast.Name):
            if e.id == 'HASHX_LEN':
                return self.w.hashx_len
            ds = self.defs.get(e.id, [])
            if len(ds) == 1:
                return self.const_int(ds[0][1])
        if isinstance(e, ast.BinOp):
            l, r = self.const_int(e.left), self.const_int(e.right)
            if l is None or r is None:
                return None
            if isinstance(e.op, ast.Add):
                return l + r
            if isinstance(e.op, ast.Sub):
                return l - r
            if isinstance(e.op, ast.Mult):
                return l * r
        if isinstance(e, ast.UnaryOp) and isinstance(e.op, ast.USub):
            v = self.const_int(e.operand)
            return -v if v is not None else None
        return None

    def name(self, n, at=None):
        if n in self.b:
            return self.b[n]
        if n in self._stack:
            return TOP
        ds = self.defs.get(n, [])
        if not ds:
            f = self.f.parent
            # closure variable of an enclosing function
            while f is not None:
                from . import dataflow as _df
                dd = _df.defs(f).get(n, [])
                if dd:
                    env = Env(self.w, f, self.b, self.schemas)
                    return env.name(n)
                f = f.parent
            return TOP
        cands = ds
        if at is not None:
            before = [d for d in ds if getattr(d[0], 'lineno', 0) <= getattr(at, 'lineno', 10 ** 9)]
            cands = before[-1:] if before else ds[:1]
        vals = []
        self._stack.add(n)
        try:
            for st, rhs in cands:
                vals.append(self.bound_value(st, rhs, n))
        finally:
            self._stack.discard(n)
        vals = [v for v in vals]
        if vals and all(v is not None and v == vals[0] for v in vals):
            return vals[0]
        return TOP

    def bound_value(self, st, rhs, name):
        '''Layout bound to `name` by statement st (assignment, loop, with).'''
        if isinstance(st, (ast.For, ast.AsyncFor, ast.comprehension)):
            elem = self.iter_elem(rhs)
            tgt = st.target
            return self._unpack(tgt, elem, name)
        if isinstance(st, ast.Assign):
            tgt = st.targets[0]
            if isinstance(tgt, ast.Name):
                return self.ev(rhs)
            if isinstance(tgt, ast.Tuple):
                v = self.ev_tuple(rhs)
                return self._unpack(tgt, v, name)
        if isinstance(st, ast.AugAssign):
            return TOP
        return TOP

    def _unpack(self, tgt, val, name):
        if isinstance(tgt, ast.Name):
            return val if tgt.id == name and not isinstance(val, tuple) else (val if tgt.id == name else TOP)
        if isinstance(tgt, (ast.Tuple, ast.List)) and isinstance(val, tuple) and len(val) == len(tgt.elts):
            for t, v in zip(tgt.elts, val):
                r = self._unpack(t, v, name)
                if isinstance(t, ast.Name) and t.id == name:
                    return v
                if r is not TOP and not isinstance(t, ast.Name):
                    return r
        return TOP

    def ev_tuple(self, e):
        '''Value of an expression that produces a tuple of byte strings (or TOP).'''
        if isinstance(e, ast.Tuple):
            return tuple(self.ev(x) for x in e.elts)
        if isinstance(e, ast.Call):
            callee = self.ctx.res.resolve_ref(e.func, self.f)
            if callee is not None and callee.key in self.schemas.get('__returns__', {}):
                return self.schemas['__returns__'][callee.key]
        return TOP

    def iter_elem(self, it):
        '''Layout (or tuple of layouts) of the elements produced by iterating `it`.'''
        # <store>.iterator(prefix=P [, reverse])
        if isinstance(it, ast.Call) and isinstance(it.func, ast.Attribute) and it.func.attr == 'iterator':
            t = self.ctx.res.type_of(it.func.value, self.f)
            if t and t[0] == 'store':
                pref = None
                for kw in it.keywords:
                    if kw.arg == 'prefix':
                        pref = self.ev(kw.value)
                if it.args:
                    pref = self.ev(it.args[0])
                return self.table_for(t[1], pref)
        if isinstance(it, ast.Call) and isinstance(it.func, ast.Attribute) and it.func.attr == 'items':
            base = self.ctx.res.canon(it.func.value, self.f)
            tbl = self.schemas.get(('dict', base)) or self.schemas.get(('dict', norm(it.func.value)))
            if tbl:
                return tbl
            # a local dict built by a comprehension over something known
            if isinstance(it.func.value, ast.Name):
                ds = self.defs.get(it.func.value.id, [])
                if len(ds) == 1 and isinstance(ds[0][1], ast.DictComp) and len(ds[0][1].generators) == 1:
                    dc = ds[0][1]
                    g = dc.generators[0]
                    elem = self.iter_elem(g.iter)
                    sub = Env(self.w, self.f, dict(self.b), self.schemas)
                    if isinstance(g.target, ast.Tuple) and isinstance(elem, tuple) and len(elem) == len(g.target.elts):
                        for t, v in zip(g.target.elts, elem):
                            if isinstance(t, ast.Name):
                                sub.b[t.id] = v
                        return (sub.ev(dc.key), sub.ev(dc.value))
                # dict(<iterable of pairs>): the pairs themselves
                if len(ds) == 1 and isinstance(ds[0][1], ast.Call) and norm(ds[0][1].func) == 'dict' and len(ds[0][1].args) == 1 \
                        and not ds[0][1].keywords:
                    elem = self.iter_elem(ds[0][1].args[0])
                    if isinstance(elem, tuple) and len(elem) == 2:
                        return elem
        if isinstance(it, ast.Call) and norm(it.func) in ('sorted', 'list', 'reversed', 'set', 'tuple') and it.args:
            return self.iter_elem(it.args[0])
        if isinstance(it, ast.Call) and (self.ctx.res.canon(it.func, self.f) or norm(it.func)).split('.')[-1] == 'chunks' and len(it.args) == 2:
            src = self.ev(it.args[0])
            n = self.const_int(it.args[1])
            if isinstance(src, Rep) and src.elem is not None and n == len(src.elem):
                return src.elem
            if isinstance(src, Rep):
                return ('STRIDE-MISMATCH', src, n)
            return TOP
        if isinstance(it, ast.Call) and norm(it.func) == 'enumerate' and it.args:
            return (TOP, self.iter_elem(it.args[0]))
        if isinstance(it, ast.Name):
            k = self.schemas.get(('iter', it.id))
            if k is not None:
                return k
        return TOP

    def table_for(self, store, pref):
        tables = self.schemas.get(('store', store), {})
        if pref is None or not isinstance(pref, Lay):
            return TOP
        if len(pref) == 0 and len(tables) == 1:
            return list(tables.values())[0]
        lead = pref.atoms[0] if len(pref) else None
        for tg, kv in tables.items():
            if lead is not None and lead[0] == 'T' and tg == bytes([lead[1]]):
                return kv
        if lead is not None and lead[0] != 'T' and None in tables:
            return tables[None]
        return TOP

    def ev(self, e):
        if isinstance(e, ast.Constant) and isinstance(e.value, bytes):
            return tag(e.value)
        if isinstance(e, ast.Name):
            return self.name(e.id, at=e)
        if isinstance(e, ast.BinOp) and isinstance(e.op, ast.Add):
            l, r = self.ev(e.left), self.ev(e.right)
            if isinstance(l, Lay) and isinstance(r, Lay):
                return l + r
            for x in (l, r):
                if is_mismatch(x):
                    return x
            return TOP
        if isinstance(e, ast.Subscript) and isinstance(e.slice, ast.Slice):
            base = self.ev(e.value)
            if isinstance(base, Lay):
                lo = self.const_int(e.slice.lower) if e.slice.lower is not None else None
                hi = self.const_int(e.slice.upper) if e.slice.upper is not None else None
                if (e.slice.lower is not None and lo is None) or (e.slice.upper is not None and hi is None) or e.slice.step is not None:
                    return TOP
                return base.slice(lo, hi)
            if isinstance(base, Rep) and base.elem is not None:
                # x[n : n + W] with symbolic n: one element iff W == width(elem)
                lo, hi = e.slice.lower, e.slice.upper
                if lo is not None and hi is not None and isinstance(hi, ast.BinOp) and isinstance(hi.op, ast.Add):
                    other = hi.right if norm(hi.left) == norm(lo) else (hi.left if norm(hi.right) == norm(lo) else None)
                    w = self.const_int(other) if other is not None else None
                    if w == len(base.elem):
                        return base.elem
                    if w is not None:
                        return ('STRIDE-MISMATCH', base, w)
                # x[n - W : n]: the entry below the cursor (the decrement follows the slice)
                if lo is not None and hi is not None and isinstance(lo, ast.BinOp) and isinstance(lo.op, ast.Sub) and norm(lo.left) == norm(hi):
                    w = self.const_int(lo.right)
                    if w == len(base.elem):
                        return base.elem
                    if w is not None:
                        return ('STRIDE-MISMATCH', base, w)
                # end = n ; n -= W ; x[n:end]: the same slice with the upper bound snapshotted before the decrement
                if isinstance(lo, ast.Name) and isinstance(hi, ast.Name):
                    snaps = [s_ for s_ in self.f.own_nodes() if isinstance(s_, ast.Assign) and len(s_.targets) == 1
                             and isinstance(s_.targets[0], ast.Name) and s_.targets[0].id == hi.id
                             and isinstance(s_.value, ast.Name) and s_.value.id == lo.id and s_.lineno < e.lineno]
                    decs = [s_ for s_ in self.f.own_nodes() if isinstance(s_, ast.AugAssign) and isinstance(s_.op, ast.Sub)
                            and isinstance(s_.target, ast.Name) and s_.target.id == lo.id and s_.lineno < e.lineno]
                    if len(snaps) == 1 and len(decs) == 1 and snaps[0].lineno < decs[0].lineno:
                        others = [s_ for s_ in self.f.own_nodes() if isinstance(s_, (ast.Assign, ast.AugAssign)) and s_ not in (snaps[0], decs[0])
                                  and snaps[0].lineno < s_.lineno < e.lineno
                                  and any(isinstance(t_, ast.Name) and t_.id in (lo.id, hi.id)
                                          for t_ in (s_.targets if isinstance(s_, ast.Assign) else [s_.target]))]
                        w = self.const_int(decs[0].value)
                        if not others and w == len(base.elem):
                            return base.elem
                        if not others and w is not None:
                            return ('STRIDE-MISMATCH', base, w)
                # x[: k * idx]: a prefix made of whole elements
                if lo is None and hi is not None and isinstance(hi, ast.BinOp) and isinstance(hi.op, ast.Mult):
                    k = self.const_int(hi.left) if self.const_int(hi.left) is not None else self.const_int(hi.right)
                    if k == len(base.elem):
                        return base
                    if k is not None:
                        return ('STRIDE-MISMATCH', base, k)
            return TOP
        if isinstance(e, ast.Attribute):
            if e.attr == 'prev_hash':
                return H32()
            return TOP
        if isinstance(e, ast.Call):
            fn = e.func
            nm = norm(fn)
            short = nm.split('.')[-1]
            # aliases of packers / hashers
            if isinstance(fn, ast.Name):
                al = None
                f = self.f
                while f is not None and al is None:
                    al = self.ctx.res.aliases(f).get(fn.id)
                    f = f.parent
                if al is not None:
                    nm = norm(al)
                    short = nm.split('.')[-1]
            p = self.w.packed(short)
            if p is not None:
                return p
            if short == 'bytes' and len(e.args) == 1:
                n = self.const_int(e.args[0])
                if n is not None:
                    return zeros(n)
                return self.ev(e.args[0])
            if short in self.HASH_FUNCS:
                return H32()
            if short in self.HASHX_FUNCS:
                return self.w.HX()
            if nm == "b''.join" and e.args:
                a = e.args[0]
                if isinstance(a, ast.Name):
                    el = self.schemas.get(('list', a.id))
                    if el is not None:
                        return Rep(el)
                if isinstance(a, ast.GeneratorExp):
                    sub = Env(self.w, self.f, dict(self.b), self.schemas)
                    g = a.generators[0]
                    elem = self.iter_elem(g.iter)
                    if isinstance(g.target, ast.Name) and isinstance(elem, Lay):
                        sub.b[g.target.id] = elem
                        v = sub.ev(a.elt)
                        if isinstance(v, Lay):
                            return Rep(v)
                return Rep(None)
            if isinstance(fn, ast.Attribute) and fn.attr == 'get' and e.args:
                t = self.ctx.res.type_of(fn.value, self.f)
                if t and t[0] == 'store':
                    k = self.ev(e.args[0])
                    kv = self.table_for(t[1], k if isinstance(k, Lay) else None)
                    if isinstance(kv, tuple) and isinstance(k, Lay) and kv[0] == k:
                        return kv[1]
                    if isinstance(kv, tuple):
                        return ('KEY-MISMATCH', k, kv[0])
                    return TOP
            if isinstance(fn, ast.Attribute) and fn.attr == 'pop' and e.args:
                base = self.ctx.res.canon(fn.value, self.f)
                tbl = self.schemas.get(('dict', base))
                if tbl:
                    return tbl[1]
            callee = self.ctx.res.resolve_ref(fn, self.f)
            if callee is None and isinstance(fn, ast.Name):
                al = self.ctx.res.aliases(self.f).get(fn.id)
                callee = self.ctx.res.resolve_ref(al, self.f) if al is not None else None
            if callee is not None:
                r = self.schemas.get('__returns__', {}).get(callee.key)
                if r is not None and not isinstance(r, tuple):
                    return r
            return TOP
        return TOP


def is_mismatch(v):
    return isinstance(v, tuple) and len(v) == 3 and v[0] in ('STRIDE-MISMATCH', 'KEY-MISMATCH')


def mismatch_text(v):
    if v[0] == 'STRIDE-MISMATCH':
        return f'WIDTH-CONST: stride {v[2]} applied to {v[1].text()}'
    return f'KEY-EQ: key {v[1].text() if hasattr(v[1], "text") else v[1]} differs from the row key {v[2].text()}'


def decode_ok(world, unpack_name, lay):
    '''DECODE-ALIGN: does unpacking `lay` with the given struct alias read back one packed integer?'''
    up = world.unpacker(unpack_name)
    if up is None:
        return None, f'{unpack_name} is not a struct unpacker'
    codec, w = up
    if is_mismatch(lay):
        return False, mismatch_text(lay)
    if not isinstance(lay, Lay):
        return None, 'layout unknown'
    if len(lay) != w:
        return False, f'{unpack_name} needs {w} bytes, gets {len(lay)} ({lay.text()})'
    a = lay.atoms
    k = 0
    while k < w and a[k][0] == 'I':
        k += 1
    if k == 0:
        return False, f'{unpack_name} applied to non-integer bytes ({lay.text()})'
    first = a[0]
    if any(x[:3] != first[:3] for x in a[:k]) or [x[3] for x in a[:k]] != list(range(k)):
        return False, f'bytes decoded are not the leading bytes of one packed integer ({lay.text()})'
    if first[1] != codec:
        return False, f'{unpack_name} decodes {codec} but the bytes were packed {first[1]} ({lay.text()})'
    if k == w and first[2] == w:
        return True, 'exact'
    if codec == 'le' and all(x[0] == 'Z' for x in a[k:]) and k <= first[2]:
        return True, f'low {k} bytes of a {first[2]}-byte LE integer, zero-extended'
    return False, f'misaligned decode ({lay.text()})'
