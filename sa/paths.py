'''Path enumeration with symbolic locals: the spelling-independent view of a small function.

A value-shape rule ("heights above the flushed height yield None", "the start of the range is height - count + 1") must
not care whether the code says

    if c: x = A                 x = A if c else B            if c: return A, h
    else: x = B                 return x, h                  return B, h
    return x, h

`paths(body)` enumerates the acyclic paths through a statement list.  Along a path every plain local is replaced by the
expression it was bound to (already expressed in the *inputs* of the path: parameters, attribute reads, call results),
conditional expressions and and/or/not tests are split into branch decisions, so the three spellings above give the same
set of (decisions, returned value) pairs.  Loops are summarised: the names they bind are given fresh symbolic values
(`n'L12` = "n as left by the loop at line 12"), exits from inside the loop body become paths of their own.  `try` bodies
are followed on the normal path; each handler starts a path of its own with the names bound in the body forgotten.

No solver and no execution: a path is a list of syntax-tree fragments a rule can compare with `cmp_matches` / linear forms.
'''
import ast
from .astcopy import fast_copy


class Path:
    __slots__ = ('conds', 'env', 'exit', 'value', 'events', 'node', 'passed', 'snaps')

    def __init__(self, conds=None, env=None, events=None, passed=None, snaps=None):
        self.conds = list(conds or [])       # [(test expr (substituted), polarity, original test node)]
        self.env = dict(env or {})
        self.events = list(events or [])     # [(stmt, env snapshot)] for statements with effects, in order
        self.passed = list(passed or [])     # every statement the path executes (heads of compound statements included)
        self.snaps = list(snaps or [])       # the environment in force when the statement of the same index in `passed` starts
        self.exit = None                     # 'return' | 'raise' | 'fall' | 'continue' | 'break'
        self.value = None                    # substituted return value / raised expression
        self.node = None                     # the Return / Raise / Continue / Break statement

    def fork(self):
        p = Path(self.conds, self.env, self.events, self.passed, self.snaps)
        return p

    def env_at(self, stmt):
        """bindings of the plain locals in force when `stmt` starts on this path (None if the path does not pass it)"""
        for k in range(len(self.passed) - 1, -1, -1):
            if self.passed[k] is stmt:
                return self.snaps[k] if k < len(self.snaps) else None
        return None

    def decisions(self):
        """the branch decisions proper: [(test, polarity)] without loop / handler markers and without what assertions
        established (an assertion that cannot fail decides nothing)"""
        return [(t, pol) for t, pol, n in self.conds if isinstance(t, ast.expr) and not isinstance(n, (ast.Assert, ast.ExceptHandler,
                                                                                                         ast.For, ast.While, ast.AsyncFor))]

    def passes(self, stmt):
        return any(x is stmt for x in self.passed)

    def holds(self, pred):
        """polarity of the first decision whose test satisfies pred(test expr), else None"""
        for t, pol, _n in self.conds:
            if pred(t):
                return pol
        return None

    def cond_texts(self):
        return [('' if pol else 'not ') + ast.unparse(t) for t, pol, _n in self.conds]

    def sub(self, e):
        return subst(e, self.env)


class _Sub(ast.NodeTransformer):
    def __init__(self, env):
        self.env = env

    def visit_Name(self, n):
        if isinstance(n.ctx, ast.Load) and n.id in self.env:
            return fast_copy(self.env[n.id])
        return n

    def _scoped(self, n):
        # names bound by the nested scope shadow the environment
        bound = set()
        if isinstance(n, ast.Lambda):
            a = n.args
            bound = {x.arg for x in a.posonlyargs + a.args + a.kwonlyargs}
        else:
            for g in n.generators:
                for x in ast.walk(g.target):
                    if isinstance(x, ast.Name):
                        bound.add(x.id)
        if not (bound & set(self.env)):
            return self.generic_visit(n)
        inner = _Sub({k: v for k, v in self.env.items() if k not in bound})
        return inner.generic_visit(n)
    visit_Lambda = visit_ListComp = visit_SetComp = visit_DictComp = visit_GeneratorExp = _scoped


def subst(e, env):
    if e is None:
        return None
    return _Sub(env).visit(fast_copy(e))


def _stores(nodes):
    out = set()
    for st in nodes:
        for x in ast.walk(st):
            if isinstance(x, ast.Name) and isinstance(x.ctx, (ast.Store, ast.Del)):
                out.add(x.id)
            elif isinstance(x, ast.ExceptHandler) and x.name:
                out.add(x.name)
    return out


def _own_break(loop, brk):
    """`brk` leaves `loop` itself (it is not inside a nested loop)"""
    def find(body):
        for st in body:
            if st is brk:
                return True
            if isinstance(st, (ast.For, ast.AsyncFor, ast.While, ast.FunctionDef, ast.AsyncFunctionDef, ast.ClassDef)):
                continue
            for fld in ('body', 'orelse', 'finalbody'):
                sub = getattr(st, fld, None)
                if isinstance(sub, list) and sub and isinstance(sub[0], ast.stmt) and find(sub):
                    return True
            for h in getattr(st, 'handlers', []) or []:
                if find(h.body):
                    return True
        return False
    return find(loop.body)


def _havoc(env, names, tag):
    env = dict(env)
    for n in names:
        env[n] = ast.Name(id=f"{n}'{tag}", ctx=ast.Load())
    return env


def _first_ifexp(e):
    """the first unconditionally evaluated IfExp of e (outside lambdas / comprehensions / other IfExp arms), or None"""
    if e is None:
        return None
    stack = [e]
    while stack:
        n = stack.pop(0)
        if isinstance(n, ast.IfExp):
            return n
        if isinstance(n, (ast.Lambda, ast.ListComp, ast.SetComp, ast.DictComp, ast.GeneratorExp)):
            continue
        if isinstance(n, ast.BoolOp):
            stack.insert(0, n.values[0])
            continue
        stack = list(ast.iter_child_nodes(n)) + stack
    return None


class _Swap(ast.NodeTransformer):
    def __init__(self, old, new):
        self.old, self.new = old, new

    def visit(self, n):
        if n is self.old:
            return self.new
        return super().visit(n)


class Limit(Exception):
    pass


def _decide(test, p, node, budget):
    """split a test into atomic decisions: yields (path, truth value)"""
    if isinstance(test, ast.UnaryOp) and isinstance(test.op, ast.Not):
        for q_, v in _decide(test.operand, p, node, budget):
            yield q_, not v
        return
    if isinstance(test, ast.BoolOp):
        is_and = isinstance(test.op, ast.And)

        def chain(k, path):
            if k == len(test.values):
                yield path, is_and
                return
            for q_, v in _decide(test.values[k], path, node, budget):
                if v != is_and:
                    yield q_, v          # short-circuit
                else:
                    yield from chain(k + 1, q_)
        yield from chain(0, p)
        return
    if isinstance(test, ast.Constant):
        yield p, bool(test.value)
        return
    if isinstance(test, ast.Compare) and len(test.ops) > 1:
        # a <= b <= c  is  a <= b and b <= c
        parts, left = [], test.left
        for op, right in zip(test.ops, test.comparators):
            parts.append(ast.copy_location(ast.Compare(left=left, ops=[op], comparators=[right]), test))
            left = right
        yield from _decide(ast.copy_location(ast.BoolOp(op=ast.And(), values=parts), test), p, node, budget)
        return
    t = subst(test, p.env)
    if isinstance(t, ast.Constant):
        yield p, bool(t.value)          # decided by what the path already bound (a flag set on this very path)
        return
    if isinstance(t, ast.Compare) and len(t.ops) == 1 and isinstance(t.ops[0], (ast.Is, ast.IsNot)) \
            and isinstance(t.left, ast.Constant) and isinstance(t.comparators[0], ast.Constant):
        same = t.left.value is t.comparators[0].value
        yield p, same == isinstance(t.ops[0], ast.Is)
        return
    for v in (True, False):
        q_ = p.fork()
        q_.conds.append((t, v, node))
        budget[0] -= 1
        if budget[0] < 0:
            raise Limit()
        yield q_, v


def _value_forks(e, p, node, budget):
    """resolve statement-level conditional expressions into decisions: yields (path, expression without that IfExp)"""
    ie = _first_ifexp(e)
    if ie is None:
        yield p, e
        return
    for q_, v in _decide(ie.test, p, node, budget):
        arm = ie.body if v else ie.orelse
        e2 = fast_copy(arm) if e is ie else _swap_by_position(e, ie, arm)
        yield from _value_forks(e2, q_, node, budget)


def _swap_by_position(e, ie, arm):
    src = list(ast.walk(e))
    k = next(i for i, x in enumerate(src) if x is ie)
    c = fast_copy(e)
    tgt = list(ast.walk(c))[k]
    return _Swap(tgt, fast_copy(arm)).visit(c)


def _bind(target, value, env, tag):
    """symbolic binding of an assignment target; value is already substituted"""
    if isinstance(target, ast.Name):
        env[target.id] = value
    elif isinstance(target, (ast.Tuple, ast.List)):
        if isinstance(value, (ast.Tuple, ast.List)) and len(value.elts) == len(target.elts) \
                and not any(isinstance(x, ast.Starred) for x in list(value.elts) + list(target.elts)):
            for t, v in zip(target.elts, value.elts):
                _bind(t, v, env, tag)
        else:
            for k, t in enumerate(target.elts):
                if isinstance(t, ast.Starred):
                    for x in ast.walk(t):
                        if isinstance(x, ast.Name):
                            env[x.id] = ast.Name(id=f"{x.id}'{tag}", ctx=ast.Load())
                    continue
                _bind(t, ast.Subscript(value=fast_copy(value), slice=ast.Constant(value=k), ctx=ast.Load()), env, tag)
    # attribute / subscript targets are effects, not bindings


def paths(body, env=None, limit=400):
    """all acyclic paths through the statement list `body` (a function body, a loop body, a handler ...)"""
    budget = [limit]
    start = Path(env=env or {})
    done = []

    def run(stmts, p):
        """yields the paths that reach the end of stmts; finished paths go to `done`"""
        if not stmts:
            yield p
            return
        st, rest = stmts[0], stmts[1:]
        tag = f'L{getattr(st, "lineno", 0)}'
        p.passed.append(st)
        p.snaps.append(dict(p.env))
        if isinstance(st, ast.If):
            for q_, v in _decide(st.test, p, st, budget):
                for r in run(st.body if v else st.orelse, q_):
                    yield from run(rest, r)
            return
        if isinstance(st, ast.Return):
            for q_, e in _value_forks(st.value, p, st, budget):
                q_.exit, q_.value, q_.node = 'return', subst(e, q_.env), st
                done.append(q_)
            return
        if isinstance(st, ast.Raise):
            p.exit, p.value, p.node = 'raise', subst(st.exc, p.env), st
            p.events.append((st, dict(p.env)))
            done.append(p)
            return
        if isinstance(st, (ast.Continue, ast.Break)):
            p.exit, p.node = ('continue' if isinstance(st, ast.Continue) else 'break'), st
            done.append(p)
            return
        if isinstance(st, ast.Assign):
            for q_, e in _value_forks(st.value, p, st, budget):
                v = subst(e, q_.env)
                if any(not isinstance(t, (ast.Name, ast.Tuple, ast.List)) for t in st.targets):
                    q_.events.append((st, dict(q_.env)))
                for t in st.targets:
                    _bind(t, v, q_.env, tag)
                yield from run(rest, q_)
            return
        if isinstance(st, ast.AugAssign):
            for q_, e in _value_forks(st.value, p, st, budget):
                if isinstance(st.target, ast.Name):
                    cur = q_.env.get(st.target.id, ast.Name(id=st.target.id, ctx=ast.Load()))
                    q_.env[st.target.id] = ast.BinOp(left=fast_copy(cur), op=st.op, right=subst(e, q_.env))
                else:
                    q_.events.append((st, dict(q_.env)))
                yield from run(rest, q_)
            return
        if isinstance(st, ast.While) and isinstance(st.test, ast.Constant) and st.test.value is True and not st.orelse:
            # a one-shot block: `while True:` whose every path leaves by break / return / raise runs its body exactly once
            # (how the normaliser spells an inlined helper with several returns) - followed inline, no summary needed
            saved = len(done)
            falls = list(run(st.body, p.fork()))
            new = done[saved:]
            if not falls and not any(d.exit == 'continue' for d in new):
                del done[saved:]
                for d in new:
                    if d.exit == 'break':
                        d.exit, d.node = None, None
                        yield from run(rest, d)
                    else:
                        done.append(d)
                return
            del done[saved:]
        if isinstance(st, (ast.For, ast.AsyncFor, ast.While)):
            p.events.append((st, dict(p.env)))
            names = _stores([st])
            inner = Path(p.conds + [(st, True, st)], _havoc(p.env, names, tag), p.events, p.passed, p.snaps)
            saved = len(done)
            for r in run(st.body, inner):
                pass                     # falling off the loop body: back to the head
            # exits from inside the body that leave the function stay; continue / break are the loop's own business
            kept = [d for d in done[saved:] if d.exit in ('return', 'raise')]
            breaks = [d for d in done[saved:] if d.exit == 'break' and _own_break(st, d.node)]
            del done[saved:]
            done.extend(kept)
            if isinstance(st, ast.While) and isinstance(st.test, ast.Constant) and st.test.value is True and not st.orelse and 1 <= len(breaks) <= 4:
                # an endless loop is left only through its breaks: what follows it follows the last iteration - started from
                # arbitrary loop-carried values - up to one of them, with the decisions that led there
                for d in breaks:
                    d.exit, d.node = None, None
                    yield from run(rest, d)
                return
            after = p.fork()
            after.env = _havoc(p.env, names, tag)
            for r in run(st.orelse, after):
                yield from run(rest, r)
            return
        if isinstance(st, (ast.With, ast.AsyncWith)):
            p.events.append((st, dict(p.env)))
            for it in st.items:
                if it.optional_vars is not None:
                    _bind(it.optional_vars, subst(it.context_expr, p.env), p.env, tag)
            for r in run(st.body, p):
                yield from run(rest, r)
            return
        if isinstance(st, ast.Try) or st.__class__.__name__ == 'TryStar':
            p.events.append((st, dict(p.env)))
            names = _stores(st.body)
            for h in st.handlers:
                hp = Path(p.conds + [(h.type if h.type is not None else ast.Name(id='BaseException', ctx=ast.Load()), True, h)],
                          _havoc(p.env, names, tag), p.events, p.passed, p.snaps)
                if h.name:
                    hp.env[h.name] = ast.Name(id=f"{h.name}'{tag}", ctx=ast.Load())
                for r in run(h.body, hp):
                    for r2 in run(st.finalbody, r):
                        yield from run(rest, r2)
            for r in run(st.body, p):
                for r1 in run(st.orelse, r):
                    for r2 in run(st.finalbody, r1):
                        yield from run(rest, r2)
            return
        if isinstance(st, (ast.FunctionDef, ast.AsyncFunctionDef, ast.ClassDef, ast.Pass, ast.Import, ast.ImportFrom,
                           ast.Global, ast.Nonlocal)):
            yield from run(rest, p)
            return
        if isinstance(st, ast.Assert):
            # the continuing path is the one on which the assertion held
            for q_, v in _decide(st.test, p, st, budget):
                if v:
                    yield from run(rest, q_)
            return
        if isinstance(st, ast.Expr) and isinstance(st.value, ast.Constant):
            yield from run(rest, p)
            return
        if isinstance(st, ast.Expr):
            for q_, e in _value_forks(st.value, p, st, budget):
                q_.events.append((st, dict(q_.env)))
                yield from run(rest, q_)
            return
        # Delete and anything else: an effect
        p.events.append((st, dict(p.env)))
        yield from run(rest, p)

    for r in run(list(body), start):
        r.exit = 'fall'
        done.append(r)
    return done


def returns(fn_node, env=None):
    """paths of a function that end in `return` (a fall off the end counts as `return None`)"""
    out = []
    for p in paths(fn_node.body, env):
        if p.exit == 'fall':
            p.exit, p.value = 'return', ast.Constant(value=None)
        if p.exit == 'return':
            if p.value is None:
                p.value = ast.Constant(value=None)
            out.append(p)
    return out


def neg(e):
    return ast.UnaryOp(op=ast.Not(), operand=e)


def decided(ctx, f, path, expected_src):
    """True / False when the path took a decision equivalent to the comparison `expected_src` / to its negation, else None.
    The path's tests have locals substituted, so `expected_src` is written over the function's inputs."""
    from . import q
    want = q.comparison_normal(ctx, f, ast.parse(expected_src, mode='eval').body)
    wneg = q.comparison_normal(ctx, f, neg(ast.parse(expected_src, mode='eval').body))
    if want is None:
        return None

    def same(a, b):
        if a[1] != b[1]:
            return False
        if a[1] in ('==', '!='):
            return q.lin_eq(a[0], b[0]) or q.lin_eq(a[0], {k: -v for k, v in b[0].items()})
        return q.lin_eq(a[0], b[0])
    for t, pol, _n in path.conds:
        if not isinstance(t, ast.expr):
            continue
        got = q.comparison_normal(ctx, f, t if pol else neg(t))
        if got is None:
            continue
        if same(got, want):
            return True
        if wneg is not None and same(got, wneg):
            return False
    return None


def truthy(path, src):
    """True / False when the path decided the truth of the expression `src` (compared as normalised text), else None"""
    want = ast.unparse(ast.parse(src, mode='eval').body)
    for t, pol, _n in path.conds:
        if isinstance(t, ast.expr) and ast.unparse(t) == want:
            return pol
    return None
