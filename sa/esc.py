'''Exception-escape analysis with JSON refinement (ESC).

An abstract interpreter over the session layer: client-controlled values carry the set of JSON shapes they may
still have (none bool int float inf nan str list dict) plus refinements (int >= 0, bounded magnitude, hex string,
length, equality with constants, per-key fields of dicts).  Guards refine both arms; a frozen effect table gives, for
each operation on an abstract operand, the exception classes it can raise and the refinement that holds when it
returns normally.  Repo callees are interpreted (memoised, depth-limited); the DB / mempool / merkle / daemon
layers are *boundaries*: not interpreted, with declared raise sets and argument requirements.  Only tainted
operations are modelled - trusted data never raises here, which keeps every report exact.
'''
import ast
import builtins
import copy

from .model import AnalysisError, norm, const_value, walk_own

K_ALL = frozenset({'none', 'bool', 'int', 'float', 'inf', 'nan', 'str', 'list', 'dict'})
NUM = frozenset({'bool', 'int', 'float', 'inf', 'nan'})
INTS = frozenset({'bool', 'int'})
SIZED = frozenset({'str', 'list', 'dict'})
HASHABLE = K_ALL - {'list', 'dict'}


class AV:
    '''A client-controlled (tainted) JSON value.'''

    def __init__(self, kinds=K_ALL, nonneg=False, bounded=False, length=None, origin=''):
        self.kinds = frozenset(kinds)
        self.nonneg = nonneg
        self.bounded = bounded
        self.length = length
        self.fields = {}      # constant key -> value, for dicts
        self.elem = None      # element value for lists
        self.vals = None      # finite set of python constants the value equals, if known
        self.member_of = None  # the client container this value was drawn from by iteration
        self.origin = origin

    def copy(self):
        return copy.deepcopy(self)

    def __repr__(self):
        fl = ''.join(['+' if self.nonneg else '', 'b' if self.bounded else ''])
        return f'<{"|".join(sorted(self.kinds))}{fl}{" len=" + str(self.length) if self.length is not None else ""}>'


class U:
    '''Trusted value (never raises in this model).  `what` is an optional description.'''

    def __init__(self, what=''):
        self.what = what

    def __repr__(self):
        return f'U({self.what})'


class Const:
    def __init__(self, value):
        self.value = value

    def __repr__(self):
        return f'Const({self.value!r})'


class Tup:
    def __init__(self, items):
        self.items = list(items)

    def __repr__(self):
        return f'Tup{self.items}'


class Obj:
    '''Instance of a repo class with abstract attributes.'''

    def __init__(self, cls):
        self.cls = cls
        self.attrs = {}

    def __repr__(self):
        return f'Obj({self.cls})'


class ListOf:
    '''A trusted-shape list whose elements are abstract values (e.g. list of Peer objects).'''

    def __init__(self, elem):
        self.elem = elem

    def __repr__(self):
        return f'ListOf({self.elem!r})'


class FuncRef:
    def __init__(self, func, bound=None):
        self.func, self.bound = func, bound


class Esc:
    def __init__(self, cls, func, node, note):
        self.cls, self.func, self.node, self.note = cls, func, node, note

    def key(self):
        return (self.cls, self.func.key if self.func else '', getattr(self.node, 'lineno', 0), self.note)

    def text(self):
        return f'{self.cls} at {self.func.unit.relpath}:{getattr(self.node, "lineno", 0)} {self.func.qual}: {self.note}'


def tainted(v):
    if isinstance(v, AV):
        return True
    if isinstance(v, Tup):
        return any(tainted(x) for x in v.items)
    if isinstance(v, ListOf):
        return tainted(v.elem)
    if isinstance(v, Obj):
        return any(tainted(x) for x in v.attrs.values())
    return False


def join(a, b):
    if a is None:
        return b
    if b is None:
        return a
    if isinstance(a, AV) and isinstance(b, AV):
        r = AV(a.kinds | b.kinds, a.nonneg and b.nonneg, a.bounded and b.bounded, a.length if a.length == b.length else None)
        for k in set(a.fields) & set(b.fields):
            r.fields[k] = join(a.fields[k], b.fields[k])
        r.elem = join(a.elem, b.elem) if (a.elem is not None and b.elem is not None) else None
        r.vals = (a.vals | b.vals) if (a.vals is not None and b.vals is not None) else None
        return r
    if isinstance(a, AV) or isinstance(b, AV):
        t, o = (a, b) if isinstance(a, AV) else (b, a)
        r = t.copy()
        if isinstance(o, Const):
            r.kinds = r.kinds | {kind_of_const(o.value)}
            r.vals = (r.vals | {o.value}) if r.vals is not None and _hashable(o.value) else None
            if isinstance(o.value, int) and not isinstance(o.value, bool):
                r.nonneg = r.nonneg and o.value >= 0
        else:
            r.kinds = K_ALL if not isinstance(o, U) else r.kinds
            r.vals = None
        return r
    if isinstance(a, ListOf) or isinstance(b, ListOf):
        if isinstance(a, ListOf) and isinstance(b, ListOf):
            return ListOf(join(a.elem, b.elem))
        lo, other = (a, b) if isinstance(a, ListOf) else (b, a)
        if isinstance(other, (U, Const)):
            return lo          # e.g. `peers = []` joined with a comprehension of Peer objects
        return AV(K_ALL)
    if isinstance(a, Tup) and isinstance(b, Tup) and len(a.items) == len(b.items):
        return Tup(join(x, y) for x, y in zip(a.items, b.items))
    if isinstance(a, Obj) and isinstance(b, Obj) and a.cls == b.cls:
        r = Obj(a.cls)
        for k in set(a.attrs) | set(b.attrs):
            r.attrs[k] = join(a.attrs.get(k), b.attrs.get(k))
        return r
    if isinstance(a, Const) and isinstance(b, Const) and _eq(a.value, b.value):
        return a
    if tainted(a) or tainted(b):
        return AV(K_ALL)
    return U()


def _hashable(v):
    try:
        hash(v)
        return True
    except TypeError:
        return False


def _eq(a, b):
    try:
        return type(a) is type(b) and a == b
    except Exception:
        return False


def kind_of_const(v):
    if v is None:
        return 'none'
    if isinstance(v, bool):
        return 'bool'
    if isinstance(v, int):
        return 'int'
    if isinstance(v, float):
        return 'float'
    if isinstance(v, str):
        return 'str'
    if isinstance(v, (list, tuple)):
        return 'list'
    if isinstance(v, dict):
        return 'dict'
    return 'str'


def join_env(a, b):
    if a is None:
        return b
    if b is None:
        return a
    out = {}
    for k in set(a) | set(b):
        if k in a and k in b:
            out[k] = join(a[k], b[k])
        else:
            v = a.get(k, b.get(k))
            out[k] = v
    return out


# ------------------------------------------------------------------------------------------------
# exception hierarchy (short names)

CUSTOM_BASES = {'gaierror': ['OSError'], 'error': ['Exception'], 'struct.error': ['Exception'], 'RPCError': ['Exception'], 'DBError': ['Exception'],
                'DaemonError': ['Exception'], 'ReplyAndDisconnect': ['Exception'], 'ProtocolError': ['Exception'], 'TaskTimeout': ['Exception'],
                'ExcessiveSessionCostError': ['Exception'], 'Base58Error': ['Exception'], 'BadPeerError': ['Exception'],
                'ChainError': ['Exception'], 'ServiceRefusedError': ['Exception'], 'WarmingUpError': ['Exception'], 'CancelledError': ['BaseException']}


def supers(name):
    short = name.split('.')[-1]
    out, todo = set(), [short]
    while todo:
        c = todo.pop()
        if c in out:
            continue
        out.add(c)
        if c in CUSTOM_BASES:
            todo += CUSTOM_BASES[c]
        else:
            b = getattr(builtins, c, None)
            if isinstance(b, type) and issubclass(b, BaseException):
                todo += [x.__name__ for x in b.__mro__[1:] if x is not object]
            else:
                todo.append('Exception')
    return out


def catches(handler_names, exc):
    s = supers(exc)
    return any(h.split('.')[-1] in s for h in handler_names)


# ------------------------------------------------------------------------------------------------
# boundaries: callee qualified-name -> (raises, requirement per positional arg: kinds allowed or None)

BOUNDARY = {
    'DB.raw_header': (['IndexError'], [INTS]),
    'DB.read_headers': ([], [INTS, INTS]),
    'DB.tx_hashes_at_blockheight': (['DBError'], [INTS]),
    'DB.header_branch_and_root': ([], [INTS, INTS]),
    'DB.limited_history': ([], [None]),
    'DB.all_utxos': ([], [None]),
    'DB.fs_block_hashes': (['DBError'], [INTS, INTS]),
    'Daemon._send_single': (['DaemonError'], [None, None]),
    'Daemon._send_vector': (['DaemonError'], [None, None, None]),
    'MemPool.': ([], []),
    'Merkle.': ([], []),
    'MerkleCache.': ([], []),
    'PeerManager._note_peers': ([], []),
    'PeerManager._permit_new_onion_peer': ([], []),
    'PeerManager.on_peers_subscribe': ([], []),
    'PeerManager.proxy_address': ([], []),
    'BlockProcessor.': ([], []),
    'SessionBase.': ([], []),
    'SessionManager.extra_cost': ([], []),
}
# header_branch_and_root raises nothing *given* the range guard of ElectrumX._merkle_proof (C11.RANGE decides the guard)


def boundary_for(func):
    q = func.qual
    top = q.split('.')[0] + '.'
    if q in BOUNDARY:
        return BOUNDARY[q]
    for k, v in BOUNDARY.items():
        if k.endswith('.') and (q + '.').startswith(k) or (k.endswith('.') and top == k):
            return v
    return None


SAFE_EXTERNAL = {'print', 'repr', 'str', 'bool', 'isinstance', 'type', 'id', 'RPCError', 'ReplyAndDisconnect', 'hash_to_hex_str', 'sha256',
                 'double_sha256', 'time', 'monotonic', 'partial', 'Event', 'set', 'dict', 'list', 'defaultdict', 'enumerate', 'zip', 'sorted'}


class Interp:
    def __init__(self, ctx, max_depth=7):
        self.ctx = ctx
        self.max_depth = max_depth
        self.memo = {}
        self.unmodelled = {}
        self.last_self = None
        self.ops = 0
        self.funcs_seen = set()

    # ----------------------------------------------------------------------------------------
    def run_entry(self, func, bind_self=None):
        '''All parameters (except self) are client JSON.  Returns the list of escapes.'''
        args = {}
        for p in func.params:
            if p in ('self', 'cls'):
                args[p] = bind_self if bind_self is not None else (Obj(func.cls) if func.cls else U())
            elif p.startswith('*'):
                args[p.lstrip('*')] = AV({'list'}, origin=p)
            else:
                args[p] = AV(K_ALL, origin=p)
        for p in func.kwonly:
            args[p] = AV(K_ALL, origin=p)
        _ret, escs = self.call_env(func, args, 0)
        return escs

    def call(self, func, posargs, kwargs, depth, bound=None, closure=None):
        params = [p for p in func.params]
        env = {}
        pos = list(posargs)
        if params and params[0] in ('self', 'cls') and not func.is_staticmethod:
            env[params[0]] = bound if bound is not None else (Obj(func.cls) if func.cls else U())
            params = params[1:]
        defaults = func.node.args.defaults
        npos = len([p for p in params if not p.startswith('*')])
        for i, p in enumerate(params):
            if p.startswith('*'):
                env[p.lstrip('*')] = Tup(pos[i:])
                break
            if i < len(pos):
                env[p] = pos[i]
            elif p in kwargs:
                env[p] = kwargs[p]
            else:
                di = i - (npos - len(defaults))
                if 0 <= di < len(defaults):
                    cv = const_value(defaults[di])
                    env[p] = Const(cv) if (cv is not None or norm(defaults[di]) == 'None') else U()
                else:
                    env[p] = U()
        for k, v in kwargs.items():
            env.setdefault(k, v)
        for p, d in zip(func.kwonly, func.node.args.kw_defaults):
            if p not in env:
                env[p] = Const(const_value(d)) if d is not None else U()
        # free variables of a nested function read the enclosing frame's bindings (client data flows through closures)
        for k, v in (closure or {}).items():
            env.setdefault(k, v)
        return self.call_env(func, env, depth)

    def call_env(self, func, env, depth):
        if depth > self.max_depth:
            return U('depth'), []
        key = (func.key, repr(sorted((k, repr(v)) for k, v in env.items() if k not in ('self',))))
        if key in self.memo:
            r = self.memo[key]
            if r is None:
                self.last_self = None
                return U('recursion'), []
            self.last_self = copy.deepcopy(r[2])
            return copy.deepcopy(r[0]), list(r[1])
        self.memo[key] = None
        self.funcs_seen.add(func.key)
        fr = Frame(self, func, env, depth)
        flow = fr.block(func.node.body, env)
        ret = None
        for v in fr.returns:
            ret = join(ret, v)
        if flow is not None and not fr.returns:
            ret = Const(None)
        elif flow is not None:
            ret = join(ret, Const(None))
        escs = dedup(fr.escapes)
        final_self = flow.get('self') if isinstance(flow, dict) else None
        self.memo[key] = (ret if ret is not None else U(), escs, final_self)
        self.last_self = copy.deepcopy(final_self)
        return copy.deepcopy(self.memo[key][0]), list(escs)


def dedup(escs):
    seen, out = set(), []
    for e in escs:
        if e.key() not in seen:
            seen.add(e.key())
            out.append(e)
    return out


class Frame:
    def __init__(self, interp, func, env, depth):
        self.I = interp
        self.ctx = interp.ctx
        self.f = func
        self.depth = depth
        self.escapes = []
        self.returns = []
        self.handlers = []     # stack of lists: (names, collector)

    # -- raising
    def raise_(self, cls, node, note):
        e = Esc(cls, self.f, node, note)
        self.throw(e)

    def throw(self, e):
        for names, caught in reversed(self.handlers):
            if catches(names, e.cls):
                caught.append(e)
                return
        self.escapes.append(e)

    # -- statements.  Each returns the environment at normal completion, or None if no path completes normally.
    def block(self, stmts, env):
        for s in stmts:
            if env is None:
                return None
            env = self.stmt(s, env)
        return env

    def stmt(self, s, env):
        I = self.I
        I.ops += 1
        if isinstance(s, ast.Expr):
            self.ev(s.value, env)
            return env
        if isinstance(s, ast.Assign):
            v = self.ev(s.value, env)
            for t in s.targets:
                self.bind(t, v, env, s)
            return env
        if isinstance(s, ast.AugAssign):
            cur = self.ev(s.target, env) if isinstance(s.target, ast.Name) and s.target.id in env else U()
            rhs = self.ev(s.value, env)
            v = self.binop(s.op, cur, rhs, s)
            if isinstance(s.target, ast.Name):
                env[s.target.id] = v
            return env
        if isinstance(s, ast.AnnAssign):
            if s.value is not None:
                self.bind(s.target, self.ev(s.value, env), env, s)
            return env
        if isinstance(s, ast.Return):
            self.returns.append(self.ev(s.value, env) if s.value is not None else Const(None))
            return None
        if isinstance(s, ast.Raise):
            if s.exc is None:
                self.raise_('Exception', s, 're-raise')
            else:
                e = s.exc
                name = norm(e.func) if isinstance(e, ast.Call) else norm(e)
                if isinstance(e, ast.Call):
                    for a in e.args:
                        self.ev(a, env)
                    if name.endswith('ReplyAndDisconnect'):
                        name = 'ReplyAndDisconnect'
                if isinstance(e, ast.Name) and e.id in env and not isinstance(env[e.id], (Const,)):
                    # `raise result` of a cached exception object
                    name = 'RPCError' if 'result' in e.id else name
                self.raise_(name.split('.')[-1] if not name.startswith('struct') else name, s, f'raise {name}')
            return None
        if isinstance(s, ast.If):
            self.ev(s.test, env)
            et = self.refine(s.test, copy.deepcopy(env), True)
            ef = self.refine(s.test, copy.deepcopy(env), False)
            a = self.block(s.body, et) if et is not None else None
            b = self.block(s.orelse, ef) if ef is not None else None
            return join_env(a, b)
        if isinstance(s, (ast.For, ast.AsyncFor)):
            it = self.ev(s.iter, env)
            elem = self.iterate(it, s, env)
            out = copy.deepcopy(env)
            cur = env
            for _round in range(2):
                cur = copy.deepcopy(cur)
                self.bind(s.target, elem, cur, s)
                cur = self.block(s.body, cur)
                out = join_env(out, cur)
                if cur is None:
                    break
            if s.orelse:
                out = self.block(s.orelse, out)
            return out
        if isinstance(s, ast.While):
            self.ev(s.test, env)
            const_true = isinstance(s.test, ast.Constant) and bool(s.test.value)
            out = None if const_true else copy.deepcopy(env)
            cur = env
            self._breaks = getattr(self, '_breaks', [])
            mark = len(self._breaks)
            for _round in range(2):
                cur = self.refine(s.test, copy.deepcopy(cur), True) if cur is not None else None
                if cur is None:
                    break
                cur = self.block(s.body, cur)
                if cur is not None and not const_true:
                    out = join_env(out, self.refine(s.test, copy.deepcopy(cur), False))
            for b in self._breaks[mark:]:
                out = join_env(out, b)
            del self._breaks[mark:]
            return out
        if isinstance(s, ast.Break):
            self._breaks = getattr(self, '_breaks', [])
            self._breaks.append(copy.deepcopy(env))
            return None
        if isinstance(s, ast.Continue):
            return None
        if isinstance(s, ast.Pass):
            return env
        if isinstance(s, (ast.With, ast.AsyncWith)):
            for it in s.items:
                v = self.ev(it.context_expr, env)
                if it.optional_vars is not None:
                    self.bind(it.optional_vars, U(), env, s)
            return self.block(s.body, env)
        if isinstance(s, ast.Try):
            return self.try_(s, env)
        if isinstance(s, ast.Assert):
            self.ev(s.test, env)
            et = self.refine(s.test, copy.deepcopy(env), True)
            ef = self.refine(s.test, copy.deepcopy(env), False)
            if ef is not None and self.mentions_taint(s.test, env):
                self.raise_('AssertionError', s, f'assert {norm(s.test)[:60]} can fail on client data')
            return et
        if isinstance(s, (ast.FunctionDef, ast.AsyncFunctionDef)):
            env[s.name] = FuncRef(getattr(s, '_func', None))
            return env
        if isinstance(s, (ast.Delete, ast.Global, ast.Nonlocal, ast.Import, ast.ImportFrom)):
            return env
        raise AnalysisError(f'ESC: statement kind {type(s).__name__} not supported in {self.f.key}:{s.lineno}')

    def try_(self, s, env):
        caught_lists = []
        names_all = []
        for h in s.handlers:
            names = ['BaseException'] if h.type is None else [norm(x) for x in (h.type.elts if isinstance(h.type, ast.Tuple) else [h.type])]
            names_all.append(names)
        # one collector per handler, innermost-first matching in order
        collectors = [[] for _ in s.handlers]

        class Multi(list):
            pass
        # push handlers in reverse so the first listed handler is tried first
        entry_env = copy.deepcopy(env)
        for names, col in reversed(list(zip(names_all, collectors))):
            self.handlers.append((names, col))
        # python tries handlers in order: emulate by re-dispatching after the body
        body_env = self.block(s.body, env)
        for _ in s.handlers:
            self.handlers.pop()
        # re-dispatch in source order
        allc = [e for col in collectors for e in col]
        collectors = [[] for _ in s.handlers]
        for e in allc:
            for i, names in enumerate(names_all):
                if catches(names, e.cls):
                    collectors[i].append(e)
                    break
        if s.orelse and body_env is not None:
            body_env = self.block(s.orelse, body_env)
        out = body_env
        for h, col in zip(s.handlers, collectors):
            if not col:
                continue
            henv = copy.deepcopy(entry_env)
            # values assigned in the body before the exception are unknown: join with body env when available
            if body_env is not None:
                henv = join_env(henv, body_env)
            if h.name:
                henv[h.name] = U('exception')
            out = join_env(out, self.block(h.body, henv))
        if s.finalbody:
            out = self.block(s.finalbody, out) if out is not None else (self.block(s.finalbody, copy.deepcopy(entry_env)) and None)
        return out

    # -- binding
    def bind(self, target, v, env, node):
        if isinstance(target, ast.Name):
            env[target.id] = v
        elif isinstance(target, (ast.Tuple, ast.List)):
            n = len(target.elts)
            if isinstance(v, Tup) and len(v.items) == n:
                for t, x in zip(target.elts, v.items):
                    self.bind(t, x, env, node)
            elif isinstance(v, AV):
                bad = v.kinds - SIZED
                if bad:
                    self.raise_('TypeError', node, f'unpacking {v!r} into {n} names')
                if v.length != n:
                    self.raise_('ValueError', node, f'unpacking a client value of unknown length into {n} names')
                el = v.elem if v.elem is not None else AV(K_ALL if 'list' in v.kinds else {'str'})
                for t in target.elts:
                    self.bind(t, el.copy() if isinstance(el, AV) else el, env, node)
            else:
                for t in target.elts:
                    self.bind(t, U(), env, node)
        elif isinstance(target, ast.Attribute):
            base = self.ev(target.value, env)
            if isinstance(base, Obj):
                base.attrs[target.attr] = v
        elif isinstance(target, ast.Subscript):
            base = self.ev(target.value, env)
            k = self.ev(target.slice, env)
            self.hash_key(k, target, 'used as a dict / cache key')
            if isinstance(base, AV) and isinstance(k, Const) and _hashable(k.value):
                base.fields[k.value] = v
        elif isinstance(target, ast.Starred):
            self.bind(target.value, U(), env, node)

    def mentions_taint(self, e, env):
        for n in ast.walk(e):
            if isinstance(n, ast.Name) and n.id in env and tainted(env[n.id]):
                return True
            if isinstance(n, ast.Attribute):
                try:
                    if tainted(self.ev_quiet(n, env)):
                        return True
                except Exception:
                    pass
        return False

    def ev_quiet(self, e, env):
        saved, self.escapes = self.escapes, []
        hs, self.handlers = self.handlers, []
        try:
            return self.ev(e, copy.deepcopy(env))
        finally:
            self.escapes, self.handlers = saved, hs

    # -- helpers for effects
    def hash_key(self, k, node, what):
        if isinstance(k, AV) and (k.kinds & {'list', 'dict'}):
            self.raise_('TypeError', node, f'unhashable client value {k!r} {what}')

    def need(self, v, kinds, exc, node, what):
        '''Operation valid only for `kinds`: raise exc for the others; narrow on normal return.'''
        if isinstance(v, AV):
            bad = v.kinds - kinds
            if bad:
                self.raise_(exc, node, f'{what} on client value that may be {"/".join(sorted(bad))}')
                v.kinds = v.kinds & kinds
        return v

    def iterate(self, it, node, env):
        if isinstance(it, AV):
            self.need(it, SIZED, 'TypeError', node, 'iteration')
            if it.kinds <= {'dict'} or it.kinds <= {'str'} or it.kinds <= {'dict', 'str'}:
                el = AV({'str'})
                el.member_of = it
                return el
            return it.elem.copy() if it.elem is not None else AV(K_ALL)
        if isinstance(it, Tup):
            r = None
            for x in it.items:
                r = join(r, x)
            return r if r is not None else U()
        if isinstance(it, Const) and isinstance(it.value, (tuple, list)):
            r = None
            for x in it.value:
                r = join(r, Const(x))
            return r if r is not None else U()
        return U()

    # -- refinement
    def refine(self, test, env, truth):
        '''Environment in which `test` evaluated to `truth` (None if impossible).'''
        if env is None:
            return None
        if isinstance(test, ast.UnaryOp) and isinstance(test.op, ast.Not):
            return self.refine(test.operand, env, not truth)
        if isinstance(test, ast.BoolOp):
            if isinstance(test.op, ast.And):
                if truth:
                    for v in test.values:
                        env = self.refine(v, env, True)
                        if env is None:
                            return None
                    return env
                out = None
                cur = env
                for v in test.values:
                    out = join_env(out, self.refine(v, copy.deepcopy(cur), False))
                    cur = self.refine(v, cur, True)
                    if cur is None:
                        break
                return out
            else:
                if not truth:
                    for v in test.values:
                        env = self.refine(v, env, False)
                        if env is None:
                            return None
                    return env
                out = None
                cur = env
                for v in test.values:
                    out = join_env(out, self.refine(v, copy.deepcopy(cur), True))
                    cur = self.refine(v, cur, False)
                    if cur is None:
                        break
                return out
        v = None
        tgt = None
        if isinstance(test, ast.Call) and norm(test.func) == 'isinstance' and len(test.args) == 2:
            tgt = self.lvalue(test.args[0], env)
            if isinstance(tgt, AV):
                kinds = self.type_kinds(test.args[1])
                if kinds is not None:
                    nk = (tgt.kinds & kinds) if truth else (tgt.kinds - kinds)
                    # isinstance(x, int) is true for bools as well
                    if not nk:
                        return None
                    tgt.kinds = nk
            return env
        if isinstance(test, ast.Compare) and len(test.ops) == 1:
            op = test.ops[0]
            l, r = test.left, test.comparators[0]
            lv = self.lvalue(l, env)
            rc = self.const_of(r, env)
            if not isinstance(lv, AV) and isinstance(self.lvalue(r, env), AV) and self.const_of(l, env) is not NOCONST \
                    and not isinstance(op, (ast.In, ast.NotIn)):
                # constant on the left: mirror the comparison
                mirror = {ast.Lt: ast.Gt, ast.Gt: ast.Lt, ast.LtE: ast.GtE, ast.GtE: ast.LtE}
                l, r = r, l
                lv, rc = self.lvalue(l, env), self.const_of(r, env)
                op = mirror.get(type(op), type(op))()
            if isinstance(lv, AV):
                if isinstance(op, (ast.Is, ast.IsNot)) and rc is not NOCONST and rc is None:
                    isnone = isinstance(op, ast.Is) == truth
                    nk = (lv.kinds & {'none'}) if isnone else (lv.kinds - {'none'})
                    if not nk:
                        return None
                    lv.kinds = nk
                    return env
                if isinstance(op, (ast.Eq, ast.NotEq)) and rc is not NOCONST:
                    eq = isinstance(op, ast.Eq) == truth
                    if eq:
                        ks = eq_kinds(rc)
                        nk = lv.kinds & ks
                        if not nk:
                            return None
                        lv.kinds = nk
                        lv.vals = {rc} if _hashable(rc) else None
                        if isinstance(rc, (int, float)) and not isinstance(rc, bool):
                            lv.bounded = True
                            lv.nonneg = rc >= 0
                    return env
                if isinstance(op, (ast.In, ast.NotIn)) and lv.member_of is not None and self.peek(r, env) is lv.member_of:
                    # x was drawn from this very container: membership holds
                    if (isinstance(op, ast.In)) != truth:
                        return None
                    return env
                if isinstance(op, (ast.In, ast.NotIn)) and rc is not NOCONST and isinstance(rc, (tuple, list, set, frozenset)):
                    isin = isinstance(op, ast.In) == truth
                    if isin:
                        ks = frozenset()
                        for c in rc:
                            ks |= eq_kinds(c)
                        nk = lv.kinds & ks
                        if not nk:
                            return None
                        lv.kinds = nk
                        lv.bounded = True
                        lv.nonneg = all((not isinstance(c, (int, float))) or c >= 0 for c in rc)
                        lv.vals = set(c for c in rc if _hashable(c))
                    return env
                if isinstance(op, (ast.GtE, ast.Gt, ast.Lt, ast.LtE)) and rc is not NOCONST and isinstance(rc, (int, float)):
                    ge = isinstance(op, (ast.GtE, ast.Gt))
                    if (ge and truth and rc >= 0) or ((not ge) and (not truth) and rc >= 0 and isinstance(op, ast.Lt)):
                        lv.nonneg = True
                    if ((not ge) and truth) or (ge and not truth):
                        # x < c / x <= c : bounded above; with nonneg bounded
                        if lv.nonneg:
                            lv.bounded = True
                    return env
            # len(x) == n
            if isinstance(l, ast.Call) and norm(l.func) == 'len' and l.args and rc is not NOCONST and isinstance(rc, int):
                tv = self.lvalue(l.args[0], env)
                if isinstance(tv, AV) and isinstance(op, ast.Eq) and truth:
                    tv.length = rc
                return env
            return env
        # truthiness of a name / attribute
        lv = self.lvalue(test, env)
        if isinstance(lv, AV):
            if truth:
                nk = lv.kinds - {'none'}
                if not nk:
                    return None
                lv.kinds = nk
            else:
                # falsy values: None, False, 0, 0.0, '', [], {}
                lv.kinds = lv.kinds - {'inf', 'nan'}
                if not lv.kinds:
                    return None
                if lv.kinds <= NUM:
                    lv.bounded, lv.nonneg = True, True
                lv.length = 0 if lv.kinds <= SIZED else lv.length
            return env
        if isinstance(lv, Const):
            if bool(lv.value) != truth:
                return None
        return env

    def type_kinds(self, e):
        names = [norm(x) for x in (e.elts if isinstance(e, ast.Tuple) else [e])]
        m = {'int': {'bool', 'int'}, 'str': {'str'}, 'dict': {'dict'}, 'list': {'list'}, 'float': {'float', 'inf', 'nan'}, 'bool': {'bool'},
             'tuple': set(), 'bytes': set(), 'Exception': set()}
        out = set()
        for n in names:
            if n not in m:
                return None
            out |= m[n]
        return frozenset(out)

    def lvalue(self, e, env):
        '''The abstract object denoted by a Name / self.attr / x.fields path (shared, so refinement sticks).'''
        if isinstance(e, ast.Name):
            return env.get(e.id)
        if isinstance(e, ast.Attribute):
            b = self.lvalue(e.value, env)
            if isinstance(b, Obj):
                return b.attrs.get(e.attr)
        return None

    def peek(self, e, env):
        '''Side-effect free evaluation of Name / <client dict>.get(const[, default]) chains (identity matters).'''
        if isinstance(e, ast.Name):
            return env.get(e.id)
        if isinstance(e, ast.Attribute):
            return self.lvalue(e, env)
        if isinstance(e, ast.Call) and isinstance(e.func, ast.Attribute) and e.func.attr == 'get' and e.args:
            b = self.peek(e.func.value, env)
            k = const_value(e.args[0])
            if isinstance(b, AV) and k is not None and k in b.fields:
                fv = b.fields[k]
                if len(e.args) == 1 or (isinstance(fv, AV) and 'none' not in fv.kinds):
                    return fv
        return None

    def const_of(self, e, env):
        v = const_value(e)
        if v is not None or norm(e) == 'None':
            return v
        if isinstance(e, ast.Constant):
            return e.value
        if isinstance(e, (ast.Tuple, ast.List, ast.Set)):
            vals = [self.const_of(x, env) for x in e.elts]
            if all(x is not NOCONST for x in vals):
                return tuple(vals)
            return NOCONST
        if isinstance(e, ast.Name) and isinstance(env.get(e.id), Const):
            return env[e.id].value
        if norm(e) in ('True', 'False'):
            return norm(e) == 'True'
        return NOCONST

    # -- expressions
    def ev(self, e, env):
        I = self.I
        I.ops += 1
        if e is None:
            return Const(None)
        if isinstance(e, ast.Constant):
            return Const(e.value)
        if isinstance(e, ast.Name):
            if e.id in env:
                return env[e.id]
            if e.id in ('True', 'False', 'None'):
                return Const({'True': True, 'False': False, 'None': None}[e.id])
            f = self.f
            while f is not None:
                if e.id in f.nested:
                    return FuncRef(f.nested[e.id])
                f = f.parent
            t = self.ctx.res.type_of(e, self.f)
            if t and t[0] == 'func':
                return FuncRef(t[1])
            return U(e.id)
        if isinstance(e, ast.Await):
            return self.ev(e.value, env)
        if isinstance(e, ast.Attribute):
            b = self.ev(e.value, env)
            if isinstance(b, Obj):
                if e.attr in b.attrs:
                    return b.attrs[e.attr]
                m = self.ctx.repo.methods_of(b.cls).get(e.attr)
                if m is not None:
                    if any(d.split('.')[-1] in ('cachedproperty', 'property') for d in m.decorators):
                        r, escs = I.call(m, [], {}, self.depth + 1, bound=b)
                        for x in escs:
                            self.throw(x)
                        if any(d.split('.')[-1] == 'cachedproperty' for d in m.decorators):
                            b.attrs[e.attr] = r
                        return r
                    return FuncRef(m, bound=b)
                return U(f'{b.cls}.{e.attr}')
            if isinstance(b, AV):
                return ('METHOD', b, e.attr, e)
            return U(norm(e))
        if isinstance(e, ast.JoinedStr):
            for part in e.values:
                if isinstance(part, ast.FormattedValue):
                    v = self.ev(part.value, env)
                    spec = norm(part.format_spec) if part.format_spec is not None else ''
                    if isinstance(v, AV) and part.format_spec is not None:
                        sp = ''.join(x.value for x in part.format_spec.values if isinstance(x, ast.Constant))
                        if sp.endswith('d') or sp.endswith('x'):
                            if v.kinds - INTS:
                                bad = v.kinds - INTS
                                self.raise_('ValueError' if bad <= {'float', 'inf', 'nan', 'str'} else 'TypeError', part,
                                            f'format spec {sp!r} on client value that may be {"/".join(sorted(bad))}')
                        elif sp.endswith('f'):
                            if v.kinds - NUM:
                                self.raise_('ValueError', part, f'format spec {sp!r} on a non-number')
            return U('str')
        if isinstance(e, ast.BinOp):
            return self.binop(e.op, self.ev(e.left, env), self.ev(e.right, env), e)
        if isinstance(e, ast.UnaryOp):
            v = self.ev(e.operand, env)
            if isinstance(e.op, ast.Not):
                return U('bool')
            if isinstance(v, AV):
                self.need(v, NUM, 'TypeError', e, 'unary minus')
                r = v.copy()
                r.nonneg = False
                return r
            if isinstance(v, Const) and isinstance(v.value, (int, float)):
                return Const(-v.value)
            return U()
        if isinstance(e, ast.BoolOp):
            r = None
            cur = env
            for i, v in enumerate(e.values):
                x = self.ev(v, cur)
                r = join(r, x)
                cur2 = self.refine(v, copy.deepcopy(cur), isinstance(e.op, ast.And))
                if cur2 is None:
                    break
                cur = cur2
            return r if r is not None else U()
        if isinstance(e, ast.Compare):
            l = self.ev(e.left, env)
            for op, rc in zip(e.ops, e.comparators):
                r = self.ev(rc, env)
                self.compare(op, l, r, e)
                l = r
            return U('bool')
        if isinstance(e, ast.IfExp):
            self.ev(e.test, env)
            et = self.refine(e.test, copy.deepcopy(env), True)
            ef = self.refine(e.test, copy.deepcopy(env), False)
            a = self.ev(e.body, et) if et is not None else None
            b = self.ev(e.orelse, ef) if ef is not None else None
            return join(a, b) if (a is not None or b is not None) else U()
        if isinstance(e, ast.Tuple):
            return Tup(self.ev(x, env) for x in e.elts)
        if isinstance(e, (ast.List, ast.Set)):
            items = [self.ev(x, env) for x in e.elts]
            if any(tainted(x) for x in items):
                return Tup(items)
            return U('list')
        if isinstance(e, ast.Dict):
            for k, v in zip(e.keys, e.values):
                if k is not None:
                    self.hash_key(self.ev(k, env), e, 'used as a dict key')
                self.ev(v, env)
            return U('dict')
        if isinstance(e, ast.Subscript):
            return self.subscript(e, env)
        if isinstance(e, (ast.ListComp, ast.SetComp, ast.GeneratorExp, ast.DictComp)):
            cur = copy.deepcopy(env)
            for g in e.generators:
                it = self.ev(g.iter, cur)
                el = self.iterate(it, e, cur)
                self.bind(g.target, el, cur, e)
                for c in g.ifs:
                    self.ev(c, cur)
                    cur2 = self.refine(c, cur, True)
                    if cur2 is None:
                        return U('empty')
                    cur = cur2
            if isinstance(e, ast.DictComp):
                self.hash_key(self.ev(e.key, cur), e, 'used as a dict key')
                self.ev(e.value, cur)
                return U('dict')
            el = self.ev(e.elt, cur)
            if isinstance(e, ast.SetComp):
                self.hash_key(el, e, 'put in a set')
            if tainted(el) or isinstance(el, Obj):
                r = AV({'list'})
                r.elem = el
                return ListOf(el)
            return U('list')
        if isinstance(e, ast.Call):
            return self.call_expr(e, env)
        if isinstance(e, ast.Starred):
            return self.ev(e.value, env)
        if isinstance(e, ast.Lambda):
            return U('lambda')
        if isinstance(e, ast.NamedExpr):
            v = self.ev(e.value, env)
            self.bind(e.target, v, env, e)
            return v
        return U()

    def binop(self, op, l, r, node):
        for v, o in ((l, r), (r, l)):
            if isinstance(v, AV):
                other_num = isinstance(o, (U,)) or (isinstance(o, Const) and isinstance(o.value, (int, float))) or isinstance(o, AV)
                if isinstance(op, ast.Mod) and v is l and 'str' in v.kinds:
                    pass
                if other_num and not (isinstance(o, Const) and isinstance(o.value, (str, bytes))):
                    self.need(v, NUM, 'TypeError', node, f'arithmetic ({type(op).__name__})')
        if isinstance(op, ast.Div):
            for v in (l, r):
                if isinstance(v, AV) and (v.kinds & INTS) and not v.bounded:
                    self.raise_('OverflowError', node, 'true division of an unbounded client integer (int too large to convert to float)')
            if isinstance(r, AV):
                self.raise_('ZeroDivisionError', node, 'division by a client value that may be 0')
        if isinstance(op, (ast.FloorDiv, ast.Mod)) and isinstance(r, AV):
            self.raise_('ZeroDivisionError', node, 'division by a client value that may be 0')
        if isinstance(l, AV) or isinstance(r, AV):
            a = l if isinstance(l, AV) else r
            res = AV(a.kinds & NUM if a.kinds & NUM else {'int'})
            bl = l.bounded if isinstance(l, AV) else True
            br = r.bounded if isinstance(r, AV) else True
            res.bounded = bl and br and not isinstance(op, (ast.Pow, ast.LShift))
            nl = l.nonneg if isinstance(l, AV) else (isinstance(l, Const) and isinstance(l.value, (int, float)) and l.value >= 0)
            nr = r.nonneg if isinstance(r, AV) else (isinstance(r, Const) and isinstance(r.value, (int, float)) and r.value >= 0)
            res.nonneg = bool(nl and nr and isinstance(op, (ast.Add, ast.Mult, ast.Div, ast.FloorDiv)))
            if isinstance(op, ast.Div):
                res.kinds = frozenset({'float'})
                res.bounded = True
            return res
        return U()

    def compare(self, op, l, r, node):
        if isinstance(op, (ast.Eq, ast.NotEq, ast.Is, ast.IsNot)):
            return
        if isinstance(op, (ast.In, ast.NotIn)):
            if isinstance(r, AV):
                bad = r.kinds - SIZED
                if bad:
                    self.raise_('TypeError', node, f'membership test in a client value that may be {"/".join(sorted(bad))}')
                    r.kinds = r.kinds & SIZED
                if 'str' in r.kinds and not (isinstance(l, AV) and l.kinds <= {'str'}) and not (isinstance(l, Const) and isinstance(l.value, str)) and not isinstance(l, U):
                    self.raise_('TypeError', node, "'in <string>' requires a string as left operand")
                if 'dict' in r.kinds:
                    self.hash_key(l, node, 'looked up in a client dict')
            elif isinstance(r, (U,)):
                self.hash_key(l, node, f'looked up in {r.what or "a container"}')
            return
        # ordering
        for v, o in ((l, r), (r, l)):
            if isinstance(v, AV):
                if isinstance(o, Tup) or (isinstance(o, U) and 'tuple' in o.what) or (isinstance(o, Const) and isinstance(o.value, tuple)):
                    if v.kinds:
                        self.raise_('TypeError', node, f'ordering comparison of a client value {v!r} with a tuple')
                elif isinstance(o, Const) and isinstance(o.value, str):
                    self.need(v, frozenset({'str'}), 'TypeError', node, 'ordering comparison with a string')
                else:
                    self.need(v, NUM, 'TypeError', node, 'ordering comparison with a number')

    def subscript(self, e, env):
        base = self.ev(e.value, env)
        is_slice = isinstance(e.slice, ast.Slice)
        if is_slice:
            for part in (e.slice.lower, e.slice.upper, e.slice.step):
                if part is not None:
                    pv = self.ev(part, env)
                    if isinstance(pv, AV):
                        self.need(pv, INTS | {'none'}, 'TypeError', e, 'slice bound')
            if isinstance(base, AV):
                self.need(base, frozenset({'str', 'list'}), 'TypeError', e, 'slicing')
                return base.copy()
            return U()
        k = self.ev(e.slice, env)
        if isinstance(base, AV):
            self.need(base, SIZED, 'TypeError', e, 'subscript')
            if 'dict' in base.kinds:
                self.raise_('KeyError', e, 'subscript of a client dict with a key that may be absent')
                self.hash_key(k, e, 'used as a key')
            if base.kinds & {'str', 'list'}:
                self.raise_('IndexError', e, 'index into a client string / list of unknown length')
                if isinstance(k, AV):
                    self.need(k, INTS, 'TypeError', e, 'index')
            if isinstance(k, Const) and _hashable(k.value) and k.value in base.fields:
                return base.fields[k.value]
            return AV(K_ALL)
        if isinstance(base, Tup) and isinstance(k, Const) and isinstance(k.value, int) and -len(base.items) <= k.value < len(base.items):
            return base.items[k.value]
        if isinstance(base, ListOf) and not isinstance(k, AV):
            return base.elem
        if isinstance(k, AV):
            # trusted container, client index / key.  The container's kind is not tracked for trusted data: a client value
            # already narrowed to an integer is taken to index a sequence (IndexError), any other key a mapping (KeyError).
            w = base.what if isinstance(base, U) else ''
            if isinstance(base, ListOf) or k.kinds <= INTS:
                self.raise_('IndexError', e, 'client-chosen index into a server-side sequence')
            else:
                self.hash_key(k, e, f'used as a key of {w or "a mapping"}')
                self.raise_('KeyError', e, f'client-chosen key of {w or "a mapping"}')
        return U()

    # -- calls
    def call_expr(self, e, env):
        I = self.I
        fn = e.func
        args = []
        for a in e.args:
            if isinstance(a, ast.Starred):
                sv = self.ev(a.value, env)
                if isinstance(sv, Tup):
                    args += sv.items
                elif isinstance(sv, AV):
                    self.need(sv, SIZED, 'TypeError', e, '* unpacking')
                    args.append(sv.elem if sv.elem is not None else AV(K_ALL))
                else:
                    args.append(U())
            else:
                args.append(self.ev(a, env))
        kwargs = {kw.arg: self.ev(kw.value, env) for kw in e.keywords if kw.arg}
        name = norm(fn)
        short = name.split('.')[-1]
        # methods on client values
        target = self.ev(fn, env) if isinstance(fn, ast.Attribute) else None
        if isinstance(target, tuple) and target and target[0] == 'METHOD':
            return self.method_on_client(target[1], target[2], args, e, env)
        if isinstance(target, FuncRef) and target.func is not None:
            return self.invoke(target.func, args, kwargs, e, bound=target.bound, env=env)
        if isinstance(fn, ast.Name):
            v = env.get(fn.id)
            if isinstance(v, FuncRef) and v.func is not None:
                return self.invoke(v.func, args, kwargs, e, bound=v.bound, env=env)
        # builtins / known externals on client values
        r = self.builtin(short, name, args, kwargs, e, env)
        if r is not NOTHANDLED:
            return r
        # dynamic dispatch: getattr(self.daemon, <const>)(*args)
        if isinstance(fn, ast.Call) and norm(fn.func) == 'getattr' and len(fn.args) == 2:
            recv_t = self.ctx.res.type_of(fn.args[0], self.f)
            mname = self.ev(fn.args[1], env)
            if recv_t and recv_t[0] == 'inst' and isinstance(mname, Const) and isinstance(mname.value, str):
                m = self.ctx.repo.methods_of(recv_t[1]).get(mname.value)
                if m is not None:
                    return self.invoke(m, args, kwargs, e)
            if any(tainted(a) for a in args):
                self.note_unmodelled(e, 'dynamic getattr call with client data')
            return U()
        # repo callee by static resolution
        callee = self.ctx.res.resolve_ref(fn, self.f)
        if callee is None and isinstance(fn, ast.Name):
            al = self.ctx.res.aliases(self.f).get(fn.id)
            callee = self.ctx.res.resolve_ref(al, self.f) if al is not None else None
        if callee is not None:
            t = self.ctx.res.type_of(fn, self.f)
            if t and t[0] == 'cls':
                return self.construct(t[1], callee, args, kwargs, e)
            bound = None
            if isinstance(fn, ast.Attribute):
                bv = self.ev(fn.value, env)
                bound = bv if isinstance(bv, Obj) else None
            return self.invoke(callee, args, kwargs, e, bound=bound, env=env)
        if any(tainted(a) for a in args + list(kwargs.values())) and short not in SAFE_EXTERNAL:
            self.note_unmodelled(e, f'client data passed to unmodelled callee {name}')
        return U(short)

    def note_unmodelled(self, node, text):
        k = f'{self.f.unit.relpath}:{getattr(node, "lineno", 0)} {text}'
        self.I.unmodelled[k] = self.I.unmodelled.get(k, 0) + 1

    def closure_for(self, callee, env):
        if env is None or callee.parent is None:
            return None
        anc, g = set(), self.f
        while g is not None:
            anc.add(g.key)
            g = g.parent
        if callee.parent.key not in anc:
            return None
        bound_ = set(callee.params) | set(callee.kwonly) | {p.lstrip('*') for p in callee.params}
        for x in callee.own_nodes():
            if isinstance(x, ast.Name) and isinstance(x.ctx, (ast.Store, ast.Del)):
                bound_.add(x.id)
        free = {x.id for x in callee.own_nodes() if isinstance(x, ast.Name) and isinstance(x.ctx, ast.Load)} - bound_
        for nested in callee.nested.values():
            free |= {x.id for x in nested.own_nodes() if isinstance(x, ast.Name) and isinstance(x.ctx, ast.Load)} - bound_
        return {k: env[k] for k in free if k in env and k != 'self'}

    def invoke(self, callee, args, kwargs, node, bound=None, env=None):
        I = self.I
        b = boundary_for(callee)
        if b is not None:
            raises, reqs = b
            for i, a in enumerate(args):
                if i < len(reqs) and reqs[i] is not None and isinstance(a, AV):
                    self.need(a, reqs[i], 'TypeError', node, f'argument {i} of {callee.qual}')
            for r in raises:
                self.raise_(r, node, f'{callee.qual} may raise {r}')
            return U(callee.qual)
        r, escs = I.call(callee, args, kwargs, self.depth + 1, bound=bound, closure=self.closure_for(callee, env))
        for x in escs:
            self.throw(x)
        return r

    def construct(self, cls, init, args, kwargs, node):
        o = Obj(cls)
        if init is not None and init.name == '__init__':
            r, escs = self.I.call(init, args, kwargs, self.depth + 1, bound=o)
            for x in escs:
                self.throw(x)
            if isinstance(self.I.last_self, Obj):
                o = self.I.last_self       # the object as __init__ left it (branches work on copies of the environment)
        return o

    def method_on_client(self, v, meth, args, node, env):
        STR_M = {'split', 'lower', 'upper', 'strip', 'isdigit', 'encode', 'startswith', 'endswith', 'replace', 'rpartition', 'partition',
                 'rstrip', 'lstrip', 'join', 'format', 'hex', 'rindex', 'index', 'isalnum', 'find'}
        DICT_M = {'get', 'items', 'keys', 'values', 'copy', 'setdefault', 'pop', 'update'}
        LIST_M = {'append', 'extend', 'index', 'count', 'copy'}
        ok = set()
        if meth in STR_M:
            ok |= {'str'}
        if meth in DICT_M:
            ok |= {'dict'}
        if meth in LIST_M:
            ok |= {'list'}
        bad = v.kinds - ok
        if bad:
            self.raise_('AttributeError', node, f'.{meth}() on client value that may be {"/".join(sorted(bad))}')
            v.kinds = v.kinds & ok if (v.kinds & ok) else v.kinds
        if meth == 'get' and 'dict' in v.kinds:
            k = args[0] if args else U()
            self.hash_key(k, node, 'looked up in a client dict')
            if isinstance(k, Const) and _hashable(k.value):
                if k.value not in v.fields:
                    v.fields[k.value] = AV(K_ALL, origin=f'[{k.value!r}]')
                fv = v.fields[k.value]
                if len(args) > 1:
                    if isinstance(fv, AV) and 'none' not in fv.kinds:
                        return fv      # the key is known to be present: the default is not used
                    return join(fv.copy(), args[1])
                return fv      # shared: refinements stick (None when absent is part of K_ALL)
            return AV(K_ALL)
        if meth == 'copy':
            return v
        if meth in ('split', 'rpartition', 'partition'):
            r = AV({'list'})
            r.elem = AV({'str'})
            return r
        if meth in ('lower', 'upper', 'strip', 'rstrip', 'lstrip', 'replace', 'format', 'hex'):
            return AV({'str'})
        if meth in ('items',):
            r = AV({'list'})
            r.elem = AV(K_ALL)
            return ListOf(Tup([AV({'str'}), AV(K_ALL)]))
        if meth in ('keys',):
            return ListOf(AV({'str'}))
        if meth in ('index', 'rindex'):
            self.raise_('ValueError', node, f'.{meth}() of something that may be absent')
        return U()

    def builtin(self, short, name, args, kwargs, node, env):
        a0 = args[0] if args else None
        if name == 'int':
            if isinstance(a0, AV):
                k = a0.kinds
                if k & {'none', 'list', 'dict'}:
                    self.raise_('TypeError', node, f'int() of client value that may be {"/".join(sorted(k & {"none", "list", "dict"}))}')
                if k & {'nan', 'str'}:
                    self.raise_('ValueError', node, f'int() of client value that may be {"/".join(sorted(k & {"nan", "str"}))}')
                if 'inf' in k:
                    self.raise_('OverflowError', node, 'int() of a client float that may be infinite (JSON Infinity / 1e999)')
                r = AV({'int'})
                r.bounded = a0.bounded and k <= INTS
                r.nonneg = a0.nonneg
                if a0.vals is not None and all(isinstance(x, (int, float, bool)) for x in a0.vals):
                    r.bounded, r.nonneg = True, all(x >= 0 for x in a0.vals)
                return r
            return U('int')
        if name == 'float':
            if isinstance(a0, AV):
                if a0.kinds & {'none', 'list', 'dict'}:
                    self.raise_('TypeError', node, 'float() of a non-number')
                if 'str' in a0.kinds:
                    self.raise_('ValueError', node, 'float() of a client string')
                if (a0.kinds & INTS) and not a0.bounded:
                    self.raise_('OverflowError', node, 'float() of an unbounded client integer')
            return U('float')
        if name == 'len':
            if isinstance(a0, AV):
                self.need(a0, SIZED, 'TypeError', node, 'len()')
            return U('int')
        if name in ('str', 'repr', 'bool', 'type', 'id', 'isinstance', 'print', 'hash_to_hex_str'):
            if name == 'str' and isinstance(a0, AV):
                return AV({'str'})
            return U(name)
        if name in ('min', 'max'):
            tv = [a for a in args if isinstance(a, AV)]
            if tv:
                for v in tv:
                    others = [a for a in args if a is not v]
                    if any(isinstance(o, (Tup,)) or (isinstance(o, U) and 'tuple' in o.what) or (isinstance(o, Const) and isinstance(o.value, tuple)) for o in others):
                        self.raise_('TypeError', node, f'{name}() of a client value with a tuple')
                    else:
                        self.need(v, NUM, 'TypeError', node, f'{name}() with a number')
                r = tv[0].copy()
                consts = [a for a in args if isinstance(a, Const) or isinstance(a, U)]
                if name == 'min' and consts and all(v.nonneg for v in tv):
                    r.bounded = True
                if name == 'max' and any(isinstance(c, Const) and isinstance(c.value, (int, float)) and c.value >= 0 for c in consts):
                    r.nonneg = True
                return r
            return U(name)
        if name in ('tuple', 'list', 'set', 'sorted', 'sum', 'any', 'all', 'enumerate', 'reversed', 'iter', 'dict', 'frozenset'):
            if isinstance(a0, AV):
                self.need(a0, SIZED, 'TypeError', node, f'{name}()')
                if name in ('set', 'frozenset', 'dict') and a0.elem is not None:
                    self.hash_key(a0.elem, node, 'put in a set')
                return a0
            if isinstance(a0, ListOf):
                if name == 'tuple' and isinstance(a0.elem, AV) and a0.elem.kinds <= INTS:
                    return U('tuple of validated ints')     # e.g. protocol_tuple(): safe to order against other int tuples
                return a0
            return U(name)
        if name in ('bytes.fromhex', 'hex_to_bytes'):
            if isinstance(a0, AV):
                if a0.kinds - {'str'}:
                    self.raise_('TypeError', node, 'bytes.fromhex() of a non-string client value')
                self.raise_('ValueError', node, 'bytes.fromhex() of a client string that may not be hex')
                a0.kinds = frozenset({'str'})
            return U('bytes')
        if short == 'ip_address':
            if isinstance(a0, AV):
                self.raise_('ValueError', node, 'ip_address() of a client string')
            return U('ip')
        if short == 'getaddrinfo':
            if isinstance(a0, AV):
                self.need(a0, frozenset({'str', 'none'}), 'TypeError', node, 'getaddrinfo host')
                self.raise_('gaierror', node, 'getaddrinfo() resolution failure')
                self.raise_('UnicodeError', node, 'getaddrinfo() IDNA encoding of a client host name (empty or over-long label)')
            return U('addrinfo')
        if short in ('match', 'search', 'fullmatch') and isinstance(a0, AV):
            self.need(a0, frozenset({'str'}), 'TypeError', node, 'regex match')
            return U()
        if short == 'is_valid_hostname' and isinstance(a0, AV):
            self.need(a0, frozenset({'str'}), 'TypeError', node, 'is_valid_hostname')
            return U('bool')
        if name == 'getattr' and len(args) >= 2:
            o, n = args[0], args[1]
            if isinstance(o, Obj):
                names = [n.value] if isinstance(n, Const) else (list(n.vals) if isinstance(n, AV) and n.vals else None)
                if isinstance(n, U) or names is None:
                    # feature loop: every cachedproperty named in FEATURES
                    names = self.features_of(o.cls)
                r = None
                for nm in names:
                    fake = ast.Attribute(value=ast.Name(id='__o', ctx=ast.Load()), attr=nm, ctx=ast.Load())
                    r = join(r, self.ev(fake, {'__o': o}))
                return r if r is not None else U()
            return U()
        if name == 'setattr':
            return U()
        if short in ('bump_cost', 'info', 'warning', 'error', 'debug', 'exception', 'send_notification', 'sleep', 'set', 'clear', 'add', 'discard',
                     'append', 'extend', 'update', 'format', 'time', 'monotonic', 'is_set', 'close', 'spawn', 'shuffle', 'randrange'):
            if short in ('add', 'discard') and isinstance(a0, AV):
                self.hash_key(a0, node, 'put in a set')
            if short == 'format':
                # '{:d}'.format(x)
                base = node.func.value if isinstance(node.func, ast.Attribute) else None
                fmt = const_value(base) if base is not None else None
                if isinstance(fmt, str) and ':d' in fmt:
                    for a in args:
                        if isinstance(a, AV) and a.kinds - INTS:
                            self.raise_('ValueError', node, "'{:d}'.format() of a client value that may not be an integer")
            return U(short)
        if short in ('get', 'pop', 'setdefault') and isinstance(node.func, ast.Attribute):
            if isinstance(a0, AV):
                base = self.ev(node.func.value, env)
                if not isinstance(base, (AV, Obj)):
                    self.hash_key(a0, node, f'looked up in {norm(node.func.value)}')
            return U()
        return NOTHANDLED

    def features_of(self, cls):
        c = self.ctx.repo.class_by_name(cls)
        for s in c.body if c is not None else []:
            if isinstance(s, ast.Assign) and norm(s.targets[0]) == 'FEATURES' and isinstance(s.value, (ast.Tuple, ast.List)):
                return [const_value(x) for x in s.value.elts]
        return []


class _NoConst:
    pass


NOCONST = _NoConst()
NOTHANDLED = _NoConst()


def eq_kinds(c):
    '''JSON kinds a value can have if it compares equal to python constant c.'''
    if c is None:
        return frozenset({'none'})
    if isinstance(c, bool) or (isinstance(c, (int, float)) and c in (0, 1)):
        return frozenset({'bool', 'int', 'float'})
    if isinstance(c, (int, float)):
        return frozenset({'int', 'float'})
    if isinstance(c, str):
        return frozenset({'str'})
    return frozenset({kind_of_const(c)})


# iteration support for ListOf / subscripts
_orig_iterate = Frame.iterate


def _iterate(self, it, node, env):
    if isinstance(it, ListOf):
        return it.elem
    return _orig_iterate(self, it, node, env)


Frame.iterate = _iterate
