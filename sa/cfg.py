'''Statement-level control-flow graph for one function (networkx DiGraph).

Node kinds: entry, exit (normal), raise (exceptional exit), stmt (simple statement), if, while, for,
with (context expression evaluated / entered), with_exit, try, except (handler head), finally, loop_else.
Edge kinds: next, true, false, exc, back (loop back edge), jump (return/break/continue routing).

Path semantics: a *normal* path ends in `exit`; a path that ends in `raise` is an abort.  Every
statement that can raise has an exception edge to each enclosing handler (up to the first catch-all)
or to `raise`.  `with` bodies are left through a `with_exit` node on fall-through and on
return/break/continue (a batch commits on those exits), not on exceptions.
'''
import ast

import networkx as nx

from .model import AnalysisError, head, walk_own

CATCH_ALL = {'Exception', 'BaseException'}


def can_raise(stmt):
    '''Over-approximation: anything that calls, subscripts, awaits, asserts, raises, unpacks, divides.'''
    if isinstance(stmt, (ast.Pass, ast.Break, ast.Continue, ast.Global, ast.Nonlocal)):
        return False
    if isinstance(stmt, (ast.Raise, ast.Assert)):
        return True
    for n in _expr_nodes(stmt):
        if isinstance(n, (ast.Call, ast.Subscript, ast.Await, ast.Yield, ast.YieldFrom, ast.BinOp,
                          ast.Attribute, ast.Starred, ast.Compare)):
            return True
    if isinstance(stmt, (ast.Assign,)) and any(isinstance(t, (ast.Tuple, ast.List)) for t in stmt.targets):
        return True
    if isinstance(stmt, (ast.For, ast.AsyncFor, ast.With, ast.AsyncWith)):
        return True
    return False


def _expr_nodes(stmt):
    '''Expression nodes evaluated *by the statement head itself* (not by nested statements).'''
    if isinstance(stmt, (ast.If, ast.While)):
        roots = [stmt.test]
    elif isinstance(stmt, (ast.For, ast.AsyncFor)):
        roots = [stmt.iter, stmt.target]
    elif isinstance(stmt, (ast.With, ast.AsyncWith)):
        roots = [i.context_expr for i in stmt.items]
    elif isinstance(stmt, ast.Try):
        roots = []
    elif isinstance(stmt, ast.ExceptHandler):
        roots = [stmt.type] if stmt.type else []
    elif isinstance(stmt, (ast.FunctionDef, ast.AsyncFunctionDef, ast.ClassDef)):
        roots = list(stmt.decorator_list)
    else:
        roots = [stmt]
    for r in roots:
        yield from walk_own(r)


def head_exprs(stmt):
    return list(_expr_nodes(stmt))


class CFG:
    def __init__(self, func):
        self.func = func
        self.g = nx.DiGraph()
        self._n = 0
        self.entry = self._new('entry', None)
        self.exit = self._new('exit', None)
        self.raise_ = self._new('raise', None)
        self.of_stmt = {}      # ast stmt -> primary node id
        self.exits_of_with = {}  # ast With -> [with_exit node ids]
        self._handlers = []    # frames: dict(targets=[ids], catch_all=bool)
        self._loops = []       # dict(head=id, breaks=[], depth=len(cleanups))
        self._cleanups = []    # ('with', stmt) | ('finally', frame)
        fr = self._block(func.node.body, [(self.entry, 'next')])
        self._connect(fr, self.exit)
        self._dom = None
        self._reach_exit = None

    # -- construction
    def _new(self, kind, node, **kw):
        i = self._n
        self._n += 1
        self.g.add_node(i, kind=kind, ast=node, **kw)
        return i

    def _edge(self, a, b, kind):
        if self.g.has_edge(a, b):
            self.g[a][b]['kinds'].add(kind)
        else:
            self.g.add_edge(a, b, kinds={kind})

    def _connect(self, frontier, target):
        for n, kind in frontier:
            self._edge(n, target, kind)

    def _raise_from(self, n):
        for frame in reversed(self._handlers):
            for t in frame['targets']:
                self._edge(n, t, 'exc')
            if frame['catch_all']:
                return
        self._edge(n, self.raise_, 'exc')

    def _route_jump(self, n, upto_depth):
        '''Route a return/break/continue out through enclosing with/finally contexts; returns the
        frontier node from which the final jump edge leaves.'''
        cur = n
        for kind, obj in reversed(self._cleanups[upto_depth:]):
            if kind == 'with':
                x = self._new('with_exit', obj)
                self.exits_of_with.setdefault(obj, []).append(x)
                self._edge(cur, x, 'jump')
                cur = x
            else:  # finally frame
                self._edge(cur, obj['entry'], 'jump')
                obj['jumps'].append(None)
                return None   # continues from the finally block's end
        return cur

    def _block(self, stmts, frontier):
        for s in stmts:
            frontier = self._stmt(s, frontier)
        return frontier

    def _stmt(self, s, frontier):
        if isinstance(s, ast.If):
            n = self._new('if', s)
            self.of_stmt[s] = n
            self._connect(frontier, n)
            if can_raise(s):
                self._raise_from(n)
            t = self._block(s.body, [(n, 'true')])
            f = self._block(s.orelse, [(n, 'false')]) if s.orelse else [(n, 'false')]
            return t + f
        if isinstance(s, ast.While):
            n = self._new('while', s)
            self.of_stmt[s] = n
            self._connect(frontier, n)
            if can_raise(s):
                self._raise_from(n)
            loop = dict(head=n, breaks=[], depth=len(self._cleanups))
            self._loops.append(loop)
            body_end = self._block(s.body, [(n, 'true')])
            self._loops.pop()
            for m, _k in body_end:
                self._edge(m, n, 'back')
            const_true = isinstance(s.test, ast.Constant) and bool(s.test.value)
            out = [] if const_true else [(n, 'false')]
            if s.orelse:
                out = self._block(s.orelse, out)
            return out + loop['breaks']
        if isinstance(s, (ast.For, ast.AsyncFor)):
            n = self._new('for', s)
            self.of_stmt[s] = n
            self._connect(frontier, n)
            self._raise_from(n)
            loop = dict(head=n, breaks=[], depth=len(self._cleanups))
            self._loops.append(loop)
            body_end = self._block(s.body, [(n, 'true')])
            self._loops.pop()
            for m, _k in body_end:
                self._edge(m, n, 'back')
            out = [(n, 'false')]
            if s.orelse:
                out = self._block(s.orelse, out)
            return out + loop['breaks']
        if isinstance(s, (ast.With, ast.AsyncWith)):
            n = self._new('with', s)
            self.of_stmt[s] = n
            self._connect(frontier, n)
            self._raise_from(n)
            self._cleanups.append(('with', s))
            body_end = self._block(s.body, [(n, 'next')])
            self._cleanups.pop()
            if not body_end:
                return []
            x = self._new('with_exit', s)
            self.exits_of_with.setdefault(s, []).append(x)
            self._connect(body_end, x)
            self._raise_from(x)     # the commit itself can fail
            return [(x, 'next')]
        if isinstance(s, ast.Try):
            return self._try(s, frontier)
        if hasattr(ast, 'Match') and isinstance(s, ast.Match):
            raise AnalysisError(f'match statement not supported ({self.func.key}:{s.lineno})')
        # simple statements
        n = self._new('stmt', s)
        self.of_stmt[s] = n
        self._connect(frontier, n)
        if isinstance(s, ast.Return):
            if s.value is not None and can_raise(s):
                self._raise_from(n)
            last = self._route_jump(n, 0)
            if last is not None:
                self._edge(last, self.exit, 'jump' if last != n else 'next')
            return []
        if isinstance(s, ast.Raise):
            self._raise_from(n)
            return []
        if isinstance(s, ast.Break):
            if not self._loops:
                raise AnalysisError('break outside loop')
            loop = self._loops[-1]
            last = self._route_jump(n, loop['depth'])
            if last is not None:
                loop['breaks'].append((last, 'jump'))
            else:
                loop['breaks_via_finally'] = True
            return []
        if isinstance(s, ast.Continue):
            loop = self._loops[-1]
            last = self._route_jump(n, loop['depth'])
            if last is not None:
                self._edge(last, loop['head'], 'back')
            return []
        if isinstance(s, ast.Assert):
            self._raise_from(n)
            return [(n, 'next')]
        if can_raise(s):
            self._raise_from(n)
        return [(n, 'next')]

    def _try(self, s, frontier):
        t = self._new('try', s)
        self.of_stmt[s] = t
        self._connect(frontier, t)
        fin = None
        if s.finalbody:
            fin = dict(entry=self._new('finally', s), jumps=[])
            # uncaught exceptions (from body, handlers, else) enter the finally block
            self._handlers.append(dict(targets=[fin['entry']], catch_all=True))
            self._cleanups.append(('finally', fin))
        hnodes = []
        catch_all = False
        for h in s.handlers:
            hn = self._new('except', h)
            self.of_stmt[h] = hn
            hnodes.append(hn)
            if h.type is None:
                catch_all = True
            else:
                names = [h.type] if not isinstance(h.type, ast.Tuple) else h.type.elts
                for nm in names:
                    if isinstance(nm, ast.Name) and nm.id in CATCH_ALL:
                        catch_all = True
        if hnodes:
            self._handlers.append(dict(targets=hnodes, catch_all=catch_all))
        body_end = self._block(s.body, [(t, 'next')])
        if hnodes:
            self._handlers.pop()
        if s.orelse:
            body_end = self._block(s.orelse, body_end)
        out = list(body_end)
        for h, hn in zip(s.handlers, hnodes):
            out += self._block(h.body, [(hn, 'next')])
        if fin is not None:
            self._handlers.pop()
            self._cleanups.pop()
            self._connect(out, fin['entry'])
            fend = self._block(s.finalbody, [(fin['entry'], 'next')])
            # after the finally block: normal continuation, re-raise outward, and pending jumps
            for m, _k in fend:
                self._raise_from(m)
                if fin['jumps']:
                    self._edge(m, self.exit, 'jump')
                    if self._loops:
                        self._loops[-1]['breaks'].append((m, 'jump'))
                        self._edge(m, self._loops[-1]['head'], 'back')
            return fend
        return out

    # -- queries
    def kind(self, n):
        return self.g.nodes[n]['kind']

    def ast(self, n):
        return self.g.nodes[n]['ast']

    def label(self, n):
        k = self.kind(n)
        a = self.ast(n)
        if a is None:
            return k.upper()
        txt = head(a)
        if k in ('with_exit', 'finally'):
            txt = f'<{k} of> ' + txt
        return f'{self.func.unit.relpath}:{int(round(getattr(a, "lineno", 0)))} {txt}'

    def nodes_where(self, pred):
        return [n for n in self.g.nodes if self.ast(n) is not None and pred(self.kind(n), self.ast(n))]

    def node(self, stmt):
        if stmt not in self.of_stmt:
            raise AnalysisError(f'statement not in CFG: {head(stmt)}')
        return self.of_stmt[stmt]

    def succ(self, n, avoid_kinds=()):
        for m in self.g.successors(n):
            if avoid_kinds and self.g[n][m]['kinds'] <= set(avoid_kinds):
                continue
            yield m

    def exists_path(self, src, dst, avoiding=(), avoid_edge_kinds=(), strict=True):
        '''Is there a path src ->+ dst that passes through no node of `avoiding` (endpoints exempt)
        and uses no edge whose kinds are all in avoid_edge_kinds?  With strict=False src == dst
        counts as the empty path.'''
        srcs = src if isinstance(src, (list, set, tuple)) else [src]
        dsts = set(dst) if isinstance(dst, (list, set, tuple)) else {dst}
        avoiding = set(avoiding)
        if not strict and dsts & set(srcs):
            return True
        seen = set()
        stack = list(srcs)
        while stack:
            n = stack.pop()
            for m in self.succ(n, avoid_edge_kinds):
                if m in dsts:
                    return True
                if m in seen or m in avoiding:
                    continue
                seen.add(m)
                stack.append(m)
        return False

    def find_path(self, src, dst, avoiding=(), avoid_edge_kinds=()):
        '''A shortest witness path (list of node ids) or None.'''
        srcs = src if isinstance(src, (list, set, tuple)) else [src]
        dsts = set(dst) if isinstance(dst, (list, set, tuple)) else {dst}
        avoiding = set(avoiding)
        prev = {s: None for s in srcs}
        queue = list(srcs)
        while queue:
            n = queue.pop(0)
            for m in self.succ(n, avoid_edge_kinds):
                if m in dsts:
                    path = [m, n]
                    while prev[path[-1]] is not None:
                        path.append(prev[path[-1]])
                    return list(reversed(path))
                if m in prev or m in avoiding:
                    continue
                prev[m] = n
                queue.append(m)
        return None

    def reachable_from(self, src, avoiding=(), avoid_edge_kinds=()):
        avoiding = set(avoiding)
        seen = set()
        stack = [src]
        while stack:
            n = stack.pop()
            for m in self.succ(n, avoid_edge_kinds):
                if m in seen or m in avoiding:
                    continue
                seen.add(m)
                stack.append(m)
        return seen

    def dominators(self):
        if self._dom is None:
            idom = nx.immediate_dominators(self.g, self.entry)
            self._dom = idom
        return self._dom

    def dominates(self, a, b):
        '''a dominates b (every path entry -> b passes a).  a == b counts.'''
        idom = self.dominators()
        if b not in idom:
            return False  # unreachable
        n = b
        while True:
            if n == a:
                return True
            p = idom.get(n)
            if p is None or p == n:
                return False
            n = p

    def must_pass(self, src, dst, through):
        '''Every path src -> dst passes through a node of `through`.'''
        return not self.exists_path(src, dst, avoiding=through, strict=False)

    def reaches_exit(self, n):
        if self._reach_exit is None:
            rg = self.g.reverse(copy=False)
            self._reach_exit = set(nx.descendants(rg, self.exit)) | {self.exit}
        return n in self._reach_exit

    def loop_of(self, n):
        '''Innermost loop statement (ast) containing the statement of node n, or None.'''
        a = self.ast(n)
        p = getattr(a, '_parent', None)
        while p is not None and p is not self.func.node:
            if isinstance(p, (ast.For, ast.AsyncFor, ast.While)):
                return p
            p = getattr(p, '_parent', None)
        return None

    def describe_path(self, path):
        return [self.label(n) for n in path]

    def stats(self):
        return self.g.number_of_nodes(), self.g.number_of_edges()

    # -- path enumeration (thorough tier)
    def enumerate_paths(self, src=None, dst=None, max_visits=2, cap=50000):
        '''All paths src -> dst visiting each node at most max_visits times (loops taken up to
        max_visits-1 extra times).  Yields lists of node ids; stops after `cap` paths (returns
        whether the enumeration was complete through the generator's StopIteration value).'''
        src = self.entry if src is None else src
        dst = self.exit if dst is None else dst
        count = 0
        stack = [(src, [src], {src: 1})]
        while stack:
            n, path, visits = stack.pop()
            if n == dst:
                count += 1
                yield path
                if count >= cap:
                    return False
                continue
            for m in self.g.successors(n):
                if not self.reaches_exit(m) and dst == self.exit:
                    continue
                v = visits.get(m, 0)
                if v >= max_visits:
                    continue
                nv = dict(visits)
                nv[m] = v + 1
                stack.append((m, path + [m], nv))
        return True
