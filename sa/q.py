'''Query helpers shared by the rules (calls by canonical name, assignments, linear forms, guards).'''
import ast

from .model import AnalysisError, dotted, norm, parent_stmt, walk_own, const_value, ancestors


def own_calls(func):
    cs = [n for n in func.own_nodes() if isinstance(n, ast.Call)]
    cs.sort(key=lambda n: (n.lineno, n.col_offset))
    return cs


def callee_name(ctx, func, call):
    '''Canonical dotted name of the callee with local aliases expanded ('self.utxo_cache.pop').'''
    return ctx.res.canon(call.func, func) or norm(call.func)


def calls_named(ctx, func, *names, suffix=False):
    out = []
    for c in own_calls(func):
        n = callee_name(ctx, func, c)
        for want in names:
            if n == want or (suffix and (n.endswith('.' + want) or n == want)):
                out.append(c)
                break
    return out


def calls_resolving_to(ctx, func, target):
    '''Calls in func whose callee resolves to the repo function `target` (a Func).'''
    out = []
    for c in own_calls(func):
        f = ctx.res.resolve_ref(c.func, func)
        if f is not None and f.key == target.key:
            out.append(c)
    return out


def bound_args(call, callee):
    """{parameter name: argument expression} for a call of `callee` (a model.Func), positional and keyword arguments alike;
    a bound method call does not pass `self`.  None when the call uses * / ** arguments."""
    if any(isinstance(a, ast.Starred) for a in call.args) or any(k.arg is None for k in call.keywords):
        return None
    params = [p for p in callee.params if not p.startswith('*')]
    if params and params[0] in ('self', 'cls') and callee.cls and 'staticmethod' not in callee.decorators:
        params = params[1:]
    out = dict(zip(params, call.args))
    for k in call.keywords:
        out[k.arg] = k.value
    return out


def stmt(node):
    s = parent_stmt(node)
    if s is None:
        raise AnalysisError(f'no enclosing statement for {norm(node)}')
    return s


def target_paths(ctx, func, s):
    '''Canonical access paths written by statement s (Assign / AugAssign / AnnAssign / Delete).'''
    out = []

    def add(t):
        if isinstance(t, (ast.Tuple, ast.List)):
            for e in t.elts:
                add(e)
        elif isinstance(t, ast.Starred):
            add(t.value)
        elif isinstance(t, ast.Subscript):
            c = ctx.res.canon(t.value, func)
            if c:
                out.append(c + '[]')
        elif isinstance(t, ast.Name):
            out.append(t.id)       # a rebinding of the local name, never of what it aliased
        else:
            c = ctx.res.canon(t, func)
            if c:
                out.append(c)
    if isinstance(s, ast.Assign):
        for t in s.targets:
            add(t)
    elif isinstance(s, (ast.AugAssign, ast.AnnAssign)):
        add(s.target)
    elif isinstance(s, ast.Delete):
        for t in s.targets:
            add(t)
    return out


def assigns(ctx, func, path):
    '''Statements in func's own body that write canonical path `path`.'''
    out = []
    for n in func.own_nodes():
        if isinstance(n, (ast.Assign, ast.AugAssign, ast.AnnAssign, ast.Delete)):
            if path in target_paths(ctx, func, n):
                out.append(n)
    out.sort(key=lambda n: (n.lineno, n.col_offset))
    return out


def loads_of(ctx, func, path, within=None):
    '''Expression nodes that load canonical path `path` (exactly) inside `within` (default: body).'''
    out = []
    nodes = func.own_nodes() if within is None else walk_own(within)
    for n in nodes:
        if isinstance(n, (ast.Name, ast.Attribute)) and isinstance(getattr(n, 'ctx', None), ast.Load):
            p = getattr(n, '_parent', None)
            if isinstance(p, ast.Attribute) and p.value is n:
                # part of a longer chain; only count the full chain
                pass
            if ctx.res.canon(n, func) == path:
                out.append(n)
    return out


def names_in(node):
    return {n.id for n in ast.walk(node) if isinstance(n, ast.Name)}


def uses_name(node, name):
    return any(isinstance(n, ast.Name) and n.id == name for n in ast.walk(node))


def in_body(node, container_stmts):
    '''Is node (transitively) inside one of the statements?'''
    ids = {id(s) for s in container_stmts}
    n = node
    while n is not None:
        if id(n) in ids:
            return True
        n = getattr(n, '_parent', None)
    return False


def enclosing_chain(node, stop):
    '''Ancestor statements of node up to (excluding) `stop`, innermost first, with the field
    ('body' / 'orelse' / 'handlers' / 'finalbody') through which the child hangs.'''
    out = []
    child = node
    p = getattr(node, '_parent', None)
    while p is not None and p is not stop:
        fld = None
        for name in ('body', 'orelse', 'finalbody', 'handlers'):
            seq = getattr(p, name, None)
            if isinstance(seq, list) and any(x is child for x in seq):
                fld = name
        if isinstance(p, ast.stmt) or isinstance(p, ast.ExceptHandler):
            out.append((p, fld))
        child = p
        p = getattr(p, '_parent', None)
    return out


# ------------------------------------------------------------------------------------------------
# linear forms over named atoms

class NotLinear(Exception):
    pass


def linear(ctx, func, expr):
    '''expr -> {atom: coeff} with atom '' for the constant term.  Atoms are canonical access paths
    or normalised call text.  Raises NotLinear.'''
    def add(a, b, s=1):
        out = dict(a)
        for k, v in b.items():
            out[k] = out.get(k, 0) + s * v
        return {k: v for k, v in out.items() if v != 0 or k == ''}

    def go(e):
        if isinstance(e, ast.Constant) and isinstance(e.value, int) and not isinstance(e.value, bool):
            return {'': e.value}
        if isinstance(e, ast.UnaryOp) and isinstance(e.op, ast.USub):
            return {k: -v for k, v in go(e.operand).items()}
        if isinstance(e, ast.UnaryOp) and isinstance(e.op, ast.UAdd):
            return go(e.operand)
        if isinstance(e, ast.BinOp) and isinstance(e.op, ast.Add):
            return add(go(e.left), go(e.right))
        if isinstance(e, ast.BinOp) and isinstance(e.op, ast.Sub):
            return add(go(e.left), go(e.right), -1)
        if isinstance(e, ast.BinOp) and isinstance(e.op, ast.Mult):
            l, r = go(e.left), go(e.right)
            if set(l) <= {''}:
                c = l.get('', 0)
                return {k: c * v for k, v in r.items()}
            if set(r) <= {''}:
                c = r.get('', 0)
                return {k: c * v for k, v in l.items()}
            raise NotLinear(norm(e))
        if isinstance(e, (ast.Name, ast.Attribute)):
            c = ctx.res.canon(e, func) if func is not None else dotted(e)
            if c is None:
                raise NotLinear(norm(e))
            return {c: 1}
        if isinstance(e, (ast.Call, ast.Subscript, ast.Await)):
            return {norm(e): 1}
        raise NotLinear(norm(e))
    out = go(expr)
    out.setdefault('', 0)
    return {k: v for k, v in out.items() if v != 0 or k == ''}


def lin_eq(a, b):
    ka = {k: v for k, v in a.items() if v != 0}
    kb = {k: v for k, v in b.items() if v != 0}
    return ka == kb


def lin_sub(a, b):
    out = dict(a)
    for k, v in b.items():
        out[k] = out.get(k, 0) - v
    return {k: v for k, v in out.items() if v != 0 or k == ''}


def lin_text(a):
    parts = []
    for k in sorted(a, key=lambda x: (x == '', x)):
        v = a[k]
        if v == 0:
            continue
        if k == '':
            parts.append(f'{v:+d}')
        elif v == 1:
            parts.append(f'+{k}')
        elif v == -1:
            parts.append(f'-{k}')
        else:
            parts.append(f'{v:+d}*{k}')
    return ' '.join(parts) or '0'


def comparison_normal(ctx, func, test):
    '''A single comparison `a OP b` -> (lin(a - b), op) with op in {'>=', '>', '==', '!='} after
    normalising direction ('a < b' becomes (b - a, '>')).  `not <cmp>` is negated.  None otherwise.'''
    neg = False
    while isinstance(test, ast.UnaryOp) and isinstance(test.op, ast.Not):
        neg = not neg
        test = test.operand
    if not (isinstance(test, ast.Compare) and len(test.ops) == 1):
        return None
    op = test.ops[0]
    try:
        l = linear(ctx, func, test.left)
        r = linear(ctx, func, test.comparators[0])
    except NotLinear:
        return None
    table = {ast.GtE: ('>=', False), ast.Gt: ('>', False), ast.LtE: ('>=', True), ast.Lt: ('>', True),
             ast.Eq: ('==', False), ast.NotEq: ('!=', False)}
    if type(op) not in table:
        return None
    sym, swap = table[type(op)]
    d = lin_sub(r, l) if swap else lin_sub(l, r)
    if neg:
        # not (d >= 0)  ==  -d > 0 ;  not (d > 0) == -d >= 0
        if sym == '>=':
            d, sym = {k: -v for k, v in d.items()}, '>'
        elif sym == '>':
            d, sym = {k: -v for k, v in d.items()}, '>='
        elif sym == '==':
            sym = '!='
        else:
            sym = '=='
    d.setdefault('', 0)
    return d, sym


def split_compare(test):
    '''Chained comparison a <= b <= c -> [a <= b, b <= c] as ast.Compare nodes; `and` is flattened.'''
    out = []
    if isinstance(test, ast.BoolOp) and isinstance(test.op, ast.And):
        for v in test.values:
            out += split_compare(v)
        return out
    if isinstance(test, ast.Compare) and len(test.ops) > 1:
        left = test.left
        for op, right in zip(test.ops, test.comparators):
            out.append(ast.Compare(left=left, ops=[op], comparators=[right]))
            left = right
        return out
    return [test]


def cmp_matches(ctx, func, test, expected_src):
    """Does `test` (an ast expression) denote the same single comparison as `expected_src` (python source), up to
    operand order / strictness-preserving rewriting?  Names in expected_src are canonicalised in func's scope."""
    got = comparison_normal(ctx, func, test)
    try:
        want = comparison_normal(ctx, func, ast.parse(expected_src, mode='eval').body)
    except SyntaxError:
        return False
    if got is None or want is None:
        return False
    if got[1] != want[1]:
        return False
    if got[1] in ('==', '!='):
        neg = {k: -v for k, v in want[0].items()}
        return lin_eq(got[0], want[0]) or lin_eq(got[0], neg)
    return lin_eq(got[0], want[0])


_MIRROR = {'<': '>', '>': '<', '<=': '>=', '>=': '<=', '==': '==', '!=': '!='}
_OPN = {ast.Lt: '<', ast.Gt: '>', ast.LtE: '<=', ast.GtE: '>=', ast.Eq: '==', ast.NotEq: '!='}


def var_vs_const(test):
    """A comparison between one expression and one literal, oriented as `expr OP const` -> (expr text, OP, const)."""
    if not (isinstance(test, ast.Compare) and len(test.ops) == 1 and type(test.ops[0]) in _OPN):
        return None
    l, r = test.left, test.comparators[0]
    op = _OPN[type(test.ops[0])]
    if const_value(r) is not None and const_value(l) is None:
        return norm(l), op, const_value(r)
    if const_value(l) is not None and const_value(r) is None:
        return norm(r), _MIRROR[op], const_value(l)
    return None


def with_vars(func, opener_attr='write_batch'):
    """Names bound by `with <x>.<opener_attr>() as NAME` in the function."""
    out = set()
    for n in func.own_nodes():
        if isinstance(n, (ast.With, ast.AsyncWith)):
            for i in n.items:
                if isinstance(i.optional_vars, ast.Name) and isinstance(i.context_expr, ast.Call) and \
                        isinstance(i.context_expr.func, ast.Attribute) and i.context_expr.func.attr == opener_attr:
                    out.add(i.optional_vars.id)
    return out


def batch_calls(ctx, func, method):
    """Calls of <batch>.<method>(...) on a write batch opened in this function (also through a local alias)."""
    wv = with_vars(func)
    out = []
    for c in own_calls(func):
        nm = callee_name(ctx, func, c)
        base, _, m = nm.rpartition('.')
        if m == method and base in wv:
            out.append(c)
    return out


# ------------------------------------------------------------------------------------------------
# propositional equivalence

def bool_equiv(a, b, max_atoms=10):
    """Are the boolean expressions a and b (ast nodes or source) the same function of their atoms?  and / or / not and the
    negative comparison operators (!=, is not, not in) are interpreted; everything else is an atom, identified by its text.
    Exact for the propositional structure; evaluation order / short-circuiting is not modelled."""
    if isinstance(a, str):
        a = ast.parse(a, mode='eval').body
    if isinstance(b, str):
        b = ast.parse(b, mode='eval').body
    neg = {ast.NotEq: ast.Eq, ast.IsNot: ast.Is, ast.NotIn: ast.In}
    atoms = []

    def shape(e):
        if isinstance(e, ast.BoolOp):
            return ('and' if isinstance(e.op, ast.And) else 'or', [shape(v) for v in e.values])
        if isinstance(e, ast.UnaryOp) and isinstance(e.op, ast.Not):
            return ('not', [shape(e.operand)])
        if isinstance(e, ast.Compare) and len(e.ops) == 1 and type(e.ops[0]) in neg:
            pos = ast.Compare(left=e.left, ops=[neg[type(e.ops[0])]()], comparators=e.comparators)
            return ('not', [shape(pos)])
        if isinstance(e, ast.Constant) and isinstance(e.value, bool):
            return ('const', e.value)
        t = ast.unparse(e)
        if t not in atoms:
            atoms.append(t)
        return ('atom', t)

    def ev(s, env):
        k, x = s
        if k == 'atom':
            return env[x]
        if k == 'const':
            return x
        if k == 'not':
            return not ev(x[0], env)
        if k == 'and':
            return all(ev(y, env) for y in x)
        return any(ev(y, env) for y in x)
    sa_, sb_ = shape(a), shape(b)
    if len(atoms) > max_atoms:
        return ast.unparse(a) == ast.unparse(b)
    for m in range(1 << len(atoms)):
        env = {t: bool(m >> i & 1) for i, t in enumerate(atoms)}
        if ev(sa_, env) != ev(sb_, env):
            return False
    return True
