'''Analysis context: lazily built CFGs / call graph, obligation bookkeeping, evidence and replay files.'''
import ast
import hashlib
import json
import os
import time

from .model import Repo, AnalysisError, norm, head
from .cfg import CFG
from .resolve import Resolver, CallGraph

VERIF = os.path.dirname(os.path.dirname(os.path.abspath(__file__)))


class Obligation:
    __slots__ = ('prop', 'rule', 'construct', 'verdict', 'why', 'witness', 'loc', 'finding')

    def __init__(self, prop, rule, construct, verdict, why, witness=None, loc=None):
        self.prop, self.rule, self.construct = prop, rule, construct
        self.verdict, self.why, self.witness, self.loc = verdict, why, witness, loc
        self.finding = None

    def as_dict(self):
        d = {'rule': self.rule, 'construct': self.construct, 'verdict': self.verdict, 'why': self.why}
        if self.loc:
            d['loc'] = self.loc
        if self.witness is not None:
            d['witness'] = self.witness
        return d


class Ctx:
    '''One analysis of one tree (root + optional overlay) for one property.'''

    def __init__(self, prop, root='/repo', overlay=None, tier='quick'):
        self.prop = prop
        self.tier = tier
        self.root = root
        self.repo = Repo(root, overlay)
        self.res = Resolver(self.repo)
        self._cg = None
        self._cfgs = {}
        self.obligations = []
        self.floors = {}
        self.errors = []
        self.notes = []
        self.consulted = set()
        self.paths_enumerated = 0
        self.path_evals = 0

    # -- lazily built artefacts
    @property
    def cg(self):
        if self._cg is None:
            self._cg = CallGraph(self.repo, self.res)
        return self._cg

    def func(self, mod, qual, required=True):
        f = self.repo.func(mod, qual, required)
        if f is not None:
            self.consulted.add(f.unit.relpath)
        return f

    def cfg(self, func):
        c = self._cfgs.get(func.key)
        if c is None:
            c = CFG(func)
            self._cfgs[func.key] = c
            self.consulted.add(func.unit.relpath)
        return c

    # -- obligations
    def key(self, func, node=None, extra=None):
        parts = [func.unit.relpath, func.qual] if func is not None else ['-', '-']
        if node is not None:
            parts.append(head(node, 200) if isinstance(node, ast.AST) else str(node))
        if extra:
            parts.append(extra)
        return ' :: '.join(parts)

    def loc(self, func, node):
        return f'{func.unit.relpath}:{int(round(getattr(node, "lineno", func.node.lineno)))}'

    def ok(self, rule, construct, why, loc=None):
        o = Obligation(self.prop, rule, construct, 'discharged', why, None, loc)
        self.obligations.append(o)
        return o

    def bad(self, rule, construct, why, witness=None, loc=None):
        o = Obligation(self.prop, rule, construct, 'violated', why, witness, loc)
        self.obligations.append(o)
        return o

    def check(self, cond, rule, construct, why_ok, why_bad, witness=None, loc=None):
        if cond:
            return self.ok(rule, construct, why_ok, loc)
        return self.bad(rule, construct, why_bad, witness, loc)

    def floor(self, rule, expected_min, inspected):
        '''Instance floor: a rule that inspects fewer sites than were confirmed by reading no longer
        understands the tree.  Recorded, not raised: if the run also finds violations they are the
        verdict (a construct that vanished is usually the violation itself); otherwise the run ends
        as an analysis error.'''
        inspected = inspected or 0
        # the count confirmed by reading is exact for today's tree; a behaviour-preserving edit may merge or drop a site or
        # two (a helper call replaced by a slice, two loops merged into one), so large counts get a margin of one in five -
        # a rule that lost its anchors inspects nothing, not four fifths
        confirmed = expected_min
        if expected_min >= 5:
            expected_min = expected_min - max(1, expected_min // 5)
        self.floors[rule] = {'expected_min': expected_min, 'confirmed': confirmed, 'inspected': inspected}
        if inspected < expected_min:
            self.errors.append(f'rule {rule} inspected {inspected} sites, fewer than the {expected_min} '
                               f'confirmed by reading: the rule no longer understands this tree')

    def rule(self, name, fn, floor=None):
        '''Run one rule function in isolation: an AnalysisError inside it is recorded and the other
        rules still run.'''
        try:
            n = fn()
        except AnalysisError as e:
            self.errors.append(f'rule {name}: {e}')
            return None
        if floor is not None:
            self.floor(name, floor, n if isinstance(n, int) else (n[0] if isinstance(n, tuple) else 0))
        return n

    def note(self, text):
        self.notes.append(text)

    def path_text(self, cfg, path):
        return cfg.describe_path(path) if path else None


# ------------------------------------------------------------------------------------------------
# known findings

def load_known_findings(path=None):
    path = path or os.path.join(VERIF, 'KNOWN_FINDINGS.txt')
    out = []
    if not os.path.exists(path):
        return out
    with open(path) as f:
        for line in f:
            line = line.strip()
            if not line.startswith('finding:'):
                continue
            body = line[len('finding:'):].strip()
            fields = {}
            head_part, _, rest = body.partition(' construct=')
            for tok in head_part.split():
                k, _, v = tok.partition('=')
                fields[k] = v
            construct, _, what = rest.partition(' ::: ')
            fields['construct'] = construct.strip()
            fields['what'] = what.strip()
            out.append(fields)
    return out


def match_known(o, known):
    for k in known:
        if k.get('property') == o.prop and k.get('rule') == o.rule and k.get('construct') == o.construct:
            return k
    return None


# ------------------------------------------------------------------------------------------------
# evidence

def write_replay(o, tier):
    d = os.path.join(VERIF, 'evidence', 'replay')
    os.makedirs(d, exist_ok=True)
    digest = hashlib.sha256(f'{o.prop}|{o.rule}|{o.construct}'.encode()).hexdigest()[:12]
    path = os.path.join(d, f'{o.prop}-{o.rule}-{digest}.json')
    with open(path, 'w') as f:
        json.dump({'property': o.prop, 'rule': o.rule, 'construct': o.construct, 'loc': o.loc,
                   'why': o.why, 'witness': o.witness, 'tier': tier}, f, indent=1)
    return path


def write_evidence(ctx, explanation, assumptions, wall_s, seed, extra=None, violations=0, known=()):
    obs = ctx.obligations
    discharged = [o for o in obs if o.verdict == 'discharged']
    distinct = {(o.rule, o.construct) for o in obs}
    samples = [o.as_dict() for o in obs[:400]]
    cfg_nodes = sum(c.stats()[0] for c in ctx._cfgs.values())
    cfg_edges = sum(c.stats()[1] for c in ctx._cfgs.values())
    rules = {}
    for o in obs:
        r = rules.setdefault(o.rule, {'obligations': 0, 'discharged': 0})
        r['obligations'] += 1
        r['discharged'] += o.verdict == 'discharged'
    cov = {
        'explanation': explanation,
        'obligations': len(obs),
        'discharged': len(discharged),
        'evaluations': len(obs) + ctx.path_evals,
        'distinct_nontrivial': len(distinct),
        'rule': 'one obligation per (rule, construct) found in the current source; an obligation is '
                'non-trivial because it is only generated when the rule inspected that construct; '
                'distinct = distinct (rule, construct key) pairs',
        'samples': samples,
        'per_rule': rules,
        'floors': ctx.floors,
        'units': len(ctx.repo.units),
        'functions_with_cfg': len(ctx._cfgs),
        'cfg_nodes': cfg_nodes,
        'cfg_edges': cfg_edges,
        'call_resolution': dict(ctx.res.stats),
        'paths_enumerated': ctx.paths_enumerated,
        'path_obligation_evaluations': ctx.path_evals,
        'known_findings': [dict(k) for k in known],
        'notes': ctx.notes,
        'analysis_errors': list(ctx.errors),
        'digests': ctx.repo.digests(sorted(ctx.consulted)),
        'checker_cmd': f'./check {ctx.prop} --tier {ctx.tier}',
        'trusted_base': ['CPython ast', 'networkx dominators', 'the sa/ engine and its validated resolver tables'],
        'exhaustive': False,
    }
    if extra:
        cov.update(extra)
    ev = {'property_id': ctx.prop, 'tier': ctx.tier, 'seed': seed, 'level': 'other', 'coverage': cov,
          'assumptions': assumptions, 'wall_s': round(wall_s, 3), 'violations': violations}
    d = os.path.join(VERIF, 'evidence')
    os.makedirs(d, exist_ok=True)
    tmp = os.path.join(d, f'.{ctx.prop}.json.tmp{os.getpid()}')
    with open(tmp, 'w') as f:
        json.dump(ev, f, indent=1, default=str)
    os.replace(tmp, os.path.join(d, f'{ctx.prop}.json'))
    return ev
