'''Flow-insensitive def-use over a function's local names (sufficient for the short functions the
rules anchor in; rules that need path sensitivity combine this with CFG queries).'''
import ast

from .model import walk_own


def _bind_names(t):
    if isinstance(t, ast.Name):
        yield t.id
    elif isinstance(t, (ast.Tuple, ast.List)):
        for e in t.elts:
            yield from _bind_names(e)
    elif isinstance(t, ast.Starred):
        yield from _bind_names(t.value)


def defs(func):
    '''name -> [(stmt, rhs expr)] for every local binding (params have no entry).'''
    out = {}
    for n in func.own_nodes():
        if isinstance(n, ast.Assign):
            for t in n.targets:
                for name in _bind_names(t):
                    out.setdefault(name, []).append((n, n.value))
        elif isinstance(n, ast.AugAssign):
            for name in _bind_names(n.target):
                out.setdefault(name, []).append((n, n.value))
        elif isinstance(n, ast.AnnAssign) and n.value is not None:
            for name in _bind_names(n.target):
                out.setdefault(name, []).append((n, n.value))
        elif isinstance(n, (ast.For, ast.AsyncFor)):
            for name in _bind_names(n.target):
                out.setdefault(name, []).append((n, n.iter))
        elif isinstance(n, (ast.With, ast.AsyncWith)):
            for i in n.items:
                if i.optional_vars is not None:
                    for name in _bind_names(i.optional_vars):
                        out.setdefault(name, []).append((n, i.context_expr))
        elif isinstance(n, ast.NamedExpr):
            for name in _bind_names(n.target):
                out.setdefault(name, []).append((n, n.value))
        elif isinstance(n, ast.comprehension):
            for name in _bind_names(n.target):
                out.setdefault(name, []).append((n, n.iter))
    for lst in out.values():
        lst.sort(key=lambda p: (getattr(p[0], 'lineno', 0), getattr(p[0], 'col_offset', 0)))
    return out


def last_def_before(func, name, node):
    '''The textually last definition of `name` above `node` (exact for straight-line code).'''
    cands = [(st, rhs) for st, rhs in defs(func).get(name, []) if getattr(st, 'lineno', 0) < node.lineno]
    return cands[-1] if cands else None


def names_loaded(expr):
    return {n.id for n in walk_own(expr) if isinstance(n, ast.Name) and isinstance(n.ctx, ast.Load)}


def backward_slice(func, expr):
    '''All RHS expressions that can flow into `expr` through local names (transitively), plus expr.'''
    d = defs(func)
    seen_names = set()
    exprs = [expr]
    todo = list(names_loaded(expr))
    while todo:
        name = todo.pop()
        if name in seen_names:
            continue
        seen_names.add(name)
        for _stmt, rhs in d.get(name, []):
            exprs.append(rhs)
            todo.extend(names_loaded(rhs))
    return exprs, seen_names


def forward_taint(func, seeds):
    '''Names data-dependent on any seed name (transitively, flow-insensitive).'''
    d = defs(func)
    tainted = set(seeds)
    changed = True
    while changed:
        changed = False
        for name, lst in d.items():
            if name in tainted:
                continue
            for _stmt, rhs in lst:
                if names_loaded(rhs) & tainted:
                    tainted.add(name)
                    changed = True
                    break
    return tainted
