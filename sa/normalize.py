'''Canonical form of a unit's syntax tree, computed before any rule looks at it.

Rules compare code against *shapes*; behaviour-preserving respellings of a shape must not change a verdict.  Instead of
teaching every rule every spelling, each unit is rewritten into a canonical form first:

  N1  single-use adjacent temporaries are propagated:   t = E ; S(t)   ->   S(E)
      when t is a plain local assigned exactly once in the function, read exactly once, that read is in the head of the
      statement immediately following the assignment (same statement list), E contains no await / yield / walrus, and the
      statement is not a loop head (a `while t:` test is re-evaluated).  Undoes `x = f(); return x`, `ok = a < b; if ok:`.
  N5  annotations are dropped:   x: T = e  ->  x = e ;  def f(a: T) -> R  ->  def f(a)
  N2  negated two-armed ifs are un-negated:   if not c: A else: B   ->   if c: B else: A   (elif chains untouched)

Line numbers of the surviving nodes are kept, so reports still point at the real source.  Everything downstream (CFG,
resolver, rules, construct keys) sees only the canonical tree; `Unit.source` stays the text on disk.
'''
import ast
from .astcopy import fast_copy
import os


def _own_walk(fn):
    '''nodes of fn's own scope (nested defs / lambdas / classes are opaque, but their bodies count as *uses* below)'''
    stack = list(ast.iter_child_nodes(fn))
    while stack:
        n = stack.pop()
        yield n
        if isinstance(n, (ast.FunctionDef, ast.AsyncFunctionDef, ast.ClassDef, ast.Lambda)):
            continue
        stack.extend(ast.iter_child_nodes(n))


def _bound_in(scope):
    """names a function / lambda binds itself (parameters and stores in its own scope, not declared nonlocal / global)"""
    b, decl = set(), set()
    a = scope.args
    for x in a.posonlyargs + a.args + a.kwonlyargs:
        b.add(x.arg)
    for x in (a.vararg, a.kwarg):
        if x is not None:
            b.add(x.arg)
    if isinstance(scope, ast.Lambda):
        return b
    for n in _own_walk(scope):
        if isinstance(n, ast.Name) and isinstance(n.ctx, (ast.Store, ast.Del)):
            b.add(n.id)
        elif isinstance(n, (ast.Global, ast.Nonlocal)):
            decl |= set(n.names)
        elif isinstance(n, ast.ExceptHandler) and n.name:
            b.add(n.name)
        elif isinstance(n, (ast.FunctionDef, ast.AsyncFunctionDef, ast.ClassDef)):
            b.add(n.name)
    return b - decl


def _name_counts(fn):
    """loads / stores of fn's own variables, counting uses in nested scopes unless the nested scope rebinds the name"""
    loads, stores = {}, {}
    declared = set()

    def walk(node, shadow):
        for n in ast.iter_child_nodes(node):
            if isinstance(n, (ast.FunctionDef, ast.AsyncFunctionDef, ast.Lambda)):
                if not isinstance(n, ast.Lambda):
                    stores[n.name] = stores.get(n.name, 0) + (0 if n.name in shadow else 1)
                    for d_ in n.decorator_list:
                        walk(d_, shadow)
                walk(n, shadow | _bound_in(n))
                continue
            if isinstance(n, ast.Name):
                if n.id not in shadow:
                    d = loads if isinstance(n.ctx, ast.Load) else stores
                    d[n.id] = d.get(n.id, 0) + 1
            elif isinstance(n, (ast.Global, ast.Nonlocal)):
                if not shadow:
                    declared.update(n.names)
                else:
                    # a nested scope re-binding an outer variable through nonlocal: treat as a store
                    for nm in n.names:
                        stores[nm] = stores.get(nm, 0) + 2
            elif isinstance(n, ast.ExceptHandler) and n.name and n.name not in shadow:
                stores[n.name] = stores.get(n.name, 0) + 1
            elif isinstance(n, ast.arg) and not shadow:
                stores[n.arg] = stores.get(n.arg, 0) + 1
            walk(n, shadow)
    walk(fn, frozenset())
    return loads, stores, declared


def _head_fields(st):
    '''(node, field) pairs of the statement head in which a propagated temporary may be substituted'''
    if isinstance(st, ast.If):
        return [(st, 'test')]
    if isinstance(st, (ast.Return, ast.Expr)):
        return [(st, 'value')]
    if isinstance(st, (ast.Assign, ast.AugAssign, ast.AnnAssign)):
        return [(st, 'value')]
    if isinstance(st, ast.Raise):
        return [(st, 'exc')]
    if isinstance(st, ast.Assert):
        return [(st, 'test')]
    if isinstance(st, (ast.For, ast.AsyncFor)):
        return [(st, 'iter')]          # evaluated once, before the first iteration
    return []


class _Subst(ast.NodeTransformer):
    def __init__(self, name, expr):
        self.name, self.expr, self.done = name, expr, 0

    def visit_Name(self, n):
        if n.id == self.name and isinstance(n.ctx, ast.Load):
            self.done += 1
            return self.expr            # moved, not copied: the assignment it came from is deleted
        return n

    def visit_Lambda(self, n):
        return n

    def visit_FunctionDef(self, n):
        return n
    visit_AsyncFunctionDef = visit_FunctionDef


def _pure_enough(e):
    return not any(isinstance(x, (ast.Await, ast.Yield, ast.YieldFrom, ast.NamedExpr)) for x in ast.walk(e))


def _count_loads_in(node, name):
    return sum(1 for x in ast.walk(node) if isinstance(x, ast.Name) and x.id == name and isinstance(x.ctx, ast.Load))


def _candidate_pairs(fn):
    """{t: [(body list, assign stmt, next stmt)]} for every plain `t = E` that is directly followed by a statement"""
    out = {}
    for parent in [fn] + [n for n in _own_walk(fn) if not isinstance(n, (ast.FunctionDef, ast.AsyncFunctionDef, ast.ClassDef, ast.Lambda))]:
        for fld in ('body', 'orelse', 'finalbody'):
            body = getattr(parent, fld, None)
            if not (isinstance(body, list) and body and isinstance(body[0], ast.stmt)):
                continue
            for k, a in enumerate(body):
                if isinstance(a, ast.Assign) and len(a.targets) == 1 and isinstance(a.targets[0], ast.Name):
                    nxt = body[k + 1] if k + 1 < len(body) else None
                    out.setdefault(a.targets[0].id, []).append((body, a, nxt))
    return out


def _use_ok(t, a, b):
    """the statement b uses t exactly once, in its head, outside repeated / deferred evaluation"""
    if b is None:
        return None
    if isinstance(a.value, ast.Constant) and a.value.value is None:
        return None
    heads = _head_fields(b)
    if not heads:
        return None
    node, f_ = heads[0]
    val = getattr(node, f_)
    if val is None or _count_loads_in(val, t) != 1 or _count_loads_in(b, t) != 1:
        return None
    whole = isinstance(val, ast.Name) and val.id == t      # the head IS the temporary: no reordering whatever E does
    if not whole and not _pure_enough(a.value):
        # an await may still move to its use when everything the statement evaluates before it is a local or a constant:
        # locals cannot change across the suspension
        if any(isinstance(x, (ast.Yield, ast.YieldFrom, ast.NamedExpr)) for x in ast.walk(a.value)):
            return None
        before = []
        for x, c in _exec_order(val):
            if isinstance(x, ast.Name) and x.id == t:
                if c:
                    return None
                break
            before.append(x)
        if any(not isinstance(x, (ast.Name, ast.Constant, ast.expr_context, ast.operator, ast.cmpop, ast.unaryop, ast.boolop)) for x in before):
            return None
    for x in ast.walk(val):
        if isinstance(x, (ast.ListComp, ast.SetComp, ast.DictComp, ast.GeneratorExp, ast.Lambda)):
            first_iter = x.generators[0].iter if hasattr(x, 'generators') else None
            for y in ast.walk(x):
                if isinstance(y, ast.Name) and y.id == t and isinstance(y.ctx, ast.Load):
                    if first_iter is None or not any(z is y for z in ast.walk(first_iter)):
                        return None
    return node, f_


def _propagate(fn):
    for _round in range(8):
        changed = False
        loads, stores, declared = _name_counts(fn)
        for t, pairs in _candidate_pairs(fn).items():
            # every binding of t is a plain assignment directly followed by its only use
            if t in declared or stores.get(t, 0) != len(pairs) or loads.get(t, 0) != len(pairs):
                continue
            uses = [_use_ok(t, a, b) for _body, a, b in pairs]
            if not all(uses):
                continue
            for (body, a, b), (node, f_) in zip(pairs, uses):
                sub = _Subst(t, a.value)
                new_val = sub.visit(getattr(node, f_))
                if sub.done != 1:
                    continue
                setattr(node, f_, new_val)
                body.remove(a)
                changed = True
        if not changed:
            break
    return fn


def _unnegate(tree):
    for n in ast.walk(tree):
        if isinstance(n, ast.If) and n.orelse and isinstance(n.test, ast.UnaryOp) and isinstance(n.test.op, ast.Not) \
                and not (len(n.orelse) == 1 and isinstance(n.orelse[0], ast.If)):
            n.test = n.test.operand
            n.body, n.orelse = n.orelse, n.body
    # ... and so are two-armed ifs (and conditional expressions) on a negative comparison:  if a != b: A else: B  ->  if a == b: B else: A
    pos = {ast.NotEq: ast.Eq, ast.IsNot: ast.Is, ast.NotIn: ast.In}
    for n in ast.walk(tree):
        if isinstance(n, ast.If) and n.orelse and not (len(n.orelse) == 1 and isinstance(n.orelse[0], ast.If)) \
                and isinstance(n.test, ast.Compare) and len(n.test.ops) == 1 and type(n.test.ops[0]) in pos:
            n.test.ops = [pos[type(n.test.ops[0])]()]
            n.body, n.orelse = n.orelse, n.body
        elif isinstance(n, ast.IfExp) and isinstance(n.test, ast.Compare) and len(n.test.ops) == 1 and type(n.test.ops[0]) in pos:
            n.test.ops = [pos[type(n.test.ops[0])]()]
            n.body, n.orelse = n.orelse, n.body
        elif isinstance(n, ast.IfExp) and isinstance(n.test, ast.UnaryOp) and isinstance(n.test.op, ast.Not):
            n.test = n.test.operand
            n.body, n.orelse = n.orelse, n.body
    return tree


def _reaug(tree):
    '''N3: x = x OP e  ->  x OP= e   (plain names and attribute targets)'''
    for parent in ast.walk(tree):
        for fld in ('body', 'orelse', 'finalbody'):
            body = getattr(parent, fld, None)
            if not (isinstance(body, list) and body and isinstance(body[0], ast.stmt)):
                continue
            for k, st in enumerate(body):
                if isinstance(st, ast.Assign) and len(st.targets) == 1 and isinstance(st.targets[0], (ast.Name, ast.Attribute)) \
                        and isinstance(st.value, ast.BinOp) and isinstance(st.value.left, (ast.Name, ast.Attribute)) \
                        and ast.unparse(st.value.left) == ast.unparse(st.targets[0]):
                    body[k] = ast.copy_location(ast.AugAssign(target=st.targets[0], op=st.value.op, value=st.value.right), st)
    return tree


def _self_attrs(fn):
    return {x.attr for x in ast.walk(fn) if isinstance(x, ast.Attribute) and isinstance(x.value, ast.Name) and x.value.id == 'self'}


def _pure_chain(e):
    '''self.a.b.c  (attribute chain rooted at the name self)'''
    n = 0
    while isinstance(e, ast.Attribute):
        e = e.value
        n += 1
    return n >= 1 and isinstance(e, ast.Name) and e.id == 'self'


def _inline_aliases(fn, rebound=None):
    '''N4: a = self.p.q at the top level of the function body, a bound exactly once, self.p.q never stored to in the
    function  ->  every read of a becomes self.p.q and the binding disappears.'''
    for _round in range(6):
        loads, stores, declared = _name_counts(fn)
        stored_paths = set()
        for x in ast.walk(fn):
            if isinstance(x, ast.Attribute) and isinstance(x.ctx, (ast.Store, ast.Del)):
                stored_paths.add(ast.unparse(x))
        done = False
        # top-level statements of the function, and - for the names the helper inliner makes - statements of nested blocks
        # whose every read follows in the same statement list
        cands = [(fn.body, st) for st in fn.body]
        for parent in _own_walk(fn):
            if isinstance(parent, (ast.FunctionDef, ast.AsyncFunctionDef, ast.ClassDef, ast.Lambda)):
                continue
            for fld in ('body', 'orelse', 'finalbody'):
                lst = getattr(parent, fld, None)
                if isinstance(lst, list) and lst and isinstance(lst[0], ast.stmt):
                    for i_, st in enumerate(lst):
                        if isinstance(st, ast.Assign) and len(st.targets) == 1 and isinstance(st.targets[0], ast.Name) and '__' in st.targets[0].id \
                                and sum(_count_loads_in(s2, st.targets[0].id) for s2 in lst[i_ + 1:]) == loads.get(st.targets[0].id, 0):
                            cands.append((lst, st))
        for owner_list, st in cands:
            if not (isinstance(st, ast.Assign) and len(st.targets) == 1 and isinstance(st.targets[0], ast.Name)):
                continue
            local_root = None
            if not _pure_chain(st.value):
                # a = x.m with x a local bound exactly once (or a parameter never re-bound): x.m is the same object for good
                v_ = st.value
                if isinstance(v_, ast.Attribute) and isinstance(v_.value, ast.Name) and v_.value.id != 'self' \
                        and stores.get(v_.value.id, 0) == 1 and v_.value.id not in declared and v_.value.id != st.targets[0].id:
                    local_root = v_.value.id
                else:
                    continue
            t = st.targets[0].id
            path = ast.unparse(st.value)
            if t in declared or stores.get(t, 0) != 1 or loads.get(t, 0) == 0:
                continue
            if any(sp == path or path.startswith(sp + '.') for sp in stored_paths):
                continue
            # an alias denotes an object or a bound method: the name must be used as a callee, as the base of an attribute /
            # subscript, or be iterated somewhere - a name only used as a value is a snapshot of that value, not an alias
            obj = False
            for x in ast.walk(fn):
                if isinstance(x, ast.Call) and isinstance(x.func, ast.Name) and x.func.id == t:
                    obj = True
                elif isinstance(x, (ast.Attribute, ast.Subscript)) and isinstance(x.value, ast.Name) and x.value.id == t:
                    obj = True
                elif isinstance(x, (ast.For, ast.AsyncFor, ast.comprehension)) and isinstance(x.iter, ast.Name) and x.iter.id == t:
                    obj = True
                elif isinstance(x, ast.Call) and isinstance(x.func, ast.Name) and x.func.id in ('set', 'len', 'sorted', 'list') \
                        and any(isinstance(a_, ast.Name) and a_.id == t for a_ in x.args):
                    obj = True
            if not obj and local_root is not None:
                continue
            if not obj:
                # a value alias is still exact when the field is configuration: assigned in __init__ only, never re-bound
                first = path.split('.')[1]
                if rebound is None or first in rebound or path.count('.') != 1:
                    continue
            # the alias must not be re-bound inside nested scopes either (handled by the scope-aware counts) and must not be
            # the target of an augmented assignment (counted as a store)
            expr = st.value

            class R(ast.NodeTransformer):
                def visit_Name(self, n):
                    if n.id == t and isinstance(n.ctx, ast.Load):
                        return ast.copy_location(fast_copy(expr), n)
                    return n

                def _scope(self, n):
                    if n is not fn and t in _bound_in(n):
                        return n
                    return self.generic_visit(n)
                visit_FunctionDef = visit_AsyncFunctionDef = visit_Lambda = _scope
            owner_list.remove(st)
            R().generic_visit(fn)
            done = True
            break
        if not done:
            break


def _unannotate(tree):
    '''N5: `x: T = e` -> `x = e`; bare `x: T` declarations disappear; parameter / return annotations are dropped'''
    for parent in ast.walk(tree):
        for fld in ('body', 'orelse', 'finalbody'):
            body = getattr(parent, fld, None)
            if not (isinstance(body, list) and body and isinstance(body[0], ast.stmt)):
                continue
            new = []
            for st in body:
                if isinstance(st, ast.AnnAssign):
                    if st.value is None:
                        continue
                    st = ast.copy_location(ast.Assign(targets=[st.target], value=st.value), st)
                new.append(st)
            if not new:
                new = [ast.copy_location(ast.Pass(), body[0])]
            setattr(parent, fld, new)
        if isinstance(parent, (ast.FunctionDef, ast.AsyncFunctionDef)):
            parent.returns = None
            a = parent.args
            for x in a.posonlyargs + a.args + a.kwonlyargs + [y for y in (a.vararg, a.kwarg) if y is not None]:
                x.annotation = None
    return tree


def _split_tuple_assign(tree):
    """N10: a, b = x, y  ->  a = x ; b = y   when no later value reads an earlier target (names, attributes)"""
    for parent in ast.walk(tree):
        for fld in ('body', 'orelse', 'finalbody'):
            body = getattr(parent, fld, None)
            if not (isinstance(body, list) and body and isinstance(body[0], ast.stmt)):
                continue
            new = []
            for st in body:
                if isinstance(st, ast.Assign) and len(st.targets) == 1 and isinstance(st.targets[0], (ast.Tuple, ast.List)) \
                        and isinstance(st.value, (ast.Tuple, ast.List)) and len(st.targets[0].elts) == len(st.value.elts) \
                        and all(isinstance(t, (ast.Name, ast.Attribute)) for t in st.targets[0].elts) \
                        and not any(isinstance(v, ast.Starred) for v in st.value.elts):
                    ts, vs = st.targets[0].elts, st.value.elts
                    # x, y = x, E: the identity element binds nothing
                    keep = [(t, v) for t, v in zip(ts, vs) if not (isinstance(t, ast.Name) and isinstance(v, ast.Name) and t.id == v.id)]
                    if keep and len(keep) < len(ts):
                        ts, vs = [t for t, _v in keep], [v for _t, v in keep]
                    ttxt = [ast.unparse(t) for t in ts]
                    ok = True
                    for i in range(len(ts)):
                        for j in range(i + 1, len(vs)):
                            reads = {ast.unparse(x) for x in ast.walk(vs[j]) if isinstance(x, (ast.Name, ast.Attribute))}
                            if ttxt[i] in reads:
                                ok = False
                    # attribute targets: the values must not be able to observe the earlier stores at all
                    if ok and any(isinstance(t, ast.Attribute) for t in ts) and \
                            any(isinstance(x, (ast.Call, ast.Await)) for v in vs[1:] for x in ast.walk(v)):
                        ok = False
                    if ok:
                        for j_, (t, v) in enumerate(zip(ts, vs)):
                            a_ = ast.copy_location(ast.Assign(targets=[t], value=v), st)
                            if j_:
                                for x in ast.walk(a_):
                                    if isinstance(x, (ast.stmt, ast.expr)) and hasattr(x, 'lineno'):
                                        x.lineno = st.lineno + j_ / 100000.0
                            new.append(a_)
                        continue
                new.append(st)
            setattr(parent, fld, new)
    return tree


def _loops_to_comprehensions(fn):
    """N11: an accumulate-only loop becomes the comprehension it spells out

        xs = []                                   xs = [V for T in IT if C]
        for T in IT:                      ->
            [t = E | t, = E]*                     (loop temporaries substituted; `t, = E` reads as E[0])
            [if C:] xs.append(V)

    likewise set() / .add and {} / d[K] = V.  Only when xs is bound nowhere else, is not touched between its initialisation
    and the loop, and neither the loop variables nor the temporaries are read outside the loop."""
    loads, stores, declared = _name_counts(fn)

    def loads_in(node, name):
        return sum(1 for x in ast.walk(node) if isinstance(x, ast.Name) and x.id == name and isinstance(x.ctx, ast.Load))

    def mentions(node, name):
        return any(isinstance(x, ast.Name) and x.id == name for x in ast.walk(node))

    def empty_kind(v):
        if isinstance(v, ast.List) and not v.elts:
            return 'list'
        if isinstance(v, ast.Dict) and not v.keys:
            return 'dict'
        if isinstance(v, ast.Call) and isinstance(v.func, ast.Name) and not v.args and not v.keywords and v.func.id in ('list', 'set', 'dict'):
            return v.func.id
        return None

    def chain_to(target):
        """[(statement list, index)] from the function body down to `target`, or None; loops on the way make it None"""
        def find(body):
            for i, st in enumerate(body):
                if st is target:
                    return [(body, i)]
                if isinstance(st, (ast.FunctionDef, ast.AsyncFunctionDef, ast.ClassDef)):
                    continue
                for fld in ('body', 'orelse', 'finalbody'):
                    sub = getattr(st, fld, None)
                    if isinstance(sub, list) and sub and isinstance(sub[0], ast.stmt):
                        r = find(sub)
                        if r is not None:
                            return None if isinstance(st, (ast.For, ast.AsyncFor, ast.While)) and r else [(body, i)] + r
                for h in getattr(st, 'handlers', []):
                    r = find(h.body)
                    if r is not None:
                        return [(body, i)] + r
            return None
        return find(fn.body)

    def only_returned(st, name):
        held = [x for x in ast.walk(st) if isinstance(x, ast.Name) and x.id == name]
        rets = [r.value for r in ast.walk(st) if isinstance(r, ast.Return) and isinstance(r.value, ast.Name) and r.value.id == name]
        return all(any(h is r for r in rets) for h in held)

    def distant_init(lp, name):
        ch = chain_to(lp)
        if not ch:
            return None
        for lst, i in reversed(ch):
            for st in reversed(lst[:i]):
                if not mentions(st, name):
                    continue
                if isinstance(st, ast.Assign) and len(st.targets) == 1 and isinstance(st.targets[0], ast.Name) and st.targets[0].id == name:
                    return st
                if not only_returned(st, name):
                    return None
        return None

    def convert(body, k):
        lp = body[k]
        if lp.orelse or not lp.body:
            return False
        if any(isinstance(x, (ast.Break, ast.Continue, ast.Return, ast.Yield, ast.YieldFrom, ast.Await, ast.NamedExpr,
                              ast.FunctionDef, ast.AsyncFunctionDef, ast.Lambda)) for st in lp.body for x in ast.walk(st)):
            return False
        *temps, last = lp.body
        cond = None
        if isinstance(last, ast.If) and not last.orelse and len(last.body) == 1:
            cond, last = last.test, last.body[0]
        acc = kind = None
        if isinstance(last, ast.Expr) and isinstance(last.value, ast.Call) and isinstance(last.value.func, ast.Attribute) \
                and isinstance(last.value.func.value, ast.Name) and last.value.func.attr in ('append', 'add') \
                and len(last.value.args) == 1 and not last.value.keywords and not isinstance(last.value.args[0], ast.Starred):
            acc, kind = last.value.func.value.id, ('list' if last.value.func.attr == 'append' else 'set')
            out = [last.value.args[0]]
        elif isinstance(last, ast.Assign) and len(last.targets) == 1 and isinstance(last.targets[0], ast.Subscript) \
                and isinstance(last.targets[0].value, ast.Name):
            acc, kind = last.targets[0].value.id, 'dict'
            out = [last.targets[0].slice, last.value]
        else:
            return False
        if acc in declared or stores.get(acc, 0) != 1:
            return False
        # the initialisation: same statement list, nothing in between touches the accumulator
        j = k - 1
        while j >= 0 and not mentions(body[j], acc):
            j -= 1
        distant = False
        if j < 0:
            # the initialisation further out:  xs = [] ; <guards that at most `return xs`> ; if ...: for ...: xs.append(V)
            # - the loop is not itself inside a loop, and between the two xs is only ever returned
            init = distant_init(lp, acc)
            if init is None or stores.get(acc, 0) != 1:
                return False
            distant = True
        else:
            init = body[j]
        if not (isinstance(init, ast.Assign) and len(init.targets) == 1 and isinstance(init.targets[0], ast.Name)
                and init.targets[0].id == acc and empty_kind(init.value) == kind):
            return False
        if mentions(lp.iter, acc) or (cond is not None and mentions(cond, acc)) or any(mentions(o, acc) for o in out):
            return False
        # loop temporaries
        exprs = ([cond] if cond is not None else []) + out
        binds = []
        for t in temps:
            if not (isinstance(t, ast.Assign) and len(t.targets) == 1):
                return False
            tg = t.targets[0]
            if isinstance(tg, ast.Name):
                binds.append((tg.id, t.value))
            elif isinstance(tg, ast.Tuple) and len(tg.elts) == 1 and isinstance(tg.elts[0], ast.Name):
                binds.append((tg.elts[0].id, ast.Subscript(value=t.value, slice=ast.Constant(value=0), ctx=ast.Load())))
            else:
                return False
            if mentions(t.value, acc):
                return False
        names = [b[0] for b in binds]
        if len(set(names)) != len(names):
            return False
        tvars = {x.id for x in ast.walk(lp.target) if isinstance(x, ast.Name)}
        for nm in set(names) | tvars:
            if nm in declared:
                return False
            outside = loads.get(nm, 0) - loads_in(lp, nm)
            if outside:
                # reads under another loop that binds the name itself never see this loop's value
                covered = 0
                for other in _own_walk(fn):
                    if isinstance(other, (ast.For, ast.AsyncFor)) and other is not lp and not any(o2 is other for o2 in ast.walk(lp)) \
                            and any(isinstance(x, ast.Name) and x.id == nm for x in ast.walk(other.target)):
                        covered += sum(loads_in(st_, nm) for st_ in other.body)
                if covered != outside:
                    return False      # read outside the loop
        for nm in names:
            if stores.get(nm, 0) != 1:
                return False
        # substitute backwards: later temporaries may use earlier ones
        for idx in range(len(binds) - 1, -1, -1):
            nm, e = binds[idx]
            uses = sum(loads_in(x, nm) for x in exprs)      # later temporaries are already folded into exprs
            if uses == 0:
                if any(isinstance(x, ast.Call) for x in ast.walk(e)):
                    return False
                continue
            if uses > 1 and any(isinstance(x, (ast.Call,)) for x in ast.walk(e)):
                return False
            sub = _SubstMany({}, {nm: e})
            exprs = [sub.visit(x) for x in exprs]
        if cond is not None:
            cond, out = exprs[0], exprs[1:]
        else:
            out = exprs
        gen = ast.comprehension(target=lp.target, iter=lp.iter, ifs=[cond] if cond is not None else [], is_async=0)
        if kind == 'list':
            comp = ast.ListComp(elt=out[0], generators=[gen])
        elif kind == 'set':
            comp = ast.SetComp(elt=out[0], generators=[gen])
        else:
            comp = ast.DictComp(key=out[0], value=out[1], generators=[gen])
        new = ast.Assign(targets=[ast.Name(id=acc, ctx=ast.Store())], value=comp)
        for x in ast.walk(new):
            if isinstance(x, (ast.stmt, ast.expr)) and not hasattr(x, 'lineno'):
                ast.copy_location(x, lp)
        ast.copy_location(new, lp)
        body[k] = new
        if not distant:
            del body[j]
        return True

    changed = False
    for parent in [fn] + [n for n in _own_walk(fn) if not isinstance(n, (ast.FunctionDef, ast.AsyncFunctionDef, ast.ClassDef, ast.Lambda))]:
        for fld in ('body', 'orelse', 'finalbody'):
            body = getattr(parent, fld, None)
            if not (isinstance(body, list) and body and isinstance(body[0], ast.stmt)):
                continue
            k = 0
            while k < len(body):
                if isinstance(body[k], ast.For) and convert(body, k):
                    changed = True
                    loads, stores, declared = _name_counts(fn)
                    k = 0
                    continue
                k += 1
    return changed


def _not(e):
    """logical negation of a test, without stacking `not not`"""
    if isinstance(e, ast.UnaryOp) and isinstance(e.op, ast.Not):
        return e.operand
    flip = {ast.Is: ast.IsNot, ast.IsNot: ast.Is, ast.Eq: ast.NotEq, ast.NotEq: ast.Eq, ast.In: ast.NotIn, ast.NotIn: ast.In}
    if isinstance(e, ast.Compare) and len(e.ops) == 1 and type(e.ops[0]) in flip:
        return ast.copy_location(ast.Compare(left=e.left, ops=[flip[type(e.ops[0])]()], comparators=e.comparators), e)
    return ast.copy_location(ast.UnaryOp(op=ast.Not(), operand=e), e)


def _ends_in_jump(body):
    return bool(body) and isinstance(body[-1], (ast.Return, ast.Raise, ast.Continue, ast.Break))


def _guard_form(tree):
    """N12: guard clauses are the canonical spelling of an early way out

        if c: A... ; <jump>                 if c: A... ; <jump>
        else: B...                  ->      B...

        for ...:                            for ...:
            S...                                S...
            if c:                   ->          if not c: continue
                B1; B2...                       B1; B2...

        def f():                            def f():
            S...                                S...
            if c:                   ->          if not c: return [X]
                B1; B2...                       B1; B2...
            [return X]                          [return X]

    (the last two only for a body of two or more statements: a one-statement `if` is not an inverted guard).
    X must be a name or a constant the body does not bind."""
    def fix(body, tail):
        """tail: None | 'loop' | 'func'  - what falling off the end of this statement list means"""
        k = 0
        while k < len(body):
            st = body[k]
            if isinstance(st, ast.Try) and st.orelse and not st.finalbody and st.handlers:
                # try: B / except E: H; <jump> / else: O      ->      try: B / except E: H; <jump>   followed by   O
                # (the else-suite is not covered by the handlers in either spelling); a handler that falls through at the very
                # end of a loop body / function gets the jump it implies
                last = k == len(body) - 1
                falls = [h for h in st.handlers if not _ends_in_jump(h.body)]
                if falls and last and tail in ('loop', 'func'):
                    for h in falls:
                        h.body.append(ast.copy_location(ast.Continue() if tail == 'loop' else ast.Return(value=None), h.body[-1]))
                    falls = []
                if not falls:
                    rest = st.orelse
                    st.orelse = []
                    body[k + 1:k + 1] = rest
                    continue
            if isinstance(st, ast.If):
                if st.orelse and _ends_in_jump(st.body) and not (len(st.orelse) == 1 and isinstance(st.orelse[0], ast.If) and False):
                    rest = st.orelse
                    st.orelse = []
                    body[k + 1:k + 1] = rest
                    continue
                last = k == len(body) - 1
                # if c: B1; B2...; return Y          if not c: return X
                # return X                     ->    B1; B2...; return Y        (the one-statement way out is the guard)
                if not st.orelse and len(st.body) >= 2 and isinstance(st.body[-1], ast.Return) and tail == 'func' \
                        and k == len(body) - 2 and isinstance(body[-1], ast.Return) \
                        and not any(isinstance(x, (ast.Return, ast.Raise)) for s_ in st.body[:-1] for x in ast.walk(s_)):
                    g = ast.copy_location(ast.If(test=_not(st.test), body=[body[-1]], orelse=[]), st)
                    body[k:] = [g] + st.body
                    continue
                if not st.orelse and len(st.body) >= 2 and not _ends_in_jump(st.body):
                    if tail == 'loop' and last:
                        g = ast.copy_location(ast.If(test=_not(st.test), body=[ast.copy_location(ast.Continue(), st)], orelse=[]), st)
                        body[k:k + 1] = [g] + st.body
                        continue
                    if tail == 'func' and (last or (k == len(body) - 2 and isinstance(body[-1], ast.Return)
                                                    and (body[-1].value is None or isinstance(body[-1].value, (ast.Name, ast.Constant))))):
                        rv = None if last else body[-1].value
                        bound = {x.id for s_ in st.body for x in ast.walk(s_) if isinstance(x, ast.Name) and isinstance(x.ctx, (ast.Store, ast.Del))}
                        if not (isinstance(rv, ast.Name) and rv.id in bound):
                            ret = ast.copy_location(ast.Return(value=fast_copy(rv) if rv is not None else None), st)
                            g = ast.copy_location(ast.If(test=_not(st.test), body=[ret], orelse=[]), st)
                            body[k:k + 1] = [g] + st.body
                            continue
            k += 1
        # while True: ...; if c: break; ...   followed by   return X   at the end of a function: the break IS the return
        if tail == 'func' and len(body) >= 1:
            li = len(body) - 2 if (len(body) >= 2 and isinstance(body[-1], ast.Return)) else (len(body) - 1 if body else -1)
            lp = body[li] if li >= 0 else None
            rv_st = body[-1] if (len(body) >= 2 and li == len(body) - 2) else None
            if isinstance(lp, ast.While) and isinstance(lp.test, ast.Constant) and lp.test.value is True and not lp.orelse \
                    and (rv_st is None or rv_st.value is None or isinstance(rv_st.value, (ast.Name, ast.Constant))):
                def own_breaks(stmts, out):
                    for s_ in stmts:
                        if isinstance(s_, ast.Break):
                            out.append(s_)
                        if isinstance(s_, (ast.For, ast.AsyncFor, ast.While, ast.FunctionDef, ast.AsyncFunctionDef, ast.ClassDef)):
                            continue
                        for fld_ in ('body', 'orelse', 'finalbody'):
                            sub_ = getattr(s_, fld_, None)
                            if isinstance(sub_, list) and sub_ and isinstance(sub_[0], ast.stmt):
                                own_breaks(sub_, out)
                        for h_ in getattr(s_, 'handlers', []) or []:
                            own_breaks(h_.body, out)
                    return out
                brks = own_breaks(lp.body, [])
                in_finally = any(isinstance(x, ast.Try) and x.finalbody for x in ast.walk(lp))
                if brks and not in_finally:
                    class B(ast.NodeTransformer):
                        def visit_Break(self, n):
                            if any(n is b_ for b_ in brks):
                                return ast.copy_location(ast.Return(value=fast_copy(rv_st.value) if rv_st is not None and rv_st.value is not None else None), n)
                            return n

                        def visit_For(self, n):
                            return n
                        visit_While = visit_AsyncFor = visit_FunctionDef = visit_AsyncFunctionDef = visit_For
                    lp.body = [B().visit(s_) for s_ in lp.body]
                    if rv_st is not None:
                        body.pop()      # nothing falls out of the loop any more
        for k, st in enumerate(body):
            lastp = k == len(body) - 1
            if isinstance(st, (ast.FunctionDef, ast.AsyncFunctionDef)):
                fix(st.body, 'func')          # (a generator's bare `return` ends it just the same)
            elif isinstance(st, ast.ClassDef):
                fix(st.body, None)
            elif isinstance(st, (ast.For, ast.AsyncFor, ast.While)):
                fix(st.body, 'loop')
                fix(st.orelse, None)
            elif isinstance(st, ast.If):
                fix(st.body, tail if lastp else None)
                fix(st.orelse, tail if lastp else None)
            elif isinstance(st, (ast.With, ast.AsyncWith)):
                fix(st.body, tail if lastp and tail == 'func' else None)
            elif isinstance(st, ast.Try):
                fix(st.body, None)
                for h in st.handlers:
                    fix(h.body, None)
                fix(st.orelse, None)
                fix(st.finalbody, None)
    fix(tree.body, None)
    return tree


def _chain(fn, target):
    """[(owner statement or fn, statement list, index)] from the function body down to `target`"""
    def find(owner, body):
        for i, st in enumerate(body):
            if st is target:
                return [(owner, body, i)]
            if isinstance(st, (ast.FunctionDef, ast.AsyncFunctionDef, ast.ClassDef)):
                continue
            for fld in ('body', 'orelse', 'finalbody'):
                sub = getattr(st, fld, None)
                if isinstance(sub, list) and sub and isinstance(sub[0], ast.stmt):
                    r = find(st, sub)
                    if r is not None:
                        return [(owner, body, i)] + r
            for h in getattr(st, 'handlers', []) or []:
                r = find(st, h.body)
                if r is not None:
                    return [(owner, body, i)] + r
        return None
    return find(fn, fn.body) or []


def _in_loop(fn, st):
    return any(isinstance(o, (ast.For, ast.AsyncFor, ast.While)) for o, _b, _i in _chain(fn, st))


def _stmt_list_of(fn, st):
    ch = _chain(fn, st)
    return ch[-1][1] if ch else None


def _dominating_list(fn, first, later):
    """`first` sits directly in a statement list that (transitively) contains `later` after it, outside try bodies whose
    handlers could run without it"""
    lst = _stmt_list_of(fn, first)
    for o, b, i in _chain(fn, later):
        if b is lst:
            return any(s is first for s in b[:i])
    return False


def _copy_prop(fn):
    """N13: x = y with x and y plain locals each bound exactly once: every read of x is a read of y.  (What inlining a
    helper leaves behind for its result, and what `result = value; ...; return result` spells.)"""
    params_ = {a.arg for a in fn.args.args + fn.args.kwonlyargs + fn.args.posonlyargs} | \
        {a.arg for a in (fn.args.vararg, fn.args.kwarg) if a is not None}
    for _round in range(6):
        loads, stores, declared = _name_counts(fn)
        done = False
        for parent in [fn] + [n for n in _own_walk(fn) if not isinstance(n, (ast.FunctionDef, ast.AsyncFunctionDef, ast.ClassDef, ast.Lambda))]:
            for fld in ('body', 'orelse', 'finalbody'):
                body = getattr(parent, fld, None)
                if not (isinstance(body, list) and body and isinstance(body[0], ast.stmt)):
                    continue
                for st in body:
                    if not (isinstance(st, ast.Assign) and len(st.targets) == 1 and isinstance(st.targets[0], ast.Name)
                            and isinstance(st.value, ast.Name)):
                        continue
                    x, y = st.targets[0].id, st.value.id
                    if x != y and '__' in y and y not in declared and x not in declared and stores.get(y, 0) == 1 and stores.get(x, 0) != 1:
                        # x = y where y (made by the inliner) was bound a few statements earlier in the same list and x is not
                        # touched in between: y IS x from its binding on (the helper's result handed to a caller's variable
                        # that is re-bound elsewhere, so plain copy propagation does not apply)
                        k_ = next(i for i, s2 in enumerate(body) if s2 is st)
                        j_ = next((i for i in range(k_ - 1, -1, -1) if isinstance(body[i], ast.Assign) and len(body[i].targets) == 1
                                   and isinstance(body[i].targets[0], ast.Name) and body[i].targets[0].id == y), None)
                        if j_ is not None:
                            between = body[j_ + 1:k_]
                            # x may be READ by the expression y is bound to (`x = f(x)` is what the pair spells)
                            touched_x = any(isinstance(n_, ast.Name) and n_.id == x for s2 in between for n_ in ast.walk(s2)) or \
                                any(isinstance(n_, ast.Name) and n_.id == x and not isinstance(n_.ctx, ast.Load) for n_ in ast.walk(body[j_]))
                            y_loads_here = sum(_count_loads_in(s2, y) for s2 in body[j_ + 1:])
                            later_use = [i for i in range(k_ + 1, len(body)) if _count_loads_in(body[i], y)]
                            rebound_x = any(isinstance(n_, ast.Name) and n_.id == x and not isinstance(n_.ctx, ast.Load)
                                            for i in range(k_ + 1, (later_use[-1] + 1) if later_use else k_ + 1) for n_ in ast.walk(body[i]))
                            if not touched_x and not rebound_x and y_loads_here == loads.get(y, 0):
                                ren = _Ren({y: x})
                                body[j_].targets[0].id = x
                                for i in range(j_ + 1, len(body)):
                                    if body[i] is not st:
                                        body[i] = ren.visit(body[i])
                                body.remove(st)
                                done = True
                                break
                    if x != y and x not in declared and y not in declared and y != 'self' and y not in params_ \
                            and stores.get(y, 0) == 1 and loads.get(y, 0) == 1 and not _in_loop(fn, st):
                        # y exists only to be copied into x:  y = E ; ... (x not mentioned) ... ; x = y   ->   x = E ; ...
                        ydef = [s2 for s2 in _own_walk(fn) if isinstance(s2, ast.Assign) and len(s2.targets) == 1
                                and isinstance(s2.targets[0], ast.Name) and s2.targets[0].id == y]
                        # an earlier value of x could still be observed by a handler if something between the two raises
                        earlier_x = any(isinstance(n_, ast.Name) and n_.id == x and not isinstance(n_.ctx, ast.Load) and getattr(n_, 'lineno', 0) < st.lineno
                                        for n_ in _own_walk(fn)) or x in params_
                        in_try = any(isinstance(o_, ast.Try) for o_, _b, _i in _chain(fn, st))
                        if len(ydef) == 1 and ydef[0].lineno < st.lineno and not _in_loop(fn, ydef[0]) and _dominating_list(fn, ydef[0], st) \
                                and not (earlier_x and in_try) \
                                and not any(isinstance(n_, ast.Name) and n_.id == x and ydef[0].lineno <= getattr(n_, 'lineno', 0) < st.lineno
                                            for n_ in _own_walk(fn)) \
                                and not any(isinstance(n_, ast.Name) and n_.id == x for n_ in ast.walk(ydef[0])):
                            ydef[0].targets[0].id = x
                            body.remove(st)
                            if not body:
                                body.append(ast.copy_location(ast.Pass(), st))
                            done = True
                            break
                    if x != y and x not in declared and y not in declared and y != 'self' and stores.get(x, 0) == 1 and stores.get(y, 0) > 1 \
                            and not _in_loop(fn, st) and _stmt_list_of(fn, st) is fn.body:
                        # x = y after the last write of y, x bound only here: every later read of x is a read of y
                        ystores = [n_ for n_ in _own_walk(fn) if isinstance(n_, ast.Name) and n_.id == y and isinstance(n_.ctx, (ast.Store, ast.Del))]
                        xloads = [n_ for n_ in _own_walk(fn) if isinstance(n_, ast.Name) and n_.id == x and isinstance(n_.ctx, ast.Load)]
                        nested = [n_ for d_ in _own_walk(fn) if isinstance(d_, (ast.FunctionDef, ast.AsyncFunctionDef, ast.Lambda)) and d_ is not fn
                                  for n_ in ast.walk(d_) if isinstance(n_, ast.Name) and n_.id in (x, y)]
                        if all(n_.lineno < st.lineno for n_ in ystores) and all(n_.lineno > st.lineno for n_ in xloads) and not nested:
                            for n_ in xloads:
                                n_.id = y
                            body.remove(st)
                            done = True
                            break
                    if x == y or x in declared or y in declared or stores.get(x, 0) != 1 or stores.get(y, 0) != 1 or y == 'self':
                        continue
                    if '__' not in x and '__' not in y:
                        continue        # only names the inliner made: a maintainer's own `a = b` may be a deliberate snapshot
                    body.remove(st)
                    if not body:
                        body.append(ast.copy_location(ast.Pass(), st))

                    class R(ast.NodeTransformer):
                        def visit_Name(self, n):
                            if n.id == x and isinstance(n.ctx, ast.Load):
                                return ast.copy_location(ast.Name(id=y, ctx=ast.Load()), n)
                            return n

                        def _scope(self, n):
                            if n is not fn and (x in _bound_in(n) or y in _bound_in(n)):
                                return n
                            return self.generic_visit(n)
                        visit_FunctionDef = visit_AsyncFunctionDef = visit_Lambda = _scope
                    R().generic_visit(fn)
                    done = True
                    break
                if done:
                    break
            if done:
                break
        if not done:
            break


_PURE_BUILTINS = ('len', 'min', 'max', 'abs', 'int', 'bool', 'isinstance', 'sum', 'any', 'all')
_READ_METHODS = ('get', 'items', 'keys', 'values', 'copy', 'count', 'index', 'startswith', 'endswith', 'is_set', 'difference',
                 'intersection', 'union', 'issubset', 'format', 'hex', 'decode', 'encode', 'join')


def _pure_local_expr(e):
    """an expression over plain locals, constants, operators and side-effect free builtins only: its value can change only
    when one of its names is re-bound or the object behind one of them is mutated"""
    for x in ast.walk(e):
        if isinstance(x, ast.Call):
            if isinstance(x.func, ast.Name) and x.func.id == 'bytes' and not x.keywords and all(isinstance(a_, ast.Constant) for a_ in x.args):
                continue          # bytes(3): an immutable constant
            if not (isinstance(x.func, ast.Name) and x.func.id in _PURE_BUILTINS and not x.keywords):
                return False
        elif isinstance(x, ast.Attribute):
            # reading a field no statement of the whole tree ever stores to (a tuple / record field): fixed once its owner is
            if not (_STORED_ATTRS is not None and isinstance(x.value, ast.Name) and isinstance(x.ctx, ast.Load)
                    and x.attr not in _STORED_ATTRS and not x.attr.startswith('__')):
                return False
        elif not isinstance(x, (ast.Name, ast.Constant, ast.BinOp, ast.UnaryOp, ast.BoolOp, ast.Compare, ast.IfExp, ast.Tuple,
                                ast.expr_context, ast.operator, ast.unaryop, ast.boolop, ast.cmpop)):
            return False          # no displays (a new object each time), no other attribute / subscript reads, nothing lazy
    return True


def _frozen_roots(e):
    """names `e` reads only as the owner of a never-stored field: only re-binding them can change `e`"""
    roots = {x.value.id for x in ast.walk(e) if isinstance(x, ast.Attribute) and isinstance(x.value, ast.Name)}
    owners = {id(x.value) for x in ast.walk(e) if isinstance(x, ast.Attribute) and isinstance(x.value, ast.Name)}
    plain = {x.id for x in ast.walk(e) if isinstance(x, ast.Name) and id(x) not in owners}
    return roots - plain


def _disturbs(node, names, rebind_only=()):
    if rebind_only:
        if any(isinstance(x, ast.Name) and x.id in rebind_only and isinstance(x.ctx, (ast.Store, ast.Del)) for x in ast.walk(node)):
            return True
        names = set(names) - set(rebind_only)
    return _disturbs0(node, names)


def _disturbs0(node, names):
    """may executing `node` change the value of an expression over `names`?  (re-binding, augmented assignment, deletion,
    a method call on one of them other than a known reader, passing one of them to a call that is not a pure builtin,
    storing into one of them)"""
    for x in ast.walk(node):
        if isinstance(x, ast.Name) and x.id in names and isinstance(x.ctx, (ast.Store, ast.Del)):
            return True
        if isinstance(x, (ast.Subscript, ast.Attribute)) and isinstance(x.ctx, (ast.Store, ast.Del)) and isinstance(x.value, ast.Name) \
                and x.value.id in names:
            return True
        if isinstance(x, ast.Call):
            if isinstance(x.func, ast.Attribute) and isinstance(x.func.value, ast.Name) and x.func.value.id in names \
                    and x.func.attr not in _READ_METHODS:
                return True
            if not (isinstance(x.func, ast.Name) and x.func.id in _PURE_BUILTINS + ('set', 'list', 'tuple', 'sorted', 'dict', 'frozenset', 'str', 'bytes', 'repr', 'enumerate', 'zip', 'reversed', 'range')):
                for a in list(x.args) + [k.value for k in x.keywords]:
                    if isinstance(a, ast.Name) and a.id in names:
                        return True
        if isinstance(x, (ast.FunctionDef, ast.AsyncFunctionDef, ast.Lambda)) and any(
                isinstance(y, ast.Name) and y.id in names for y in ast.walk(x)):
            return True
    return False


def _propagate_pure(fn):
    """N14: t = E with E pure over locals (see _pure_local_expr), t bound once: every read of t becomes E when all reads
    follow the binding in the same statement list and nothing executed in between can change E.  Undoes "extract a
    sub-expression into a well-named local" also when the local is read more than once or not right away."""
    for _round in range(8):
        loads, stores, declared = _name_counts(fn)
        done = False
        for parent in [fn] + [n for n in _own_walk(fn) if not isinstance(n, (ast.FunctionDef, ast.AsyncFunctionDef, ast.ClassDef, ast.Lambda))]:
            for fld in ('body', 'orelse', 'finalbody'):
                body = getattr(parent, fld, None)
                if not (isinstance(body, list) and body and isinstance(body[0], ast.stmt)):
                    continue
                for k, st in enumerate(body):
                    if not (isinstance(st, ast.Assign) and len(st.targets) == 1 and isinstance(st.targets[0], ast.Name)):
                        continue
                    t, e = st.targets[0].id, st.value
                    if isinstance(e, (ast.Constant, ast.Name)) or not _pure_local_expr(e):
                        continue
                    if t in declared or stores.get(t, 0) != 1 or loads.get(t, 0) == 0:
                        continue
                    names = {x.id for x in ast.walk(e) if isinstance(x, ast.Name)}
                    frozen = _frozen_roots(e)
                    if t in names or any(stores.get(nm, 0) == 0 and nm not in _PURE_BUILTINS for nm in names if nm not in _PURE_BUILTINS) and False:
                        continue
                    # every read of t lies in the statements after the binding, up to the last one that reads it
                    total = loads.get(t, 0)
                    seen, last = 0, None
                    for j in range(k + 1, len(body)):
                        c = _count_loads_in(body[j], t)
                        if c:
                            seen += c
                            last = j
                    if seen != total or last is None:
                        continue
                    ok = True
                    for j in range(k + 1, last + 1):
                        sj = body[j]
                        if not _disturbs(sj, names, frozen):
                            continue
                        # a statement that may change E is fine only as the last reader, reading t in its head alone,
                        # and if that head is evaluated once (no loop)
                        heads = _head_fields(sj)
                        in_head = sum(_count_loads_in(getattr(n_, f_), t) for n_, f_ in heads if getattr(n_, f_) is not None)
                        if j == last and not isinstance(sj, (ast.For, ast.AsyncFor, ast.While)) and in_head == _count_loads_in(sj, t) \
                                and not any(_disturbs(getattr(n_, f_), names, frozen) for n_, f_ in heads if getattr(n_, f_) is not None):
                            continue
                        ok = False
                        break
                    if not ok:
                        continue
                    # a read inside a loop body is repeated: nothing in that loop may change E either
                    for j in range(k + 1, last + 1):
                        for lp in [x for x in ast.walk(body[j]) if isinstance(x, (ast.For, ast.AsyncFor, ast.While))]:
                            if _count_loads_in(lp, t) and _disturbs(lp, names, frozen):
                                ok = False
                    if not ok:
                        continue
                    body.remove(st)

                    class R(ast.NodeTransformer):
                        def visit_Name(self, n):
                            if n.id == t and isinstance(n.ctx, ast.Load):
                                return ast.copy_location(fast_copy(e), n)
                            return n
                    for j in range(k, last):
                        body[j] = R().visit(body[j])
                    done = True
                    break
                if done:
                    break
            if done:
                break
        if not done:
            break


def _ifelse_to_ifexp(tree):
    """N15: if c: x = A else: x = B   ->   x = A if c else B   (both arms exactly one plain assignment to the same name)"""
    for parent in ast.walk(tree):
        for fld in ('body', 'orelse', 'finalbody'):
            body = getattr(parent, fld, None)
            if not (isinstance(body, list) and body and isinstance(body[0], ast.stmt)):
                continue
            for k, st in enumerate(body):
                if isinstance(st, ast.If) and len(st.body) == 1 and len(st.orelse) == 1 \
                        and all(isinstance(x, ast.Assign) and len(x.targets) == 1 and isinstance(x.targets[0], ast.Name) for x in (st.body[0], st.orelse[0])) \
                        and st.body[0].targets[0].id == st.orelse[0].targets[0].id \
                        and not any(isinstance(y, (ast.Await, ast.Yield, ast.YieldFrom, ast.NamedExpr)) for x in (st.body[0], st.orelse[0]) for y in ast.walk(x.value)):
                    new = ast.Assign(targets=[st.body[0].targets[0]], value=ast.copy_location(
                        ast.IfExp(test=st.test, body=st.body[0].value, orelse=st.orelse[0].value), st))
                    body[k] = ast.copy_location(new, st)
    return tree


def _reverse_then_iterate(fn):
    """N16: xs.reverse() ; for t in xs: ...   ->   for t in reversed(xs): ...   when xs (a plain local bound once) is not
    read again, neither in the loop nor after it: the in-place reversal is observable only through this iteration."""
    loads, stores, declared = _name_counts(fn)
    for parent in [fn] + [n for n in _own_walk(fn) if not isinstance(n, (ast.FunctionDef, ast.AsyncFunctionDef, ast.ClassDef, ast.Lambda))]:
        for fld in ('body', 'orelse', 'finalbody'):
            body = getattr(parent, fld, None)
            if not (isinstance(body, list) and body and isinstance(body[0], ast.stmt)):
                continue
            # yield from E   ->   for t in E: yield t      (as a statement: nothing is sent in or returned through it)
            for k, y in enumerate(body):
                if isinstance(y, ast.Expr) and isinstance(y.value, ast.YieldFrom):
                    tv = f'item__yf{getattr(y, "lineno", 0)}'
                    new = ast.For(target=ast.Name(id=tv, ctx=ast.Store()), iter=y.value.value,
                                  body=[ast.Expr(value=ast.Yield(value=ast.Name(id=tv, ctx=ast.Load())))], orelse=[])
                    for n_ in [new, new.target, new.body[0], new.body[0].value, new.body[0].value.value]:
                        ast.copy_location(n_, y)
                    body[k] = new
            # while xs: yield xs.pop()   ->   for t in reversed(xs): yield t      (xs a once-bound local not read afterwards)
            for k, w in enumerate(body):
                if isinstance(w, ast.While) and isinstance(w.test, ast.Name) and not w.orelse and len(w.body) == 1 \
                        and isinstance(w.body[0], ast.Expr) and isinstance(w.body[0].value, ast.Yield) \
                        and isinstance(w.body[0].value.value, ast.Call) and isinstance(w.body[0].value.value.func, ast.Attribute) \
                        and w.body[0].value.value.func.attr == 'pop' and not w.body[0].value.value.args \
                        and isinstance(w.body[0].value.value.func.value, ast.Name) and w.body[0].value.value.func.value.id == w.test.id:
                    x = w.test.id
                    later = sum(_count_loads_in(s_, x) for s_ in body[k + 1:])
                    bound_here = any(isinstance(s_, ast.Assign) and any(isinstance(t, ast.Name) and t.id == x for t in s_.targets) for s_ in body[:k])
                    if x not in declared and stores.get(x, 0) == 1 and later == 0 and bound_here:
                        tv = f'{x}__item'
                        new = ast.For(target=ast.Name(id=tv, ctx=ast.Store()),
                                      iter=ast.Call(func=ast.Name(id='reversed', ctx=ast.Load()), args=[ast.Name(id=x, ctx=ast.Load())], keywords=[]),
                                      body=[ast.Expr(value=ast.Yield(value=ast.Name(id=tv, ctx=ast.Load())))], orelse=[])
                        for n_ in ast.walk(new):
                            if isinstance(n_, (ast.stmt, ast.expr)):
                                ast.copy_location(n_, w)
                        body[k] = new
            k = 0
            while k + 1 < len(body):
                a, b = body[k], body[k + 1]
                if isinstance(a, ast.Expr) and isinstance(a.value, ast.Call) and isinstance(a.value.func, ast.Attribute) \
                        and a.value.func.attr == 'reverse' and not a.value.args and not a.value.keywords \
                        and isinstance(a.value.func.value, ast.Name) and isinstance(b, ast.For) and isinstance(b.iter, ast.Name) \
                        and b.iter.id == a.value.func.value.id:
                    x = b.iter.id
                    later = sum(_count_loads_in(s_, x) for s_ in body[k + 1:])
                    # inside an enclosing loop the list must be re-made each time round (bound in this same statement list)
                    bound_here = any(isinstance(s_, ast.Assign) and any(isinstance(t, ast.Name) and t.id == x for t in s_.targets) for s_ in body[:k])
                    if x not in declared and stores.get(x, 0) == 1 and later == 1 and bound_here:
                        b.iter = ast.copy_location(ast.Call(func=ast.Name(id='reversed', ctx=ast.Load()), args=[b.iter], keywords=[]), b.iter)
                        ast.fix_missing_locations(b.iter)
                        del body[k]
                        continue
                k += 1


def _list_spellings(tree):
    """N19: del x[a:b]  ->  x[a:b] = []   and, for a plain local,  x.extend(y)  ->  x += y   (one spelling of each list idiom)"""
    for parent in ast.walk(tree):
        for fld in ('body', 'orelse', 'finalbody'):
            body = getattr(parent, fld, None)
            if not (isinstance(body, list) and body and isinstance(body[0], ast.stmt)):
                continue
            for k, st in enumerate(body):
                if isinstance(st, ast.Delete) and len(st.targets) == 1 and isinstance(st.targets[0], ast.Subscript) \
                        and isinstance(st.targets[0].slice, ast.Slice) and st.targets[0].slice.step is None:
                    t = st.targets[0]
                    t.ctx = ast.Store()
                    body[k] = ast.copy_location(ast.Assign(targets=[t], value=ast.copy_location(ast.List(elts=[], ctx=ast.Load()), st)), st)
                elif isinstance(st, ast.Expr) and isinstance(st.value, ast.Call) and isinstance(st.value.func, ast.Attribute) \
                        and st.value.func.attr == 'extend' and isinstance(st.value.func.value, ast.Name) and len(st.value.args) == 1 \
                        and not st.value.keywords and not isinstance(st.value.args[0], (ast.Starred, ast.GeneratorExp)):
                    body[k] = ast.copy_location(ast.AugAssign(target=ast.Name(id=st.value.func.value.id, ctx=ast.Store()), op=ast.Add(),
                                                              value=st.value.args[0]), st)
                    ast.fix_missing_locations(body[k])
    return tree


def _enumerate_with_start(fn):
    """N20: `for i, T in enumerate(IT, start=S): BODY` spelt with the hand-kept counter it abbreviates (an explicit start is
    the mark of a counter that used to be kept by hand; plain `enumerate(xs)` stays):

        i read in BODY only          i = S      ; for T in IT: BODY ; i += 1
        i read after the loop only   i = S - 1  ; for T in IT: BODY ; i += 1          (ends at S - 1 + n, enumerate's last index)
        otherwise                    i = S - 1  ; for T in IT: i += 1 ; BODY

    The first two need a body without `continue` at the loop's own level (it would skip the increment)."""
    def own_continue(stmts):
        for s_ in stmts:
            if isinstance(s_, ast.Continue):
                return True
            if isinstance(s_, (ast.For, ast.AsyncFor, ast.While, ast.FunctionDef, ast.AsyncFunctionDef, ast.ClassDef)):
                continue
            for fld_ in ('body', 'orelse', 'finalbody'):
                sub_ = getattr(s_, fld_, None)
                if isinstance(sub_, list) and sub_ and isinstance(sub_[0], ast.stmt) and own_continue(sub_):
                    return True
            for h_ in getattr(s_, 'handlers', []) or []:
                if own_continue(h_.body):
                    return True
        return False
    loads, stores, declared = _name_counts(fn)
    for parent in [fn] + [n for n in _own_walk(fn) if not isinstance(n, (ast.FunctionDef, ast.AsyncFunctionDef, ast.ClassDef, ast.Lambda))]:
        for fld in ('body', 'orelse', 'finalbody'):
            body = getattr(parent, fld, None)
            if not (isinstance(body, list) and body and isinstance(body[0], ast.stmt)):
                continue
            k = 0
            while k < len(body):
                lp = body[k]
                k += 1
                if not (isinstance(lp, ast.For) and isinstance(lp.iter, ast.Call) and isinstance(lp.iter.func, ast.Name)
                        and lp.iter.func.id == 'enumerate' and isinstance(lp.target, ast.Tuple) and len(lp.target.elts) == 2
                        and isinstance(lp.target.elts[0], ast.Name) and not lp.orelse):
                    continue
                start = None
                if len(lp.iter.args) == 2 and not lp.iter.keywords:
                    start = lp.iter.args[1]
                elif len(lp.iter.args) == 1 and len(lp.iter.keywords) == 1 and lp.iter.keywords[0].arg == 'start':
                    start = lp.iter.keywords[0].value
                if start is None or not isinstance(start, (ast.Name, ast.Constant, ast.Attribute)):
                    continue
                i = lp.target.elts[0].id
                if i in declared or any(isinstance(x, ast.Name) and x.id == i and isinstance(x.ctx, ast.Store) for s_ in lp.body for x in ast.walk(s_)):
                    continue
                in_body = sum(_count_loads_in(s_, i) for s_ in lp.body)
                after = loads.get(i, 0) - in_body
                cont = own_continue(lp.body)
                minus1 = ast.Constant(value=start.value - 1) if isinstance(start, ast.Constant) and isinstance(start.value, int) \
                    else ast.BinOp(left=fast_copy(start), op=ast.Sub(), right=ast.Constant(value=1))
                inc = ast.AugAssign(target=ast.Name(id=i, ctx=ast.Store()), op=ast.Add(), value=ast.Constant(value=1))
                if in_body and not after and not cont:
                    init, lp.body = fast_copy(start), lp.body + [inc]
                elif after and not in_body and not cont:
                    init, lp.body = minus1, lp.body + [inc]
                else:
                    init, lp.body = minus1, [inc] + lp.body
                lp.target = lp.target.elts[1]
                lp.iter = lp.iter.args[0]
                new = ast.Assign(targets=[ast.Name(id=i, ctx=ast.Store())], value=init)
                for x in list(ast.walk(new)) + list(ast.walk(inc)):
                    if isinstance(x, (ast.stmt, ast.expr)):
                        ast.copy_location(x, lp)
                for x in ast.walk(new):
                    if isinstance(x, (ast.stmt, ast.expr)):
                        x.lineno = lp.lineno - 0.00005
                # the increment sits where it runs: after the last statement of the body, or before the first
                at_end = lp.body[-1] is inc
                others = [s_ for s_ in lp.body if s_ is not inc]
                if others:
                    where = max(getattr(x, 'end_lineno', None) or getattr(x, 'lineno', 0) for s_ in others[-1:] for x in ast.walk(s_)
                                if hasattr(x, 'lineno')) + 0.00005 if at_end else others[0].lineno - 0.00005
                    for x in ast.walk(inc):
                        if isinstance(x, (ast.stmt, ast.expr)):
                            x.lineno = x.end_lineno = where
                # a hand-written initialisation of the same counter right before the loop is the one the loop replaces
                if k >= 2 and isinstance(body[k - 2], ast.Assign) and len(body[k - 2].targets) == 1 and isinstance(body[k - 2].targets[0], ast.Name) \
                        and body[k - 2].targets[0].id == i:
                    pass
                body.insert(k - 1, new)
                k += 1


def _flag_loops(fn):
    """N21: a loop run until a flag it computes last thing in its body

        done = False                         while True:
        while not done:             ->           BODY
            BODY                                 if C: break
            done = C

    (also `raced = True; while raced: BODY; raced = C` with the negated exit).  The flag must be a plain local written only
    by the initialisation and by the last statement of the body, and read only by the loop test."""
    loads, stores, declared = _name_counts(fn)
    for parent in [fn] + [n for n in _own_walk(fn) if not isinstance(n, (ast.FunctionDef, ast.AsyncFunctionDef, ast.ClassDef, ast.Lambda))]:
        for fld in ('body', 'orelse', 'finalbody'):
            body = getattr(parent, fld, None)
            if not (isinstance(body, list) and body and isinstance(body[0], ast.stmt)):
                continue
            k = 1
            while k < len(body):
                init, w = body[k - 1], body[k]
                k += 1
                if not (isinstance(w, ast.While) and not w.orelse and w.body and isinstance(init, ast.Assign) and len(init.targets) == 1
                        and isinstance(init.targets[0], ast.Name) and isinstance(init.value, ast.Constant) and isinstance(init.value.value, bool)):
                    continue
                flag = init.targets[0].id
                t = w.test
                neg = isinstance(t, ast.UnaryOp) and isinstance(t.op, ast.Not)
                tn = t.operand if neg else t
                if not (isinstance(tn, ast.Name) and tn.id == flag):
                    continue
                # `while not flag` starts from False, `while flag` from True
                if init.value.value is not (not neg):
                    continue
                last = w.body[-1]
                if not (isinstance(last, ast.Assign) and len(last.targets) == 1 and isinstance(last.targets[0], ast.Name) and last.targets[0].id == flag):
                    continue
                if flag in declared or stores.get(flag, 0) != 2 or loads.get(flag, 0) != 1:
                    continue
                if any(isinstance(x, (ast.Continue,)) for s_ in w.body for x in ast.walk(s_)):
                    continue
                cond = last.value if neg else _not(last.value)
                brk = ast.copy_location(ast.If(test=cond, body=[ast.copy_location(ast.Break(), last)], orelse=[]), last)
                w.body[-1] = brk
                w.test = ast.copy_location(ast.Constant(value=True), w.test)
                body.pop(k - 3 + 1) if False else None
                body.remove(init)
                k -= 1


def _not_dm(e):
    """negation pushed through and/or (de Morgan), leaves negated by _not"""
    if isinstance(e, ast.BoolOp):
        op = ast.And() if isinstance(e.op, ast.Or) else ast.Or()
        return ast.copy_location(ast.BoolOp(op=op, values=[_not_dm(v) for v in e.values]), e)
    return _not(e)


# ----------------------------------------------------------------------------------------------------------------------
# N25: a named tuple the rules were never confirmed against is the plain tuple it is at run time
_STORED_ATTRS = None      # attribute names some statement of the tree may store to (None: tree not scanned)
_RECORDS = {}             # attr.s / dataclass record types of the tree: name -> [field names in order]
_NEW_TUPLES = {}          # type name -> [field names]
_FIELD_INDEX = {}         # field name -> (type name, index) for fields that cannot be mistaken for any other attribute


def scan_new_tuples(sources):
    """sources: {relpath: source text} of the whole tree.  Finds `T = namedtuple('T', 'a b')` / `class T(NamedTuple): a: X; b: Y`
    definitions whose name the reference table does not know; a field is convertible when no other attribute, method or
    class-level name of the tree is spelt the same."""
    global _STORED_ATTRS
    _NEW_TUPLES.clear()
    _FIELD_INDEX.clear()
    _RECORDS.clear()
    _STORED_ATTRS = None
    known = set()
    for ent in _reference().values():
        for nm in ent.get('constants', []) + ent.get('functions', []):
            known.add(nm.split('.')[0])
    other_attrs = set()
    dyn_attrs = set()
    found = {}
    hazard = False
    for rel, src in sources.items():
        try:
            tree = ast.parse(src)
        except SyntaxError:
            continue
        if any(isinstance(n, ast.Name) and n.id in ('setattr', 'delattr', '__dict__', 'vars') for n in ast.walk(tree)) or \
                any(isinstance(n, ast.Attribute) and n.attr in ('__dict__', '__setattr__') for n in ast.walk(tree)):
            # attributes set by name: every identifier-like string of that file may be one
            for n in ast.walk(tree):
                if isinstance(n, ast.Constant) and isinstance(n.value, str) and n.value.isidentifier():
                    dyn_attrs.add(n.value)
        for n in ast.walk(tree):
            if isinstance(n, ast.Attribute):
                if isinstance(n.ctx, (ast.Store, ast.Del)):
                    other_attrs.add(n.attr)
                if n.attr in ('_replace', '_asdict', '_fields', '_make', '_field_defaults'):
                    hazard = True
            elif isinstance(n, (ast.FunctionDef, ast.AsyncFunctionDef)):
                other_attrs.add(n.name)
        for n in ast.walk(tree):
            if isinstance(n, ast.Assign) and len(n.targets) == 1 and isinstance(n.targets[0], ast.Name) and isinstance(n.value, ast.Call) \
                    and ((isinstance(n.value.func, ast.Name) and n.value.func.id == 'namedtuple')
                         or (isinstance(n.value.func, ast.Attribute) and n.value.func.attr == 'namedtuple')) \
                    and len(n.value.args) == 2 and not n.value.keywords:
                spec = n.value.args[1]
                fields = None
                if isinstance(spec, ast.Constant) and isinstance(spec.value, str):
                    fields = spec.value.replace(',', ' ').split()
                elif isinstance(spec, (ast.List, ast.Tuple)) and all(isinstance(e, ast.Constant) and isinstance(e.value, str) for e in spec.elts):
                    fields = [e.value for e in spec.elts]
                if fields and n.targets[0].id not in known:
                    found.setdefault(n.targets[0].id, []).append(fields)
            elif isinstance(n, ast.ClassDef) and len(n.bases) == 1 and not n.keywords and not n.decorator_list \
                    and ((isinstance(n.bases[0], ast.Name) and n.bases[0].id == 'NamedTuple')
                         or (isinstance(n.bases[0], ast.Attribute) and n.bases[0].attr == 'NamedTuple')):
                body = [b for b in n.body if not (isinstance(b, ast.Expr) and isinstance(b.value, ast.Constant)) and not isinstance(b, ast.Pass)]
                if body and all(isinstance(b, ast.AnnAssign) and isinstance(b.target, ast.Name) and b.value is None for b in body) and n.name not in known:
                    found.setdefault(n.name, []).append([b.target.id for b in body])
            elif isinstance(n, ast.ClassDef):
                for b in n.body:
                    for t in ([b.target] if isinstance(b, ast.AnnAssign) else b.targets if isinstance(b, ast.Assign) else []):
                        if isinstance(t, ast.Name):
                            other_attrs.add(t.id)
                if any('attr.s' in ast.unparse(d_) or 'attrs' in ast.unparse(d_) for d_ in n.decorator_list):
                    flds = [b.targets[0].id for b in n.body if isinstance(b, ast.Assign) and len(b.targets) == 1 and isinstance(b.targets[0], ast.Name)
                            and isinstance(b.value, ast.Call) and ast.unparse(b.value.func) in ('attr.ib', 'attrib', 'attr.attrib') and not b.value.keywords]
                    plain = [b for b in n.body if isinstance(b, ast.Assign)]
                    if flds and len(flds) == len(plain):
                        _RECORDS.setdefault(n.name, []).append(flds)
    _STORED_ATTRS = other_attrs | dyn_attrs
    if hazard:
        return
    for name, defs in found.items():
        if len(defs) == 1 and len(set(defs[0])) == len(defs[0]):
            _NEW_TUPLES[name] = defs[0]
    counts = {}
    for name, fields in _NEW_TUPLES.items():
        for f_ in fields:
            counts[f_] = counts.get(f_, 0) + 1
    for name, fields in _NEW_TUPLES.items():
        for i, f_ in enumerate(fields):
            if counts[f_] == 1 and f_ not in other_attrs and not f_.startswith('_'):
                _FIELD_INDEX[f_] = (name, i)


def _record_keywords(tree):
    """N31: a record type of the tree (attr.s class whose fields are plain attr.ib()) built with keyword arguments naming every
    field is the positional construction in field order (the keywords are evaluated in the order written: allowed when they
    are written in field order, or when every value is a name / constant / attribute chain).  Only for record types the
    reference tree itself builds positionally (`__record_styles__` in the reference table)."""
    styles = _reference().get('__record_styles__', {}).get('styles', {})
    recs = {k: v[0] for k, v in _RECORDS.items() if len(v) == 1 and styles.get(k) == 'positional'}
    if not recs:
        return

    class R(ast.NodeTransformer):
        def visit_Call(self, c):
            self.generic_visit(c)
            nm = c.func.id if isinstance(c.func, ast.Name) else None
            flds = recs.get(nm)
            if flds is None or not c.keywords or any(k.arg is None for k in c.keywords) or any(isinstance(a, ast.Starred) for a in c.args):
                return c
            rest = flds[len(c.args):]
            kw = {k.arg: k.value for k in c.keywords}
            if sorted(kw) != sorted(rest) or len(kw) != len(c.keywords):
                return c
            in_order = [k.arg for k in c.keywords] == rest
            if not in_order and not all(_simple_arg(v) for v in kw.values()):
                return c
            c.args = list(c.args) + [kw[f_] for f_ in rest]
            c.keywords = []
            return c
    R().visit(tree)


def _untuple(tree):
    if not _NEW_TUPLES:
        return

    class T(ast.NodeTransformer):
        def visit_Call(self, n):
            self.generic_visit(n)
            nm = n.func.id if isinstance(n.func, ast.Name) else n.func.attr if isinstance(n.func, ast.Attribute) else None
            fields = _NEW_TUPLES.get(nm)
            if fields is None or any(isinstance(a, ast.Starred) for a in n.args) or any(k.arg is None for k in n.keywords):
                return n
            vals = dict(zip(fields, n.args))
            if len(n.args) > len(fields) or any(k.arg in vals or k.arg not in fields for k in n.keywords):
                return n
            # keywords are evaluated in the order written; as tuple elements they must already be in field order
            kw = [k.arg for k in n.keywords]
            if kw != [f_ for f_ in fields[len(n.args):]][:len(kw)] or len(n.args) + len(kw) != len(fields):
                return n
            for k in n.keywords:
                vals[k.arg] = k.value
            return ast.copy_location(ast.Tuple(elts=[vals[f_] for f_ in fields], ctx=ast.Load()), n)

        def visit_Attribute(self, n):
            self.generic_visit(n)
            hit = _FIELD_INDEX.get(n.attr)
            if hit is None or not isinstance(n.ctx, ast.Load):
                return n
            new = ast.copy_location(ast.Subscript(value=n.value, slice=ast.copy_location(ast.Constant(value=hit[1]), n), ctx=ast.Load()), n)
            new._verif_nt = hit[0]
            return new
    T().visit(tree)
    # a local that only ever holds such a tuple and is only read field by field is the unpacking it replaces
    for fn in [n for n in ast.walk(tree) if isinstance(n, (ast.FunctionDef, ast.AsyncFunctionDef))]:
        loads, stores, declared = _name_counts(fn)
        bound = _bound_in(fn)
        for parent in [fn] + list(_own_walk(fn)):
            for fld in ('body', 'orelse', 'finalbody'):
                body = getattr(parent, fld, None)
                if not (isinstance(body, list) and body and isinstance(body[0], ast.stmt)):
                    continue
                for st in body:
                    if not (isinstance(st, ast.Assign) and len(st.targets) == 1 and isinstance(st.targets[0], ast.Name)):
                        continue
                    x = st.targets[0].id
                    if x in declared or stores.get(x, 0) != 1 or not loads.get(x, 0):
                        continue
                    subs = [n for n in _own_walk(fn) if isinstance(n, ast.Subscript) and isinstance(n.value, ast.Name) and n.value.id == x
                            and getattr(n, '_verif_nt', None)]
                    if len(subs) != loads[x] or len({n._verif_nt for n in subs}) != 1:
                        continue
                    fields = _NEW_TUPLES[subs[0]._verif_nt]
                    names = [f_ if f_ not in bound else f'{f_}__{x}' for f_ in fields]
                    if any(nm in bound for nm in names):
                        continue
                    for n in subs:
                        _ReplaceNode(n, ast.copy_location(ast.Name(id=names[n.slice.value], ctx=ast.Load()), n)).visit(fn)
                    st.targets[0] = ast.copy_location(ast.Tuple(elts=[ast.copy_location(ast.Name(id=nm, ctx=ast.Store()), st) for nm in names],
                                                                ctx=ast.Store()), st.targets[0])
                    bound |= set(names)


def _inline_element_alias(fn):
    """N26: a local that names one element of a container for a few statements is that element

        bucket = self.index[key]                self.index[key].remove(x)
        bucket.remove(x)                ->      if not self.index[key]:
        if not bucket:                              del self.index[key]
            del self.index[key]

    The local is bound once, to `<name or attribute chain>[<name or constant>]`; everything up to its last read is in the
    same statement list; in between nothing is called except methods of the local itself and pure builtins, nothing is
    awaited, and nothing but plain locals (other than the names the element expression reads) is written - so the container
    still holds the same object under the same key at every read."""
    loads, stores, declared = _name_counts(fn)
    for parent in [fn] + list(_own_walk(fn)):
        for fld in ('body', 'orelse', 'finalbody'):
            body = getattr(parent, fld, None)
            if not (isinstance(body, list) and body and isinstance(body[0], ast.stmt)):
                continue
            k = 0
            while k < len(body):
                st = body[k]
                k += 1
                if not (isinstance(st, ast.Assign) and len(st.targets) == 1 and isinstance(st.targets[0], ast.Name) and isinstance(st.value, ast.Subscript)
                        and isinstance(st.value.slice, (ast.Name, ast.Constant)) and _pure_chain(st.value.value)):
                    continue
                t = st.targets[0].id
                if t in declared or stores.get(t, 0) != 1 or not loads.get(t, 0):
                    continue
                reads = {n.id for n in ast.walk(st.value) if isinstance(n, ast.Name)}
                if t in reads:
                    continue
                rest = body[k:]
                using = [i for i, s2 in enumerate(rest) if any(isinstance(n, ast.Name) and n.id == t for n in ast.walk(s2))]
                if not using or sum(_count_loads_in(s2, t) for s2 in rest) != loads[t]:
                    continue
                last = rest[using[-1]]
                region = list(rest[:using[-1]])
                if isinstance(last, ast.If) and not any(isinstance(n, ast.Name) and n.id == t for s2 in last.body + last.orelse for n in ast.walk(s2)):
                    region_nodes = [n for s2 in region for n in ast.walk(s2)] + list(ast.walk(last.test))
                else:
                    region_nodes = [n for s2 in region + [last] for n in ast.walk(s2)]
                ok = True
                for n in region_nodes:
                    if isinstance(n, (ast.Await, ast.Yield, ast.YieldFrom, ast.FunctionDef, ast.AsyncFunctionDef, ast.Lambda, ast.ClassDef,
                                      ast.For, ast.AsyncFor, ast.While, ast.With, ast.AsyncWith, ast.Try)):
                        ok = False
                    elif isinstance(n, ast.Call):
                        own = isinstance(n.func, ast.Attribute) and isinstance(n.func.value, ast.Name) and n.func.value.id == t
                        pure = isinstance(n.func, ast.Name) and n.func.id in _PURE_BUILTINS
                        ok = ok and (own or pure)
                    elif isinstance(n, (ast.Attribute, ast.Subscript)) and isinstance(n.ctx, (ast.Store, ast.Del)):
                        ok = False
                    elif isinstance(n, ast.Name) and isinstance(n.ctx, (ast.Store, ast.Del)) and n.id in reads:
                        ok = False
                if not ok:
                    continue
                sub = _SubstMany({}, {t: st.value})
                for i in using:
                    rest[i] = sub.visit(rest[i])
                body[k:] = rest
                body.remove(st)
                k -= 1
                loads, stores, declared = _name_counts(fn)


def _setdefault_spellings(fn):
    """N27: the two long-hand spellings of dict.setdefault with a fresh empty container

        x = D.get(K)                                      if K not in D:
        if x is None:               x = D.setdefault(K, V)        D[K] = V            x = D.setdefault(K, V)
            x = D[K] = V    ->                            x = D[K]            ->

    V is an empty display or a no-argument set() / list() / dict() call (building it eagerly has no effect); D and K are names,
    constants or attribute chains.  (The first form assumes D holds no None values - a container of containers.)"""
    def simple(e):
        return _pure_chain(e) or isinstance(e, (ast.Name, ast.Constant))

    def empty(v):
        return (isinstance(v, (ast.List, ast.Dict, ast.Set)) and not getattr(v, 'elts', getattr(v, 'keys', None))) or \
            (isinstance(v, ast.Call) and isinstance(v.func, ast.Name) and v.func.id in ('set', 'list', 'dict') and not v.args and not v.keywords)

    def same(a, b):
        return ast.dump(a) == ast.dump(b)

    for parent in [fn] + list(_own_walk(fn)):
        for fld in ('body', 'orelse', 'finalbody'):
            body = getattr(parent, fld, None)
            if not (isinstance(body, list) and len(body) >= 2 and isinstance(body[0], ast.stmt)):
                continue
            k = 0
            while k + 1 < len(body):
                a, b = body[k], body[k + 1]
                k += 1
                # form 1
                if isinstance(a, ast.Assign) and len(a.targets) == 1 and isinstance(a.targets[0], ast.Name) and isinstance(a.value, ast.Call) \
                        and isinstance(a.value.func, ast.Attribute) and a.value.func.attr == 'get' and len(a.value.args) == 1 and not a.value.keywords \
                        and simple(a.value.func.value) and simple(a.value.args[0]) \
                        and isinstance(b, ast.If) and not b.orelse and len(b.body) == 1 and isinstance(b.test, ast.Compare) and len(b.test.ops) == 1 \
                        and isinstance(b.test.ops[0], ast.Is) and isinstance(b.test.left, ast.Name) and b.test.left.id == a.targets[0].id \
                        and isinstance(b.test.comparators[0], ast.Constant) and b.test.comparators[0].value is None:
                    x, D, K = a.targets[0].id, a.value.func.value, a.value.args[0]
                    st = b.body[0]
                    if isinstance(st, ast.Assign) and len(st.targets) == 2 and empty(st.value):
                        tn = [t for t in st.targets if isinstance(t, ast.Name) and t.id == x]
                        ts = [t for t in st.targets if isinstance(t, ast.Subscript) and same(t.value, D) and same(t.slice, K)]
                        if len(tn) == 1 and len(ts) == 1:
                            a.value = ast.copy_location(ast.Call(func=ast.copy_location(ast.Attribute(value=D, attr='setdefault', ctx=ast.Load()), a.value.func),
                                                                 args=[K, st.value], keywords=[]), a.value)
                            del body[k]
                            continue
                # form 2
                if isinstance(a, ast.If) and not a.orelse and len(a.body) == 1 and isinstance(a.test, ast.Compare) and len(a.test.ops) == 1 \
                        and isinstance(a.test.ops[0], ast.NotIn) and simple(a.test.left) and simple(a.test.comparators[0]) \
                        and isinstance(a.body[0], ast.Assign) and len(a.body[0].targets) == 1 and isinstance(a.body[0].targets[0], ast.Subscript) \
                        and same(a.body[0].targets[0].value, a.test.comparators[0]) and same(a.body[0].targets[0].slice, a.test.left) and empty(a.body[0].value) \
                        and isinstance(b, ast.Assign) and len(b.targets) == 1 and isinstance(b.targets[0], ast.Name) and isinstance(b.value, ast.Subscript) \
                        and same(b.value.value, a.test.comparators[0]) and same(b.value.slice, a.test.left):
                    D, K = a.test.comparators[0], a.test.left
                    b.value = ast.copy_location(ast.Call(func=ast.copy_location(ast.Attribute(value=D, attr='setdefault', ctx=ast.Load()), b.value),
                                                         args=[K, a.body[0].value], keywords=[]), b.value)
                    del body[k - 1]
                    continue


def _iteration_count(fn):
    """N24: a list that gains exactly one element per iteration counts the iterations, as the counter next to it does

        c = S                                   c = S
        for T in IT:                            for T in IT:
            ... X.append(e) ...     ->              ... X.append(e) ...
            c += 1                                  c += 1
        ... S + len(X) ...                      ... c ...

    X is a local bound once to `[]`, grown by exactly one unconditional append at the top level of the loop body (directly or
    through a once-bound alias `a = X.append`) and by nothing else; the loop has no break / continue of its own; c is written
    only by `c = S` right before the loop and `c += 1` as the last statement of its body; S is a name bound once.  The
    expression must come after the loop, outside it, and be reachable only through it (its enclosing blocks are `with`)."""
    loads, stores, declared = _name_counts(fn)

    def own_jump(stmts):
        for s_ in stmts:
            if isinstance(s_, (ast.Continue, ast.Break)):
                return True
            if isinstance(s_, (ast.For, ast.AsyncFor, ast.While, ast.FunctionDef, ast.AsyncFunctionDef, ast.ClassDef)):
                continue
            for fld_ in ('body', 'orelse', 'finalbody'):
                sub_ = getattr(s_, fld_, None)
                if isinstance(sub_, list) and sub_ and isinstance(sub_[0], ast.stmt) and own_jump(sub_):
                    return True
            for h_ in getattr(s_, 'handlers', []) or []:
                if own_jump(h_.body):
                    return True
        return False

    def find(body, trail):
        for i, st in enumerate(body):
            if isinstance(st, ast.For) and i > 0 and not st.orelse and st.body:
                yield body, i, trail
            if isinstance(st, (ast.With, ast.AsyncWith)):
                yield from find(st.body, trail + [(body, i)])

    for body, i, trail in list(find(fn.body, [])):
        lp, init = body[i], body[i - 1]
        last = lp.body[-1]
        if not (isinstance(init, ast.Assign) and len(init.targets) == 1 and isinstance(init.targets[0], ast.Name) and isinstance(init.value, ast.Name)
                and isinstance(last, ast.AugAssign) and isinstance(last.op, ast.Add) and isinstance(last.target, ast.Name)
                and isinstance(last.value, ast.Constant) and last.value.value == 1 and last.target.id == init.targets[0].id):
            continue
        c, S = init.targets[0].id, init.value.id
        if c in declared or S in declared or stores.get(c, 0) != 2 or stores.get(S, 0) != 1 or own_jump(lp.body):
            continue
        # lists grown once per iteration
        aliases = {}
        for st in _own_walk(fn):
            if isinstance(st, ast.Assign) and len(st.targets) == 1 and isinstance(st.targets[0], ast.Name) and isinstance(st.value, ast.Attribute) \
                    and st.value.attr == 'append' and isinstance(st.value.value, ast.Name) and stores.get(st.targets[0].id, 0) == 1:
                aliases[st.targets[0].id] = st.value.value.id
        grown = {}
        for st in lp.body:
            if isinstance(st, ast.Expr) and isinstance(st.value, ast.Call) and len(st.value.args) == 1 and not st.value.keywords:
                f_ = st.value.func
                X = f_.value.id if isinstance(f_, ast.Attribute) and f_.attr == 'append' and isinstance(f_.value, ast.Name) else \
                    aliases.get(f_.id) if isinstance(f_, ast.Name) else None
                if X:
                    grown[X] = grown.get(X, 0) + 1
        after = []
        for lst, j in trail + [(body, i)]:
            after += lst[j + 1:]
        for X, cnt in grown.items():
            if cnt != 1 or X in declared or stores.get(X, 0) != 1:
                continue
            binds = [st for st in _own_walk(fn) if isinstance(st, ast.Assign) and len(st.targets) == 1 and isinstance(st.targets[0], ast.Name)
                     and st.targets[0].id == X]
            if len(binds) != 1 or not (isinstance(binds[0].value, ast.List) and not binds[0].value.elts) or binds[0].lineno >= lp.lineno:
                continue
            # every other mention of X before the end of the loop is the alias binding or that one append
            ok = True
            for n_ in _own_walk(fn):
                if isinstance(n_, ast.Name) and n_.id == X and isinstance(n_.ctx, ast.Load) and getattr(n_, 'lineno', 0) <= getattr(lp, 'end_lineno', lp.lineno):
                    par_ok = any(isinstance(st, ast.Assign) and isinstance(st.value, ast.Attribute) and st.value.value is n_ and st.value.attr == 'append'
                                 for st in _own_walk(fn)) or \
                        any(isinstance(st, ast.Expr) and isinstance(st.value, ast.Call) and isinstance(st.value.func, ast.Attribute)
                            and st.value.func.value is n_ and st.value.func.attr == 'append' for st in lp.body)
                    ok = ok and par_ok
            if not ok:
                continue
            for st in after:
                for e in list(ast.walk(st)):
                    if isinstance(e, ast.BinOp) and isinstance(e.op, ast.Add):
                        for a_, b_ in ((e.left, e.right), (e.right, e.left)):
                            if isinstance(a_, ast.Name) and a_.id == S and isinstance(b_, ast.Call) and isinstance(b_.func, ast.Name) and b_.func.id == 'len' \
                                    and len(b_.args) == 1 and isinstance(b_.args[0], ast.Name) and b_.args[0].id == X:
                                _ReplaceNode(e, ast.copy_location(ast.Name(id=c, ctx=ast.Load()), e)).visit(st)
                                break


def _beta_reduce(fn):
    """N23: a local bound once to a lambda and only ever called is applied where it is called

        key = lambda p: p.bucket()          ... p0.bucket() ...
        ... key(p0) ...             ->

    (plain positional parameters; every argument a name / constant / attribute chain, or its parameter read exactly once; the
    lambda body reads only its parameters and names this function never re-binds)."""
    loads, stores, declared = _name_counts(fn)
    bound = _bound_in(fn)
    for parent in [fn] + list(_own_walk(fn)):
        for fld in ('body', 'orelse', 'finalbody'):
            body = getattr(parent, fld, None)
            if not (isinstance(body, list) and body and isinstance(body[0], ast.stmt)):
                continue
            for st in list(body):
                if not (isinstance(st, ast.Assign) and len(st.targets) == 1 and isinstance(st.targets[0], ast.Name) and isinstance(st.value, ast.Lambda)):
                    continue
                name, lam = st.targets[0].id, st.value
                a = lam.args
                if a.vararg or a.kwarg or a.kwonlyargs or a.defaults or a.posonlyargs or name in declared or stores.get(name, 0) != 1:
                    continue
                params = [x.arg for x in a.args]
                free = {n.id for n in ast.walk(lam.body) if isinstance(n, ast.Name)} - set(params)
                if any(x in bound for x in free) or any(isinstance(n, (ast.Lambda, ast.Await, ast.Yield, ast.YieldFrom, ast.NamedExpr)) for n in ast.walk(lam.body)):
                    continue
                calls = [c for c in ast.walk(fn) if isinstance(c, ast.Call) and isinstance(c.func, ast.Name) and c.func.id == name]
                if len(calls) != loads.get(name, 0) or not calls:
                    continue
                if any(c.keywords or len(c.args) != len(params) or any(isinstance(x, ast.Starred) for x in c.args) for c in calls):
                    continue
                reads = {p_: sum(1 for n in ast.walk(lam.body) if isinstance(n, ast.Name) and n.id == p_) for p_ in params}
                order = _exec_order(lam.body)

                def first_and_certain(p_):
                    # the parameter's one read is unconditional and nothing with an effect is evaluated before it
                    k_ = [i for i, (n, _c) in enumerate(order) if isinstance(n, ast.Name) and n.id == p_]
                    return len(k_) == 1 and not order[k_[0]][1] and not any(isinstance(n, (ast.Call, ast.Subscript, ast.Attribute))
                                                                            for n, _c in order[:k_[0]])
                if any(not _simple_arg(x) and not (reads[p_] == 1 and first_and_certain(p_)) for c in calls for p_, x in zip(params, c.args)):
                    continue
                if any(sum(1 for x in c.args if not _simple_arg(x)) > 1 for c in calls):
                    continue
                for c in calls:
                    new = _SubstMany({}, dict(zip(params, c.args))).visit(fast_copy(lam.body))
                    _ReplaceNode(c, ast.copy_location(new, c)).visit(fn)
                body.remove(st)
                if not body:
                    body.append(ast.copy_location(ast.Pass(), st))


def _head_break_loops(fn):
    """N22: an endless loop whose first act is to test for its exit is a loop on the negated test

        while True:                          while not C:
            if C: break             ->           BODY
            BODY
    """
    for w in _own_walk(fn):
        if isinstance(w, ast.While) and not w.orelse and w.body:
            h = w.body[0]
            if isinstance(h, ast.If) and not h.orelse and len(h.body) == 1 and isinstance(h.body[0], ast.Break):
                if isinstance(w.test, ast.Constant) and w.test.value is True:
                    w.test = _not_dm(h.test)
                else:
                    # while A: if B: break; ...   ->   while A and not B: ...
                    neg = _not_dm(h.test)
                    left = list(w.test.values) if isinstance(w.test, ast.BoolOp) and isinstance(w.test.op, ast.And) else [w.test]
                    right = list(neg.values) if isinstance(neg, ast.BoolOp) and isinstance(neg.op, ast.And) else [neg]
                    w.test = ast.copy_location(ast.BoolOp(op=ast.And(), values=left + right), w.test)
                w.body = w.body[1:] or [ast.copy_location(ast.Pass(), h)]


def normalize(tree, relpath=None):
    _unannotate(tree)
    if relpath is not None and not os.environ.get('VERIF_NO_REFNORM'):
        _untuple(tree)
        _record_keywords(tree)
    _list_spellings(tree)
    _split_tuple_assign(tree)
    if relpath is not None and not os.environ.get('VERIF_NO_REFNORM'):
        _inline_new_constants(tree, relpath)
        _tables_to_ladders(tree, relpath)
        _renest_methods(tree, relpath)
        _partial_closures(tree)
        _inline_new_helpers(tree, relpath)
        _split_tuple_assign(tree)
    _fold_constants(tree)
    _clip_spellings(tree)
    if not os.environ.get('VERIF_NO_N12'):
        _guard_form(tree)
    _unnegate(tree)
    if not os.environ.get('VERIF_NO_N15'):
        _ifelse_to_ifexp(tree)
    _reaug(tree)
    for cls in [c for c in ast.walk(tree) if isinstance(c, ast.ClassDef)]:
        # fields (re)bound outside __init__: everything else is configuration fixed at construction
        rebound = set()
        for m in [x for x in cls.body if isinstance(x, (ast.FunctionDef, ast.AsyncFunctionDef))]:
            if m.name == '__init__':
                continue
            for x in ast.walk(m):
                if isinstance(x, ast.Attribute) and isinstance(x.ctx, (ast.Store, ast.Del)) and isinstance(x.value, ast.Name) and x.value.id == 'self':
                    rebound.add(x.attr)
        # fields bound from outside (obj.field = ...) cannot be seen here: only classes that assign the field in __init__ count
        init = [x for x in cls.body if isinstance(x, ast.FunctionDef) and x.name == '__init__']
        inited = {x.attr for m in init for x in ast.walk(m) if isinstance(x, ast.Attribute) and isinstance(x.ctx, ast.Store)
                  and isinstance(x.value, ast.Name) and x.value.id == 'self'}
        # a cachedproperty is computed once and then fixed
        inited |= {x.name for x in cls.body if isinstance(x, ast.FunctionDef)
                   and any('cachedproperty' in ast.unparse(d_) or 'cached_property' in ast.unparse(d_) for d_ in x.decorator_list)}
        for m in ast.walk(cls):
            if isinstance(m, (ast.FunctionDef, ast.AsyncFunctionDef)):
                m._verif_rebound = rebound | {'*'}      # marker consumed below
                m._verif_inited = inited
    for n in ast.walk(tree):
        if isinstance(n, (ast.FunctionDef, ast.AsyncFunctionDef)) and not os.environ.get('VERIF_NO_N4'):
            rb = getattr(n, '_verif_rebound', None)
            if rb is not None:
                # treat every field not initialised in __init__ as re-bindable
                inited = getattr(n, '_verif_inited', set())
                rb = set(rb) | {a for a in _self_attrs(n) if a not in inited}
            _inline_aliases(n, rb)
    for n in ast.walk(tree):
        if isinstance(n, (ast.FunctionDef, ast.AsyncFunctionDef)):
            _beta_reduce(n)
            _setdefault_spellings(n)
            _inline_element_alias(n)
            _enumerate_with_start(n)
            _iteration_count(n)
            _flag_loops(n)
            _reverse_then_iterate(n)
            _copy_prop(n)
            if not os.environ.get('VERIF_NO_N14'):
                _propagate_pure(n)
            _head_break_loops(n)
    for n in ast.walk(tree):
        if isinstance(n, (ast.FunctionDef, ast.AsyncFunctionDef)) and not os.environ.get('VERIF_NO_N11'):
            _loops_to_comprehensions(n)
    for n in ast.walk(tree):
        if isinstance(n, (ast.FunctionDef, ast.AsyncFunctionDef)):
            _propagate(n)
    _distribute_calls(tree)
    ast.fix_missing_locations(tree)
    return tree


# ----------------------------------------------------------------------------------------------------------------------
# Reference-relative normalisation: names the rules were never confirmed against carry no identity of their own.
#   N6  a module- or class-level constant that is not in sa/reference_names.json and is bound once to a literal (int, bytes,
#       str, simple arithmetic of literals) is replaced by its value wherever it is read
#   N7  a private helper function / method that is not in the table is inlined at its statement-level call sites
#       (`self.h(a)`, `x = self.h(a)`, `return self.h(a)`, with or without await) when it has a single exit: no return, or
#       exactly one return as its last statement; parameters become fresh locals, its locals are renamed apart
_REF = None


def _reference():
    global _REF
    if _REF is None:
        import json
        p = os.path.join(os.path.dirname(os.path.abspath(__file__)), 'reference_names.json')
        try:
            _REF = json.load(open(p))
        except Exception:
            _REF = {}
    return _REF


def _literal(e):
    '''value-literal expressions that may be substituted for a name'''
    if isinstance(e, ast.Constant) and isinstance(e.value, (int, bytes, str, float)) and not isinstance(e.value, bool):
        return True
    if isinstance(e, ast.Call) and isinstance(e.func, ast.Name) and e.func.id in ('bytes', 'len', 'frozenset', 'tuple', 'int', 'min', 'max') \
            and not e.keywords and all(_literal(a) for a in e.args):
        return True
    if isinstance(e, ast.Tuple) and e.elts and all(_literal(x) or _dotted(x) for x in e.elts):
        return True
    if isinstance(e, ast.Name) and e.id.replace('_', '').isupper():
        return True          # another constant (by the naming convention the repository follows)
    if isinstance(e, ast.UnaryOp) and isinstance(e.op, ast.USub):
        return _literal(e.operand)
    if isinstance(e, ast.BinOp) and isinstance(e.op, (ast.Add, ast.Sub, ast.Mult, ast.FloorDiv, ast.LShift, ast.Pow)):
        return _literal(e.left) and _literal(e.right)
    return False


def _dotted(e):
    while isinstance(e, ast.Attribute):
        e = e.value
    return isinstance(e, ast.Name)


def _inline_new_constants(tree, relpath):
    known = set(_reference().get(relpath, {}).get('constants', [])) if _reference() and relpath in _reference() else None
    if known is None:
        return
    consts = {}        # (class name or '', name) -> literal expr

    def collect(body, prefix):
        for n in body:
            if isinstance(n, ast.ClassDef):
                collect(n.body, n.name)
            elif isinstance(n, ast.Assign) and len(n.targets) == 1 and isinstance(n.targets[0], ast.Name) and _literal(n.value) \
                    and not isinstance(n.value, ast.Name):
                q_ = (prefix + '.' if prefix else '') + n.targets[0].id
                if q_ not in known:
                    consts[(prefix, n.targets[0].id)] = n.value
    collect(tree.body, '')
    if not consts:
        return
    # a name re-bound anywhere else in the unit is not a constant
    rebinds = {}
    for n in ast.walk(tree):
        if isinstance(n, ast.Name) and isinstance(n.ctx, (ast.Store, ast.Del)):
            rebinds[n.id] = rebinds.get(n.id, 0) + 1
        if isinstance(n, ast.arg):
            rebinds[n.arg] = rebinds.get(n.arg, 0) + 1
    mod = {nm: v for (pfx, nm), v in consts.items() if pfx == '' and rebinds.get(nm, 0) == 1}
    cls = {(pfx, nm): v for (pfx, nm), v in consts.items() if pfx}

    class R(ast.NodeTransformer):
        def __init__(self):
            self.cls = None

        def visit_ClassDef(self, n):
            old, self.cls = self.cls, n.name
            self.generic_visit(n)
            self.cls = old
            return n

        def visit_Name(self, n):
            if isinstance(n.ctx, ast.Load) and n.id in mod:
                return ast.copy_location(fast_copy(mod[n.id]), n)
            return n

        def visit_Attribute(self, n):
            self.generic_visit(n)
            if isinstance(n.ctx, ast.Load) and isinstance(n.value, ast.Name) and n.value.id in ('self', 'cls', self.cls) \
                    and self.cls and (self.cls, n.attr) in cls:
                return ast.copy_location(fast_copy(cls[(self.cls, n.attr)]), n)
            return n
    for _round in range(3):
        R().visit(tree)


def _tables_to_ladders(tree, relpath):
    """N29: a lookup table the rules were never confirmed against, read through `.get`, is the ladder it replaces

        T = {K1: V1, K2: V2}    (module or class level, bound once, constant keys; not in the reference table)
        T.get(k, D)     ->     V1 if k == K1 else (V2 if k == K2 else D)          (D defaults to None)

    for a key expression that may be evaluated repeatedly (a name, a constant, an attribute chain).  Followed by
    N30: `(A if c else B)(args)` -> `A(args) if c else B(args)` when every argument is a name, constant or attribute chain."""
    known = set(_reference().get(relpath, {}).get('constants', [])) if _reference() and relpath in _reference() else None
    if known is None:
        return
    tables = {}

    def collect(body, prefix):
        for n in body:
            if isinstance(n, ast.ClassDef):
                collect(n.body, n.name)
            elif isinstance(n, ast.Assign) and len(n.targets) == 1 and isinstance(n.targets[0], ast.Name) and isinstance(n.value, ast.Dict) \
                    and n.value.keys and all(isinstance(k, ast.Constant) for k in n.value.keys) \
                    and not any(isinstance(x, (ast.Call, ast.Await, ast.Lambda, ast.ListComp, ast.DictComp, ast.SetComp, ast.GeneratorExp))
                                for v in n.value.values for x in ast.walk(v)):
                q_ = (prefix + '.' if prefix else '') + n.targets[0].id
                if q_ not in known:
                    tables[(prefix, n.targets[0].id)] = n.value
    collect(tree.body, '')
    if not tables:
        return
    # a table is a constant only if nothing else in the unit mentions it except to call .get on it
    uses_ok = {}
    parents = {}
    for n in ast.walk(tree):
        for c in ast.iter_child_nodes(n):
            parents[id(c)] = n

    def is_get(node):
        par = parents.get(id(node))
        gp = parents.get(id(par)) if par is not None else None
        return isinstance(par, ast.Attribute) and par.attr == 'get' and isinstance(gp, ast.Call) and gp.func is par \
            and 1 <= len(gp.args) <= 2 and not gp.keywords and _simple_arg(gp.args[0])
    for n in ast.walk(tree):
        key = None
        if isinstance(n, ast.Name) and isinstance(n.ctx, ast.Load) and ('', n.id) in tables:
            key = ('', n.id)
            node = n
        elif isinstance(n, ast.Attribute) and isinstance(n.ctx, ast.Load) and isinstance(n.value, ast.Name) and n.value.id in ('self', 'cls'):
            hit = [k for k in tables if k[0] and k[1] == n.attr]
            if len(hit) == 1:
                key, node = hit[0], n
        if key is not None:
            uses_ok[key] = uses_ok.get(key, True) and is_get(node)
    stores = {}
    for n in ast.walk(tree):
        if isinstance(n, ast.Name) and not isinstance(n.ctx, ast.Load):
            stores[n.id] = stores.get(n.id, 0) + 1
    good = {k: v for k, v in tables.items() if uses_ok.get(k) and stores.get(k[1], 0) == 1}
    if not good:
        return

    class R(ast.NodeTransformer):
        def visit_Call(self, c):
            self.generic_visit(c)
            f = c.func
            if not (isinstance(f, ast.Attribute) and f.attr == 'get' and 1 <= len(c.args) <= 2 and not c.keywords):
                return c
            t = f.value
            key = None
            if isinstance(t, ast.Name) and ('', t.id) in good:
                key = ('', t.id)
            elif isinstance(t, ast.Attribute) and isinstance(t.value, ast.Name) and t.value.id in ('self', 'cls'):
                hit = [k for k in good if k[0] and k[1] == t.attr]
                key = hit[0] if len(hit) == 1 else None
            if key is None:
                return c
            d = good[key]
            out = c.args[1] if len(c.args) == 2 else ast.Constant(value=None)
            for k_, v_ in reversed(list(zip(d.keys, d.values))):
                test = ast.Compare(left=fast_copy(c.args[0]), ops=[ast.Eq()], comparators=[fast_copy(k_)])
                out = ast.IfExp(test=test, body=fast_copy(v_), orelse=out)
            for x in ast.walk(out):
                if isinstance(x, (ast.expr,)) and not hasattr(x, 'lineno'):
                    ast.copy_location(x, c)
            return ast.copy_location(out, c)
    R().visit(tree)


def _distribute_calls(tree):
    """N30 (see N29): a call whose callee is a conditional expression is the conditional expression of the calls"""
    class R(ast.NodeTransformer):
        def visit_Call(self, c):
            self.generic_visit(c)
            if isinstance(c.func, ast.IfExp) and not c.keywords and all(_simple_arg(a) for a in c.args):
                def mk(fn_):
                    if isinstance(fn_, ast.IfExp):
                        return ast.copy_location(ast.IfExp(test=fn_.test, body=mk(fn_.body), orelse=mk(fn_.orelse)), c)
                    return ast.copy_location(ast.Call(func=fn_, args=[fast_copy(a) for a in c.args], keywords=[]), c)
                return mk(c.func)
            return c
    R().visit(tree)


def _fold_constants(tree):
    '''N9: integer arithmetic on literals is folded: 8 - 5 -> 3, 32 - 16 -> 16, 5 * 2 -> 10'''
    class F(ast.NodeTransformer):
        def visit_BinOp(self, n):
            self.generic_visit(n)
            l, r = n.left, n.right
            if isinstance(l, ast.Constant) and isinstance(r, ast.Constant) and type(l.value) is int and type(r.value) is int:
                try:
                    if isinstance(n.op, ast.Add):
                        v = l.value + r.value
                    elif isinstance(n.op, ast.Sub):
                        v = l.value - r.value
                    elif isinstance(n.op, ast.Mult):
                        v = l.value * r.value
                    elif isinstance(n.op, ast.FloorDiv) and r.value != 0:
                        v = l.value // r.value
                    elif isinstance(n.op, ast.LShift) and 0 <= r.value < 64:
                        v = l.value << r.value
                    else:
                        return n
                except Exception:
                    return n
                if v >= 0:
                    return ast.copy_location(ast.Constant(value=v), n)
            return n
    return F().visit(tree)


def _fold_tail_temps(fn):
    """a helper that ends `t = E ; return F(t)` (or `t, = E`, read as E[0]) with t read once, first thing: `return F(E)` - so
    that it can stand as an expression where it is called"""
    while len(fn.body) >= 2 and isinstance(fn.body[-1], ast.Return) and fn.body[-1].value is not None and isinstance(fn.body[-2], ast.Assign) \
            and len(fn.body[-2].targets) == 1:
        a, r = fn.body[-2], fn.body[-1]
        tg = a.targets[0]
        if isinstance(tg, ast.Name):
            t, e = tg.id, a.value
        elif isinstance(tg, ast.Tuple) and len(tg.elts) == 1 and isinstance(tg.elts[0], ast.Name):
            t, e = tg.elts[0].id, ast.copy_location(ast.Subscript(value=a.value, slice=ast.copy_location(ast.Constant(value=0), a), ctx=ast.Load()), a)
        else:
            return
        order = _exec_order(r.value)
        uses = [i for i, (n, c) in enumerate(order) if isinstance(n, ast.Name) and n.id == t and isinstance(n.ctx, ast.Load)]
        if len(uses) != 1 or order[uses[0]][1]:
            return
        # nothing with an effect is evaluated before the single read
        if any(isinstance(n, (ast.Call, ast.Await, ast.Subscript, ast.Attribute)) for n, _c in order[:uses[0]]):
            return
        if any(isinstance(n, ast.Name) and n.id == t for s_ in fn.body[:-2] for n in ast.walk(s_)):
            return
        r.value = _SubstMany({}, {t: e}).visit(r.value)
        del fn.body[-2]


def _guards_to_ifexp(fn):
    '''inside a helper that is about to be inlined:  if c: return A [else:] return B   ->   return A if c else B'''
    def conv(body):
        out = []
        k = 0
        while k < len(body):
            st = body[k]
            if isinstance(st, ast.If) and len(st.body) == 1 and isinstance(st.body[0], ast.Return) and st.body[0].value is not None:
                other = None
                if len(st.orelse) == 1 and isinstance(st.orelse[0], ast.Return) and st.orelse[0].value is not None:
                    other, step = st.orelse[0], 1
                elif not st.orelse and k + 1 < len(body) and isinstance(body[k + 1], ast.Return) and body[k + 1].value is not None \
                        and k + 2 == len(body):
                    other, step = body[k + 1], 2
                if other is not None:
                    out.append(ast.copy_location(ast.Return(value=ast.IfExp(test=st.test, body=st.body[0].value, orelse=other.value)), st))
                    k += step
                    continue
            out.append(st)
            k += 1
        return out
    fn.body = conv(fn.body)
    return fn


def _guards_to_nesting(fn):
    """a helper that returns nothing: `if g: return` + REST  ->  `if not g: REST`, applied from the outside in, so that no
    return is left and the body can stand where the call stood"""
    if any(isinstance(n, ast.Return) and n.value is not None and not (isinstance(n.value, ast.Constant) and n.value.value is None)
           for n in _own_walk(fn)):
        return fn

    def conv(body):
        out = []
        for k, st in enumerate(body):
            if isinstance(st, ast.If) and not st.orelse and st.body and isinstance(st.body[-1], ast.Return) and len(st.body) == 1:
                rest = conv(body[k + 1:])
                if rest:
                    out.append(ast.copy_location(ast.If(test=_not(st.test), body=rest, orelse=[]), st))
                return out
            if isinstance(st, ast.Return) and k == len(body) - 1:
                return out
            out.append(st)
        return out
    new = conv(list(fn.body))
    if any(isinstance(n, ast.Return) for s_ in new for n in ast.walk(s_)):
        return fn
    fn.body = new or [ast.copy_location(ast.Pass(), fn)]
    return fn


def _one_shot(fn):
    """A helper with several returns, none of them inside a loop, rewritten to a single exit:

        while True:                      # runs once
            <body, every `return E` spelt `__ret = E; break`>
        return __ret

    (paths.py follows such a block inline.)  Returns the rewritten copy or None."""
    if any(isinstance(n, (ast.Yield, ast.YieldFrom)) for n in _own_walk(fn)):
        return None

    def mk_ret(st):
        v = st.value if st.value is not None else ast.Constant(value=None)
        return [ast.copy_location(ast.Assign(targets=[ast.Name(id='__ret', ctx=ast.Store())], value=v), st), ast.copy_location(ast.Break(), st)]

    # a function that ends in `while True:` and leaves it only by `return`: those returns become `__ret = E; break`
    final = fn.body[-1] if fn.body else None
    if isinstance(final, ast.While) and isinstance(final.test, ast.Constant) and final.test.value is True and not final.orelse:
        def own_level(body):
            """(statements at this loop's own level, does a nested loop contain a return)"""
            out, bad = [], False
            for st in body:
                out.append(st)
                if isinstance(st, (ast.For, ast.AsyncFor, ast.While)):
                    bad = bad or any(isinstance(x, ast.Return) for x in ast.walk(st))
                    continue
                if isinstance(st, (ast.FunctionDef, ast.AsyncFunctionDef, ast.ClassDef)):
                    bad = True
                    continue
                for fld in ('body', 'orelse', 'finalbody'):
                    sub = getattr(st, fld, None)
                    if isinstance(sub, list) and sub and isinstance(sub[0], ast.stmt):
                        o2, b2 = own_level(sub)
                        out += o2
                        bad = bad or b2
                for h in getattr(st, 'handlers', []) or []:
                    o2, b2 = own_level(h.body)
                    out += o2
                    bad = bad or b2
            return out, bad
        lvl, bad = own_level(final.body)
        if not bad and any(isinstance(x, ast.Return) for x in lvl) and not any(isinstance(x, ast.Break) for x in lvl) \
                and not any(isinstance(x, ast.Try) and x.finalbody for x in lvl):
            def conv_loop(body):
                out = []
                for st in body:
                    if isinstance(st, ast.Return):
                        out += mk_ret(st)
                        continue
                    if not isinstance(st, (ast.For, ast.AsyncFor, ast.While)):
                        for fld in ('body', 'orelse', 'finalbody'):
                            sub = getattr(st, fld, None)
                            if isinstance(sub, list) and sub and isinstance(sub[0], ast.stmt):
                                setattr(st, fld, conv_loop(sub))
                        for h in getattr(st, 'handlers', []) or []:
                            h.body = conv_loop(h.body)
                    out.append(st)
                return out
            if not any(isinstance(x, ast.Return) for s_ in fn.body[:-1] for x in ast.walk(s_)):
                final.body = conv_loop(final.body)
                fn.body = fn.body + [ast.copy_location(ast.Return(value=ast.Name(id='__ret', ctx=ast.Load())), fn)]
                ast.fix_missing_locations(fn)
                return fn

    def ok(body, in_loop):
        for st in body:
            if isinstance(st, ast.Return) and in_loop:
                return False
            if isinstance(st, (ast.Break, ast.Continue)) and not in_loop:
                return False
            if isinstance(st, (ast.FunctionDef, ast.AsyncFunctionDef, ast.ClassDef)):
                return False
            if isinstance(st, ast.Try) and st.finalbody and any(isinstance(x, ast.Return) for s_ in st.body + st.finalbody for x in ast.walk(s_)):
                return False
            for fld in ('body', 'orelse', 'finalbody'):
                sub = getattr(st, fld, None)
                if isinstance(sub, list) and sub and isinstance(sub[0], ast.stmt):
                    if not ok(sub, in_loop or isinstance(st, (ast.For, ast.AsyncFor, ast.While))):
                        return False
            for h in getattr(st, 'handlers', []) or []:
                if not ok(h.body, in_loop):
                    return False
        return True
    if not ok(fn.body, False):
        return None

    def conv(body):
        out = []
        for st in body:
            if isinstance(st, ast.Return):
                v = st.value if st.value is not None else ast.Constant(value=None)
                out.append(ast.copy_location(ast.Assign(targets=[ast.Name(id='__ret', ctx=ast.Store())], value=v), st))
                out.append(ast.copy_location(ast.Break(), st))
                continue
            if not isinstance(st, (ast.For, ast.AsyncFor, ast.While)):
                for fld in ('body', 'orelse', 'finalbody'):
                    sub = getattr(st, fld, None)
                    if isinstance(sub, list) and sub and isinstance(sub[0], ast.stmt):
                        setattr(st, fld, conv(sub))
                for h in getattr(st, 'handlers', []) or []:
                    h.body = conv(h.body)
            out.append(st)
        return out
    body = conv(fn.body)
    if not (body and isinstance(body[-1], ast.Break)):
        body.append(ast.copy_location(ast.Assign(targets=[ast.Name(id='__ret', ctx=ast.Store())], value=ast.Constant(value=None)), fn))
        body.append(ast.copy_location(ast.Break(), fn))
    loop = ast.copy_location(ast.While(test=ast.Constant(value=True), body=body, orelse=[]), fn)
    fn.body = [loop, ast.copy_location(ast.Return(value=ast.Name(id='__ret', ctx=ast.Load())), fn)]
    ast.fix_missing_locations(fn)
    return fn


def _single_exit(fn):
    rets = [n for n in _own_walk(fn) if isinstance(n, ast.Return)]
    if any(isinstance(n, (ast.Yield, ast.YieldFrom)) for n in _own_walk(fn)):
        return None
    if not rets:
        return 'none'
    if len(rets) == 1 and fn.body and fn.body[-1] is rets[0]:
        return 'last'
    return None


class _Ren(ast.NodeTransformer):
    def __init__(self, mapping):
        self.m = mapping

    def visit_Name(self, n):
        if n.id in self.m:
            return ast.copy_location(ast.Name(id=self.m[n.id], ctx=n.ctx), n)
        return n

    def visit_ExceptHandler(self, n):
        if n.name in self.m:
            n.name = self.m[n.name]
        self.generic_visit(n)
        return n


def _exec_order(expr):
    """[(node, conditional)] in execution order (post-order: operands before the operation).  `conditional` marks nodes that
    are evaluated conditionally, repeatedly or lazily (IfExp arms, later BoolOp operands, comprehension bodies, lambdas)."""
    out = []

    def walk(n, cond):
        if isinstance(n, ast.IfExp):
            walk(n.test, cond)
            walk(n.body, True)
            walk(n.orelse, True)
        elif isinstance(n, ast.BoolOp):
            for k, v in enumerate(n.values):
                walk(v, cond or k > 0)
        elif isinstance(n, (ast.ListComp, ast.SetComp, ast.DictComp, ast.GeneratorExp)):
            walk(n.generators[0].iter, cond)
            for k, g in enumerate(n.generators):
                if k:
                    walk(g.iter, True)
                walk(g.target, True)
                for c in g.ifs:
                    walk(c, True)
            for fld in ('elt', 'key', 'value'):
                if hasattr(n, fld):
                    walk(getattr(n, fld), True)
        elif isinstance(n, ast.Lambda):
            walk(n.body, True)
        else:
            for c in ast.iter_child_nodes(n):
                walk(c, cond)
        out.append((n, cond))
    walk(expr, False)
    return out


def _simple_arg(e):
    """an argument expression that may be substituted for a parameter any number of times: a name, a constant, or an
    attribute chain rooted at a name"""
    while isinstance(e, ast.Attribute):
        e = e.value
    return isinstance(e, (ast.Name, ast.Constant))


class _SubstMany(ast.NodeTransformer):
    """rename locals (name -> name) and substitute parameters (name -> expression) in an inlined helper body"""
    def __init__(self, ren, sub):
        self.ren, self.sub = ren, sub

    def visit_Name(self, n):
        if n.id in self.sub and isinstance(n.ctx, ast.Load):
            return ast.copy_location(fast_copy(self.sub[n.id]), n)
        if n.id in self.ren:
            return ast.copy_location(ast.Name(id=self.ren[n.id], ctx=n.ctx), n)
        return n

    def visit_ExceptHandler(self, n):
        if n.name in self.ren:
            n.name = self.ren[n.name]
        self.generic_visit(n)
        return n


class _ReplaceNode(ast.NodeTransformer):
    def __init__(self, old, new):
        self.old, self.new, self.done = old, new, 0

    def visit(self, n):
        if n is self.old:
            self.done += 1
            return self.new
        return super().visit(n)


def _order_before(stmts, anchor):
    """Statements put in front of `anchor` (an inlined helper body) carry the anchor's position for reports; for rules that
    compare positions every statement among them - nested ones too, in document order - gets a line number of its own just
    below the anchor's: (anchor - 1) + 0.5 + k / 100000.  Reports round, i.e. print the anchor's line."""
    base = getattr(anchor, 'lineno', None)
    if base is None:
        return
    lo = (int(base) - 1) + 0.5 if float(base) == int(base) else base - 0.001
    k = [0]

    def number(st):
        k[0] += 1
        ln = lo + k[0] / 100000.0
        st.lineno = ln
        for fld, val in ast.iter_fields(st):
            vals = val if isinstance(val, list) else [val]
            for v in vals:
                if isinstance(v, ast.stmt):
                    number(v)
                elif isinstance(v, ast.ExceptHandler):
                    k[0] += 1
                    v.lineno = lo + k[0] / 100000.0
                    if v.type is not None:
                        for x in ast.walk(v.type):
                            if hasattr(x, 'lineno'):
                                x.lineno = v.lineno
                    for s2 in v.body:
                        number(s2)
                elif isinstance(v, ast.AST):
                    for x in ast.walk(v):
                        if isinstance(x, ast.stmt):
                            continue
                        if hasattr(x, 'lineno'):
                            x.lineno = ln
    for s_ in stmts:
        if s_ is not anchor:
            number(s_)


def _stmt_heads(st):
    return _head_fields(st)


def _partial_closures(tree):
    """N17b: a nested function used once, as `partial(g, a, b)`, whose leading parameters are named like the enclosing
    function's own never-re-bound names a, b it is applied to, captures them: `partial(g, a, b)` -> `g`, parameters dropped.
    (What is left of a closure that was made a method with its captured variables passed through functools.partial, once
    N17 has put it back.)"""
    for fn in [n for n in ast.walk(tree) if isinstance(n, (ast.FunctionDef, ast.AsyncFunctionDef))]:
        nested = [g for g in fn.body if isinstance(g, (ast.FunctionDef, ast.AsyncFunctionDef))]
        if not nested:
            continue
        loads, stores, declared = _name_counts(fn)
        fparams = {a.arg for a in fn.args.args + fn.args.kwonlyargs + fn.args.posonlyargs}
        for g in nested:
            uses = [n for n in _own_walk(fn) if isinstance(n, ast.Name) and n.id == g.name and isinstance(n.ctx, ast.Load)]
            if len(uses) != 1:
                continue
            calls = [c for c in _own_walk(fn) if isinstance(c, ast.Call) and ((isinstance(c.func, ast.Name) and c.func.id == 'partial')
                                                                             or (isinstance(c.func, ast.Attribute) and c.func.attr == 'partial'))
                     and c.args and c.args[0] is uses[0] and not c.keywords]
            if len(calls) != 1:
                continue
            bound = calls[0].args[1:]
            gp = g.args.args
            if not bound or len(bound) > len(gp) or g.args.defaults or g.args.vararg or g.args.kwarg:
                continue
            ok = True
            for a, p_ in zip(bound, gp):
                own_stores = sum(1 for n in _own_walk(fn) if isinstance(n, ast.Name) and isinstance(a, ast.Name) and n.id == a.id
                                 and not isinstance(n.ctx, ast.Load)) if isinstance(a, ast.Name) else 99
                if not (isinstance(a, ast.Name) and a.id == p_.arg and a.id not in declared
                        and ((a.id in fparams and own_stores == 0) or (a.id not in fparams and own_stores == 1))):
                    ok = False
                # the closure must not re-bind the captured name itself
                if any(isinstance(n, ast.Name) and n.id == p_.arg and not isinstance(n.ctx, ast.Load) for n in ast.walk(g)):
                    ok = False
            if not ok:
                continue
            g.args.args = gp[len(bound):]
            _ReplaceNode(calls[0], uses[0]).visit(fn)


def _clip_spellings(tree):
    """N28: `if a > b: a = b` -> `a = min(a, b)`;  `if a < b: a = b` -> `a = max(a, b)`  (a a plain name, b a name, constant or
    attribute chain; the value kept on equality is `a` in both spellings)"""
    for parent in ast.walk(tree):
        for fld in ('body', 'orelse', 'finalbody'):
            body = getattr(parent, fld, None)
            if not (isinstance(body, list) and body and isinstance(body[0], ast.stmt)):
                continue
            for i, st in enumerate(body):
                if not (isinstance(st, ast.If) and not st.orelse and len(st.body) == 1 and isinstance(st.body[0], ast.Assign)
                        and len(st.body[0].targets) == 1 and isinstance(st.body[0].targets[0], ast.Name)
                        and isinstance(st.test, ast.Compare) and len(st.test.ops) == 1):
                    continue
                a = st.body[0].targets[0].id
                b = st.body[0].value
                if not _simple_arg(b):
                    continue
                l, r, op = st.test.left, st.test.comparators[0], st.test.ops[0]
                fn_ = None
                if isinstance(l, ast.Name) and l.id == a and ast.dump(r) == ast.dump(b):
                    fn_ = 'min' if isinstance(op, ast.Gt) else 'max' if isinstance(op, ast.Lt) else None
                elif isinstance(r, ast.Name) and r.id == a and ast.dump(l) == ast.dump(b):
                    fn_ = 'min' if isinstance(op, ast.Lt) else 'max' if isinstance(op, ast.Gt) else None
                if fn_ is None:
                    continue
                new = ast.Assign(targets=[ast.Name(id=a, ctx=ast.Store())],
                                 value=ast.Call(func=ast.Name(id=fn_, ctx=ast.Load()), args=[ast.Name(id=a, ctx=ast.Load()), b], keywords=[]))
                for x in ast.walk(new):
                    if isinstance(x, (ast.stmt, ast.expr)) and not hasattr(x, 'lineno'):
                        ast.copy_location(x, st)
                body[i] = ast.copy_location(new, st)


def _renest_methods(tree, relpath):
    """N17 (reference-relative): a closure that became a private method is put back where it was.

    A method that is not in the reference table, whose every use lies in ONE other method F of its class, and which is either
    handed on as a value (`run_in_thread(self._m, a, b)`) or sits in a class whose F lost a known nested function, is F's
    nested function under a new spelling: `def _m(self, a, b)` becomes `def _m(a, b)` inside F (self is captured again),
    `self._m` becomes `_m`, the class-level definition goes.  Arguments stay explicit - only the place of the definition
    changes, which is all the refactor changed."""
    ref = _reference()
    if not ref or relpath not in ref:
        return
    known = set(ref[relpath].get('functions', []))
    present = set()

    def quals(owner, q_):
        for n in owner.body:
            if isinstance(n, (ast.FunctionDef, ast.AsyncFunctionDef, ast.ClassDef)):
                qq = (q_ + '.' if q_ else '') + n.name
                present.add(qq)
                quals(n, qq)
    quals(tree, '')
    missing = known - present
    for cls in [n for n in tree.body if isinstance(n, ast.ClassDef)]:
        methods = [m for m in cls.body if isinstance(m, (ast.FunctionDef, ast.AsyncFunctionDef))]
        for m in list(methods):
            if f'{cls.name}.{m.name}' in known or not m.name.startswith('_') or m.name.startswith('__'):
                continue
            decos = [ast.unparse(d_) for d_ in m.decorator_list]
            if any(d_ != 'staticmethod' for d_ in decos) or m.args.vararg or m.args.kwarg:
                continue
            static = 'staticmethod' in decos
            if not static and not (m.args.args and m.args.args[0].arg == 'self'):
                continue
            users = {}
            other = False
            for f in methods:
                if f is m:
                    if any(isinstance(x, ast.Attribute) and x.attr == m.name for x in ast.walk(f)):
                        other = True          # recursive
                    continue
                for x in ast.walk(f):
                    if isinstance(x, ast.Attribute) and x.attr == m.name and isinstance(x.value, ast.Name) and x.value.id in ('self', 'cls', cls.name):
                        users.setdefault(f, []).append(x)
            for n in ast.walk(tree):
                if isinstance(n, ast.Attribute) and n.attr == m.name and not any(n is x for xs in users.values() for x in xs) \
                        and not any(n is y for y in ast.walk(m)):
                    other = True
            if other or len(users) != 1:
                continue
            f, refs = list(users.items())[0]
            parents = {}
            for x in ast.walk(f):
                for c in ast.iter_child_nodes(x):
                    parents[id(c)] = x
            as_value = any(not (isinstance(parents.get(id(r)), ast.Call) and parents[id(r)].func is r) for r in refs)
            lost = any(q_.startswith(f'{cls.name}.{f.name}.') for q_ in missing)
            if not (as_value or lost):
                continue
            if any(isinstance(x, ast.Name) and x.id == m.name for x in ast.walk(f)):
                continue
            nested = fast_copy(m)
            nested.decorator_list = []
            if not static:
                nested.args.args = nested.args.args[1:]
            k = 1 if (f.body and isinstance(f.body[0], ast.Expr) and isinstance(f.body[0].value, ast.Constant)
                      and isinstance(f.body[0].value.value, str)) else 0
            f.body.insert(k, nested)

            class R(ast.NodeTransformer):
                def visit_Attribute(self, n):
                    self.generic_visit(n)
                    if any(n is r for r in refs):
                        return ast.copy_location(ast.Name(id=m.name, ctx=ast.Load()), n)
                    return n
            for st in f.body:
                if st is not nested:
                    R().visit(st)
            cls.body.remove(m)
            methods.remove(m)


def _inline_new_helpers(tree, relpath):
    ref = _reference()
    if not ref or relpath not in ref:
        return          # a unit the table has never seen has no reference to be relative to
    known = set(ref.get(relpath, {}).get('functions', []))
    helpers = {}     # ('Class' or '', name) -> FunctionDef

    all_names = [x.name for x in ast.walk(tree) if isinstance(x, (ast.FunctionDef, ast.AsyncFunctionDef))]
    # a known function that is gone was probably renamed: what is new in its scope is then that function under its new name,
    # not a helper extracted from somewhere
    present = set()

    def quals(owner, q_):
        for n in owner.body:
            if isinstance(n, (ast.FunctionDef, ast.AsyncFunctionDef, ast.ClassDef)):
                qq = (q_ + '.' if q_ else '') + n.name
                present.add(qq)
                quals(n, qq)
    quals(tree, '')
    missing = known - present

    def scope_of(q_):
        """the class, or the outermost function, a qualified name lives in"""
        parts = q_.split('.')
        if len(parts) == 1:
            return ''
        if parts[0] in classes_:
            return '.'.join(parts[:2]) if len(parts) > 2 else parts[0]
        return parts[0]
    classes_ = {n.name for n in tree.body if isinstance(n, ast.ClassDef)}
    renamed_scopes = {scope_of(m) for m in missing}

    def collect(owner, cls, qual=''):
        for n in owner.body:
            if isinstance(n, ast.ClassDef) and not qual:
                collect(n, n.name)
            elif isinstance(n, (ast.FunctionDef, ast.AsyncFunctionDef)):
                q_ = (qual + '.' if qual else (cls + '.' if cls else '')) + n.name
                decos = [ast.unparse(d_) for d_ in n.decorator_list]
                nested = bool(qual)
                # closures defined inside a function: candidates too when the name is unique in the unit
                collect(n, cls, q_)
                if nested and (all_names.count(n.name) != 1 or decos):
                    continue
                if scope_of(q_) in renamed_scopes:
                    continue
                if q_ not in known and all(d_ in ('staticmethod', 'classmethod') for d_ in decos) and not n.args.vararg and not n.args.kwarg \
                        and not any(isinstance(x, (ast.FunctionDef, ast.AsyncFunctionDef, ast.Lambda, ast.Global, ast.Nonlocal)) for x in _own_walk(n)):
                    h_ = fast_copy(n)
                    if h_.body and isinstance(h_.body[0], ast.Expr) and isinstance(h_.body[0].value, ast.Constant) \
                            and isinstance(h_.body[0].value.value, str) and len(h_.body) > 1:
                        h_.body = h_.body[1:]
                    h_ = _guards_to_ifexp(h_)
                    _fold_tail_temps(h_)
                    if not _single_exit(h_):
                        h_ = _guards_to_nesting(h_)
                    if not _single_exit(h_):
                        h_ = _one_shot(h_) or h_
                    if _single_exit(h_):
                        h_._verif_static = 'staticmethod' in decos
                        h_._verif_classm = 'classmethod' in decos
                        h_._verif_orig = n
                        h_._verif_owner = owner
                        h_._verif_nested = nested
                        helpers[('', n.name) if nested else (cls, n.name)] = h_
                    elif not any(isinstance(x, (ast.Yield, ast.YieldFrom)) for x in _own_walk(h_)):
                        # several exits that cannot be brought to one: still inlinable where the call is itself returned
                        h_._verif_static = 'staticmethod' in decos
                        h_._verif_classm = 'classmethod' in decos
                        h_._verif_orig = n
                        h_._verif_owner = owner
                        h_._verif_nested = nested
                        h_._verif_tail_only = True
                        helpers[('', n.name) if nested else (cls, n.name)] = h_
    collect(tree, '')
    if not helpers:
        return
    counter = [0]
    tail_ok = [False]
    dead_after = [None]       # names of the enclosing function that no later top-level statement reads (None: unknown here)

    def tail_inline(st, cls):
        """`return h(args)` / `return await h(args)` with h a helper of several exits: h's body stands in for the statement,
        its returns become the caller's (a fall off its end returns None)"""
        if not (isinstance(st, ast.Return) and st.value is not None):
            return None
        v = st.value
        awaited = isinstance(v, ast.Await)
        call = v.value if awaited else v
        if not isinstance(call, ast.Call):
            return None
        tail_ok[0] = True
        try:
            got = helper_of(call, cls)
        finally:
            tail_ok[0] = False
        if got is None:
            return None
        h, key = got
        if not getattr(h, '_verif_tail_only', False) or isinstance(h, ast.AsyncFunctionDef) != awaited:
            return None
        b = bind(call, h, key)
        if b is None:
            return None
        counter[0] += 1
        sfx = f'__{h.name}{counter[0]}'
        stored = stored_names(h)
        locals_ = set(stored) | {p for p, _v in b}
        locals_.discard('self')
        ren = {n_: n_ + sfx for n_ in locals_}
        sub, pre = {}, []
        for p, v_ in b:
            if _simple_arg(v_) and p not in stored:
                sub[p] = v_
                ren.pop(p, None)
            elif p in stored and isinstance(v_, ast.Name) and dead_after[0] is not None and v_.id in dead_after[0] \
                    and v_.id not in (stored - {p}) and v_.id not in [q_ for q_, _w in b if q_ != p]:
                # the helper re-binds its parameter and the caller never reads the argument again: the caller's own
                # local carries on (`touched = touched.intersection(...)` inside the helper is the caller's statement)
                ren[p] = v_.id
            else:
                pre.append(ast.copy_location(ast.Assign(targets=[ast.Name(id=ren[p], ctx=ast.Store())], value=v_), st))
        tr = _SubstMany(ren, sub)
        body = [tr.visit(fast_copy(s_)) for s_ in h.body]
        if not (body and isinstance(body[-1], (ast.Return, ast.Raise))):
            body.append(ast.copy_location(ast.Return(value=ast.Constant(value=None)), st))
        out = pre + body
        for s_ in out:
            for x in ast.walk(s_):
                if not hasattr(x, 'lineno') and isinstance(x, (ast.stmt, ast.expr)):
                    ast.copy_location(x, st)
        _order_before(out + [st], st)
        h._verif_inlined = getattr(h, '_verif_inlined', 0) + 1
        return out

    def helper_of(call, cls):
        f = call.func
        key = None
        if isinstance(f, ast.Attribute) and isinstance(f.value, ast.Name) and f.value.id in ('self', 'cls', cls) and cls:
            key = (cls, f.attr)
        elif isinstance(f, ast.Name):
            key = ('', f.id)
        h = helpers.get(key)
        if h is None or (getattr(h, '_verif_tail_only', False) and not tail_ok[0]):
            return None
        if any(isinstance(a, ast.Starred) for a in call.args) or any(k.arg is None for k in call.keywords):
            return None
        if key[0] and f.value.id != 'self' and not (h._verif_static or h._verif_classm):
            return None
        return h, key

    def bind(call, h, key):
        """[(parameter name, argument expression)], or None"""
        params = [a.arg for a in h.args.posonlyargs + h.args.args]
        is_method = bool(key[0]) and params and params[0] in ('self', 'cls') and not h._verif_static
        if is_method:
            params = params[1:]
        kwonly = [a.arg for a in h.args.kwonlyargs]
        defaults = h.args.defaults
        npos = len(params)
        if len(call.args) > npos:
            return None
        kw = {k.arg: k.value for k in call.keywords}
        if set(kw) - set(params) - set(kwonly):
            return None
        out = []
        for i, p in enumerate(params):
            if i < len(call.args):
                v = call.args[i]
            elif p in kw:
                v = kw[p]
            else:
                di = i - (npos - len(defaults))
                if not (0 <= di < len(defaults)):
                    return None
                # a default is evaluated once, when the function is defined: only a literal means the same at the call
                if not isinstance(defaults[di], ast.Constant):
                    return None
                v = fast_copy(defaults[di])
            out.append((p, v))
        for p, d in zip(kwonly, h.args.kw_defaults):
            if p not in kw and not isinstance(d, ast.Constant):
                return None
            v = kw.get(p, fast_copy(d) if d is not None else None)
            if v is None:
                return None
            out.append((p, v))
        return out

    def stored_names(h):
        s_ = set()
        for x in _own_walk(h):
            if isinstance(x, ast.Name) and isinstance(x.ctx, (ast.Store, ast.Del)):
                s_.add(x.id)
            elif isinstance(x, ast.ExceptHandler) and x.name:
                s_.add(x.name)
        return s_

    def as_expression(call, h, key):
        """the helper as one expression with the arguments substituted, or None"""
        if not (len(h.body) == 1 and isinstance(h.body[0], ast.Return) and h.body[0].value is not None):
            return None
        b = bind(call, h, key)
        if b is None:
            return None
        expr = h.body[0].value
        if any(isinstance(x, (ast.ListComp, ast.SetComp, ast.DictComp, ast.GeneratorExp)) for x in ast.walk(expr)):
            # comprehension variables are locals of the helper: keep them apart from the caller's names
            if {x.id for x in ast.walk(expr) if isinstance(x, ast.Name) and isinstance(x.ctx, ast.Store)} & \
                    {x.id for _p, v in b for x in ast.walk(v) if isinstance(x, ast.Name)}:
                return None
        order = _exec_order(expr)
        sub = {}
        for p, v in b:
            uses = [(n, c) for n, c in order if isinstance(n, ast.Name) and n.id == p and isinstance(n.ctx, ast.Load)]
            if _simple_arg(v):
                sub[p] = v
            elif len(uses) == 1 and not uses[0][1]:
                sub[p] = v
            else:
                return None
        return _SubstMany({}, sub).visit(fast_copy(expr))

    def hoist(st, call, awaited_node, h, key, whole_mode):
        """statements of the helper followed by st with the call replaced by the helper's result"""
        b = bind(call, h, key)
        if b is None:
            return None
        counter[0] += 1
        sfx = f'__{h.name}{counter[0]}'
        stored = stored_names(h)
        locals_ = set(stored) | {p for p, _v in b}
        locals_.discard('self')
        ren = {n_: n_ + sfx for n_ in locals_}
        sub = {}
        pre = []
        for p, v in b:
            if _simple_arg(v) and p not in stored:
                sub[p] = v
                ren.pop(p, None)
            elif p in stored and isinstance(v, ast.Name) and v.id not in (stored - {p}) and v.id not in [q_ for q_, _w in b if q_ != p] \
                    and ((dead_after[0] is not None and v.id in dead_after[0]) or
                         (isinstance(st, ast.Assign) and any(isinstance(x, ast.Name) and x.id == v.id for t_ in st.targets for x in ast.walk(t_)))):
                # (... or the call statement itself re-binds the argument: `raw, d = self._next(raw, cursor)`)
                # the helper re-binds its parameter and the caller never reads the argument again: the caller's own
                # local carries on (`touched = touched.intersection(...)` inside the helper is the caller's statement)
                ren[p] = v.id
            else:
                pre.append(ast.copy_location(ast.Assign(targets=[ast.Name(id=ren[p], ctx=ast.Store())], value=v), st))
        tr = _SubstMany(ren, sub)
        body = [tr.visit(fast_copy(s_)) for s_ in h.body]
        target = awaited_node if awaited_node is not None else call
        if _single_exit(h) == 'last':
            ret = body.pop()
            rv = ret.value if ret.value is not None else ast.Constant(value=None)
        else:
            rv = ast.Constant(value=None)
        tail = []
        if whole_mode == 'expr':
            if not isinstance(rv, (ast.Constant, ast.Name)):
                tail = [ast.copy_location(ast.Expr(value=rv), st)]
        else:
            direct = any(getattr(node, f_) is target for node, f_ in _stmt_heads(st))
            if not direct and not isinstance(rv, (ast.Constant, ast.Name)):
                tmp = 'ret' + sfx
                body.append(ast.copy_location(ast.Assign(targets=[ast.Name(id=tmp, ctx=ast.Store())], value=rv), st))
                rv = ast.Name(id=tmp, ctx=ast.Load())
            rep = _ReplaceNode(target, rv)
            for node, f_ in _stmt_heads(st):
                v = getattr(node, f_)
                if v is not None:
                    setattr(node, f_, rep.visit(v))
            if rep.done != 1:
                return None
            tail = [st]
        out = pre + body + tail
        for s_ in out:
            for x in ast.walk(s_):
                if not hasattr(x, 'lineno') and isinstance(x, (ast.stmt, ast.expr)):
                    ast.copy_location(x, st)
        _order_before(out, st)
        return out

    def expand(st, cls, depth):
        """a list of statements replacing st, or None when st contains no inlinable helper call"""
        if depth > 6:
            return None
        heads = [(node, f_) for node, f_ in _stmt_heads(st) if getattr(node, f_) is not None]
        if not heads:
            return None
        order = []
        for node, f_ in heads:
            order += _exec_order(getattr(node, f_))
        parents = {}
        for node, f_ in heads:
            for x in ast.walk(getattr(node, f_)):
                for c in ast.iter_child_nodes(x):
                    parents[id(c)] = x
        # 1. helpers that are a single expression: substituted wherever they stand
        for n, _c in order:
            if isinstance(n, ast.Call):
                got = helper_of(n, cls)
                if got is None:
                    continue
                h, key = got
                par = parents.get(id(n))
                awaited = isinstance(par, ast.Await)
                if isinstance(h, ast.AsyncFunctionDef) != awaited:
                    continue
                e = as_expression(n, h, key)
                if e is None:
                    continue
                rep = _ReplaceNode(par if awaited else n, e)
                for node, f_ in heads:
                    setattr(node, f_, rep.visit(getattr(node, f_)))
                if rep.done == 1:
                    h._verif_inlined = getattr(h, '_verif_inlined', 0) + 1
                    for x in ast.walk(e):
                        if isinstance(x, (ast.stmt, ast.expr)):
                            ast.copy_location(x, n)
                    sub = expand(st, cls, depth + 1)
                    return sub if sub is not None else [st]
        # 1b. [h(x) for x in xs] where h has statements: spelled out as the loop it abbreviates, then inlined
        if isinstance(st, (ast.Assign, ast.Return)) and isinstance(st.value, ast.ListComp) and len(st.value.generators) == 1 \
                and not st.value.generators[0].is_async:
            lc = st.value
            hs = [n for n in ast.walk(lc.elt) if isinstance(n, ast.Call) and helper_of(n, cls) is not None]
            if hs and not any(isinstance(x, (ast.ListComp, ast.SetComp, ast.DictComp, ast.GeneratorExp, ast.Lambda)) for x in ast.walk(lc.elt)):
                counter[0] += 1
                acc = f'acc__{counter[0]}'
                g = lc.generators[0]
                app = ast.Expr(value=ast.Call(func=ast.Attribute(value=ast.Name(id=acc, ctx=ast.Load()), attr='append', ctx=ast.Load()),
                                              args=[lc.elt], keywords=[]))
                inner = [app]
                for c in reversed(g.ifs):
                    inner = [ast.If(test=c, body=inner, orelse=[])]
                loop = ast.For(target=g.target, iter=g.iter, body=inner, orelse=[])
                init = ast.Assign(targets=[ast.Name(id=acc, ctx=ast.Store())], value=ast.List(elts=[], ctx=ast.Load()))
                st.value = ast.Name(id=acc, ctx=ast.Load())
                for s_ in (init, loop):
                    for x in ast.walk(s_):
                        if isinstance(x, (ast.stmt, ast.expr)) and not hasattr(x, 'lineno'):
                            ast.copy_location(x, st)
                ast.copy_location(st.value, st)
                rewrite(loop, cls)
                return [init, loop, st]
        # 2. helpers with statements: hoisted in front of the statement when the call is the first thing the statement does
        for k, (n, cond) in enumerate(order):
            if not isinstance(n, ast.Call):
                continue
            got = helper_of(n, cls)
            if got is None:
                continue
            h, key = got
            par = parents.get(id(n))
            awaited = isinstance(par, ast.Await)
            if isinstance(h, ast.AsyncFunctionDef) != awaited:
                continue
            if cond:
                # `if A and h(): S` without else  ==  `if A: if h(): S`
                if isinstance(st, ast.If) and not st.orelse and isinstance(st.test, ast.BoolOp) and isinstance(st.test.op, ast.And):
                    vals = st.test.values
                    idx = [j for j, v in enumerate(vals) if any(x is n for x in ast.walk(v))]
                    if idx and idx[0] > 0:
                        j = idx[0]
                        first = vals[0] if j == 1 else ast.BoolOp(op=ast.And(), values=vals[:j])
                        rest = vals[j] if j == len(vals) - 1 else ast.BoolOp(op=ast.And(), values=vals[j:])
                        inner = ast.copy_location(ast.If(test=rest, body=st.body, orelse=[]), st)
                        st.test = ast.copy_location(first, st.test)
                        sub = expand(inner, cls, depth + 1)
                        st.body = sub if sub is not None else [inner]
                        ast.fix_missing_locations(st)
                        return [st]
                continue
            own = {id(x) for x in ast.walk(n)}
            before = [x for x, _c in order[:k] if id(x) not in own]
            if any(isinstance(x, (ast.Call, ast.Await, ast.Subscript, ast.Yield, ast.YieldFrom)) for x in before):
                continue
            target = par if awaited else n
            whole = 'expr' if isinstance(st, ast.Expr) and st.value is target else None
            res = hoist(st, n, par if awaited else None, h, key, whole)
            if res is None:
                continue
            h._verif_inlined = getattr(h, '_verif_inlined', 0) + 1
            out = []
            for s_ in res:
                sub = expand(s_, cls, depth + 1) if s_ is not st else None
                out += sub if sub is not None else [s_]
            if res and res[-1] is st:
                sub = expand(st, cls, depth + 1)
                if sub is not None:
                    out = out[:-1] + sub
            return out
        return None

    def sink_tail_calls(fnode, cls):
        """the function ends in an if-chain of which two or more arms end by calling the same new helper as a statement:

            if a:   A...; h(E1)                  if a:   A...; p = E1
            elif b: B...; h(E2)          ->      elif b: B...; p = E2
            [else:  C...]                        else:   C...; return
                                                 h(p)

        so that the helper's body appears once (it is what the arms had in common before it was extracted)."""
        last = fnode.body[-1] if fnode.body else None
        if not isinstance(last, ast.If):
            return
        arms = []          # (owner If, field)

        def leaves(n_):
            arms.append((n_, 'body'))
            if len(n_.orelse) == 1 and isinstance(n_.orelse[0], ast.If):
                leaves(n_.orelse[0])
            else:
                arms.append((n_, 'orelse'))
        leaves(last)
        callers = []
        for o_, f_ in arms:
            lst = getattr(o_, f_)
            st_ = lst[-1] if lst else None
            if isinstance(st_, ast.Expr):
                v_ = st_.value
                aw = isinstance(v_, ast.Await)
                c_ = v_.value if aw else v_
                if isinstance(c_, ast.Call) and not c_.keywords:
                    tail_ok[0] = True
                    try:
                        got = helper_of(c_, cls)
                    finally:
                        tail_ok[0] = False
                    if got is not None and isinstance(got[0], ast.AsyncFunctionDef) == aw:
                        callers.append((o_, f_, c_, got[1], aw))
        if len(callers) < 2 or len({(k_, aw, len(c_.args), ast.dump(c_.func)) for _o, _f, c_, k_, aw in callers}) != 1:
            return
        for o_, f_ in arms:
            if any(o_ is c[0] and f_ == c[1] for c in callers):
                continue
            lst = getattr(o_, f_)
            if lst and not isinstance(lst[-1], (ast.Return, ast.Raise)):
                lst.append(ast.copy_location(ast.Return(value=None), lst[-1]))
            elif not lst:
                setattr(o_, f_, [ast.copy_location(ast.Return(value=None), o_)])
        h = helpers[callers[0][3]]
        params = [a.arg for a in h.args.args]
        if params and params[0] in ('self', 'cls') and not h._verif_static:
            params = params[1:]
        nargs = len(callers[0][2].args)
        if len(params) < nargs:
            return
        counter[0] += 1
        names = []
        for i in range(nargs):
            same = len({ast.dump(c[2].args[i]) for c in callers}) == 1 and _simple_arg(callers[0][2].args[i])
            names.append(None if same else f'{params[i]}__sunk{counter[0]}')
        first = callers[0]
        for o_, f_, c_, _k, _aw in callers:
            lst = getattr(o_, f_)
            st_ = lst.pop()
            for i, nm in enumerate(names):
                if nm is not None:
                    lst.append(ast.copy_location(ast.Assign(targets=[ast.copy_location(ast.Name(id=nm, ctx=ast.Store()), st_)], value=c_.args[i]), st_))
            if not lst:
                lst.append(ast.copy_location(ast.Pass(), st_))
        call = ast.Call(func=fast_copy(first[2].func), args=[fast_copy(first[2].args[i]) if nm is None else ast.Name(id=nm, ctx=ast.Load())
                                                             for i, nm in enumerate(names)], keywords=[])
        val = ast.Await(value=call) if first[4] else call
        new_st = ast.Expr(value=val)
        end = max(getattr(x, 'end_lineno', None) or getattr(x, 'lineno', 0) for x in ast.walk(last) if hasattr(x, 'lineno'))
        for x in ast.walk(new_st):
            if isinstance(x, (ast.stmt, ast.expr)):
                ast.copy_location(x, last)
                x.lineno = x.end_lineno = end + 0.5
        fnode.body.append(new_st)

    def rewrite(node, cls):
        for fld in ('body', 'orelse', 'finalbody'):
            body = getattr(node, fld, None)
            if not (isinstance(body, list) and body and isinstance(body[0], ast.stmt)):
                continue
            if isinstance(node, (ast.FunctionDef, ast.AsyncFunctionDef)) and fld == 'body':
                sink_tail_calls(node, cls)
            if isinstance(node, (ast.FunctionDef, ast.AsyncFunctionDef)) and fld == 'body' and len(body) >= 2:
                # `if C: x = h(...)` + `return x` at the function's tail, h a helper of several exits:
                # `if not C: return x` + `return h(...)`  - the form the tail inliner reads
                g_, r_ = body[-2], body[-1]
                if isinstance(r_, ast.Return) and isinstance(r_.value, ast.Name) and isinstance(g_, ast.If) and not g_.orelse and len(g_.body) == 1 \
                        and isinstance(g_.body[0], ast.Assign) and len(g_.body[0].targets) == 1 and isinstance(g_.body[0].targets[0], ast.Name) \
                        and g_.body[0].targets[0].id == r_.value.id:
                    v_ = g_.body[0].value
                    c_ = v_.value if isinstance(v_, ast.Await) else v_
                    if isinstance(c_, ast.Call) and not any(isinstance(x, ast.Name) and x.id == r_.value.id for x in ast.walk(c_)):
                        tail_ok[0] = True
                        try:
                            got_ = helper_of(c_, cls)
                        finally:
                            tail_ok[0] = False
                        if got_ is not None and getattr(got_[0], '_verif_tail_only', False):
                            body[-2:] = [ast.copy_location(ast.If(test=_not(g_.test), body=[ast.copy_location(ast.Return(value=fast_copy(r_.value)), g_)],
                                                                  orelse=[]), g_),
                                         ast.copy_location(ast.Return(value=v_), g_.body[0])]
            new = []
            for i_st, st in enumerate(body):
                sub = None
                if isinstance(node, (ast.FunctionDef, ast.AsyncFunctionDef)) and fld == 'body':
                    later = {x.id for s2 in body[i_st + 1:] for x in ast.walk(s2) if isinstance(x, ast.Name) and isinstance(x.ctx, ast.Load)}
                    every = {x.id for x in ast.walk(node) if isinstance(x, ast.Name)} | {a_.arg for a_ in node.args.args}
                    dead_after[0] = every - later
                else:
                    dead_after[0] = None
                if not isinstance(node, (ast.ClassDef, ast.Module)):
                    sub = tail_inline(st, cls)
                    if sub is None:
                        sub = expand(st, cls, 0)
                if sub is not None:
                    new += sub
                else:
                    new.append(st)
            setattr(node, fld, new)
            for st in new:
                rewrite(st, st.name if isinstance(st, ast.ClassDef) else cls)
        for h in getattr(node, 'handlers', []) or []:
            rewrite(h, cls)
    rewrite(tree, '')
    # a private helper every call of which was inlined is no longer part of the program (a public name may be used from
    # other units, and a helper nobody called here was not "inlined away")
    for (cls, name), h in helpers.items():
        orig = h._verif_orig
        if not (name.startswith('_') or h._verif_nested) or not getattr(h, '_verif_inlined', 0):
            continue
        inside = {id(x) for x in ast.walk(orig)}
        used = False
        for x in ast.walk(tree):
            if id(x) in inside:
                continue
            if (isinstance(x, ast.Attribute) and x.attr == name) or (isinstance(x, ast.Name) and x.id == name):
                used = True
                break
        if not used and orig in h._verif_owner.body:
            h._verif_owner.body.remove(orig)
            if not h._verif_owner.body:
                h._verif_owner.body.append(ast.copy_location(ast.Pass(), orig))
