'''Repository model: parsed units, function / class index, overlays.

Nothing under the analysed repository is imported or executed; sources are read and parsed with `ast`.
An *overlay* maps a repo-relative path to replacement source text; it is how the adequacy sweep
analyses single-edit variants of the current tree without touching the disk.
'''
import ast
import hashlib
import os

MODS = {
    'bp': 'electrumx/server/block_processor.py',
    'db': 'electrumx/server/db.py',
    'hist': 'electrumx/server/history.py',
    'sess': 'electrumx/server/session.py',
    'ctl': 'electrumx/server/controller.py',
    'mp': 'electrumx/server/mempool.py',
    'daemon': 'electrumx/server/daemon.py',
    'peers': 'electrumx/server/peers.py',
    'storage': 'electrumx/server/storage.py',
    'env': 'electrumx/server/env.py',
    'merkle': 'electrumx/lib/merkle.py',
    'tx': 'electrumx/lib/tx.py',
    'util': 'electrumx/lib/util.py',
    'peer': 'electrumx/lib/peer.py',
    'hash': 'electrumx/lib/hash.py',
    'script': 'electrumx/lib/script.py',
    'coins': 'electrumx/lib/coins.py',
    'compact': 'electrumx_compact_history',
}

SCRIPTS = ['electrumx_server', 'electrumx_rpc', 'electrumx_compact_history']


class AnalysisError(Exception):
    '''The analysis cannot interpret the tree at an anchored site (exit code 2, never a verdict).'''


class Unit:
    def __init__(self, relpath, source):
        self.relpath = relpath
        self.source = source
        self.sha256 = hashlib.sha256(source.encode()).hexdigest()
        try:
            self.tree = ast.parse(source, filename=relpath)
        except SyntaxError as e:
            raise AnalysisError(f'{relpath} does not parse: {e}')
        self.lines = source.splitlines()
        if not os.environ.get('VERIF_NO_NORMALIZE'):
            from .normalize import normalize
            normalize(self.tree, relpath)
        for node in ast.walk(self.tree):
            for child in ast.iter_child_nodes(node):
                child._parent = node
        self.tree._parent = None
        # import table: local name -> (module, attr or None)
        self.imports = {}
        for node in ast.walk(self.tree):
            if isinstance(node, ast.Import):
                for a in node.names:
                    self.imports[a.asname or a.name.split('.')[0]] = (a.name if a.asname else a.name.split('.')[0], None)
            elif isinstance(node, ast.ImportFrom) and node.module:
                for a in node.names:
                    self.imports[a.asname or a.name] = (node.module, a.name)


class Func:
    def __init__(self, unit, node, qual, cls, parent):
        self.unit = unit
        self.node = node
        self.qual = qual            # e.g. 'DB.flush_dbs', 'DB.lookup_utxos.lookup_hashXs'
        self.cls = cls              # enclosing class name or None (inherited by nested functions)
        self.parent = parent        # enclosing Func or None
        self.name = node.name
        self.is_async = isinstance(node, ast.AsyncFunctionDef)
        self.nested = {}            # name -> Func
        self.decorators = [ast.unparse(d) for d in node.decorator_list]
        self.params = [a.arg for a in node.args.posonlyargs + node.args.args]
        if node.args.vararg:
            self.params.append('*' + node.args.vararg.arg)
        self.kwonly = [a.arg for a in node.args.kwonlyargs]

    @property
    def key(self):
        return f'{self.unit.relpath}::{self.qual}'

    @property
    def is_method(self):
        return self.cls is not None and self.parent is None

    @property
    def is_classmethod(self):
        return 'classmethod' in self.decorators

    @property
    def is_staticmethod(self):
        return 'staticmethod' in self.decorators

    def own_nodes(self):
        '''All AST nodes of this function's body, not descending into nested defs / lambdas / classes.'''
        skip = (ast.FunctionDef, ast.AsyncFunctionDef, ast.ClassDef, ast.Lambda)
        stack = [s for s in self.node.body if not isinstance(s, skip)]
        while stack:
            n = stack.pop()
            yield n
            for c in ast.iter_child_nodes(n):
                if isinstance(c, skip):
                    continue
                stack.append(c)

    def all_nodes(self):
        '''All AST nodes of the body including nested definitions.'''
        for stmt in self.node.body:
            yield from ast.walk(stmt)

    def __repr__(self):
        return f'<Func {self.key}>'


class Repo:
    def __init__(self, root='/repo', overlay=None):
        self.root = root
        self.overlay = overlay or {}
        self.units = {}
        self.funcs = {}       # key -> Func
        self.classes = {}     # (relpath, name) -> ClassDef
        self.class_units = {}  # class name -> relpath (repo classes have unique names)
        self._load()

    # -- loading
    def _source_paths(self):
        paths = []
        pkg = os.path.join(self.root, 'electrumx')
        for dirpath, _dirs, files in os.walk(pkg):
            for f in sorted(files):
                if f.endswith('.py'):
                    paths.append(os.path.relpath(os.path.join(dirpath, f), self.root))
        for s in SCRIPTS:
            if os.path.exists(os.path.join(self.root, s)):
                paths.append(s)
        return sorted(paths)

    def _load(self):
        sources = {}
        for rel in self._source_paths():
            if rel in self.overlay:
                sources[rel] = self.overlay[rel]
            else:
                with open(os.path.join(self.root, rel), encoding='utf-8') as f:
                    sources[rel] = f.read()
        if not os.environ.get('VERIF_NO_NORMALIZE'):
            from .normalize import scan_new_tuples
            scan_new_tuples(sources)
        for rel, src in sources.items():
            unit = Unit(rel, src)
            self.units[rel] = unit
            self._index(unit, unit.tree.body, '', None, None)
        if len(self.units) < 20:
            raise AnalysisError(f'only {len(self.units)} source units found under {self.root}')

    def _index(self, unit, body, prefix, cls, parent):
        for node in body:
            if isinstance(node, ast.ClassDef):
                self.classes[(unit.relpath, node.name)] = node
                self.class_units.setdefault(node.name, unit.relpath)
                self._index(unit, node.body, prefix + node.name + '.', node.name, None)
            elif isinstance(node, (ast.FunctionDef, ast.AsyncFunctionDef)):
                qual = prefix + node.name
                f = Func(unit, node, qual, cls, parent)
                self.funcs[f.key] = f
                node._func = f
                if parent is not None:
                    parent.nested[node.name] = f
                self._index_nested(unit, node, qual + '.', cls, f)
            elif isinstance(node, (ast.If, ast.Try, ast.With, ast.For, ast.While)):
                # definitions under module-level control flow
                for fld in ('body', 'orelse', 'finalbody'):
                    self._index(unit, getattr(node, fld, []) or [], prefix, cls, parent)

    def _index_nested(self, unit, fnode, prefix, cls, parent):
        # nested defs anywhere inside the function body (not only top-level statements)
        stack = list(fnode.body)
        while stack:
            n = stack.pop(0)
            if isinstance(n, (ast.FunctionDef, ast.AsyncFunctionDef)):
                qual = prefix + n.name
                f = Func(unit, n, qual, cls, parent)
                self.funcs[f.key] = f
                n._func = f
                parent.nested[n.name] = f
                self._index_nested(unit, n, qual + '.', cls, f)
                continue
            if isinstance(n, (ast.ClassDef, ast.Lambda)):
                continue
            stack.extend(ast.iter_child_nodes(n))

    # -- lookup
    def path(self, mod):
        return MODS.get(mod, mod)

    def unit(self, mod):
        rel = self.path(mod)
        if rel not in self.units:
            raise AnalysisError(f'anchor missing: source unit {rel}')
        return self.units[rel]

    def _renamed(self, rel, qual):
        """a known function that is gone from its scope while exactly one function the reference table has never seen
        appeared in the same scope, of the same kind (sync / async) and the same number of parameters: a rename.  The rules
        then judge the renamed function in the old one's place (reports carry the new name)."""
        try:
            from .normalize import _reference
            ref = _reference().get(rel)
        except Exception:
            ref = None
        if not ref:
            return None
        known = set(ref.get('functions', []))
        if qual not in known:
            return None
        scope = qual.rsplit('.', 1)[0] if '.' in qual else ''
        here = {f.qual: f for f in self.funcs.values() if f.unit.relpath == rel}

        def in_scope(q_):
            return (q_.rsplit('.', 1)[0] if '.' in q_ else '') == scope
        lost = [q_ for q_ in known if in_scope(q_) and q_ not in here]
        new = [f for q_, f in here.items() if in_scope(q_) and q_ not in known]
        if lost != [qual] or len(new) != 1:
            return None
        return new[0]

    def func(self, mod, qual, required=True):
        key = f'{self.path(mod)}::{qual}'
        f = self.funcs.get(key)
        if f is None:
            f = self._renamed(self.path(mod), qual)
            if f is not None:
                self.funcs[key] = f
        if f is None and required:
            raise AnalysisError(f'anchor missing: function {key}')
        return f

    def cls(self, mod, name, required=True):
        c = self.classes.get((self.path(mod), name))
        if c is None and required:
            raise AnalysisError(f'anchor missing: class {self.path(mod)}::{name}')
        return c

    def class_by_name(self, name):
        rel = self.class_units.get(name)
        if rel is None:
            return None
        return self.classes[(rel, name)]

    def methods_of(self, clsname):
        '''name -> Func for the class and its in-repo bases (MRO order, first wins).'''
        out = {}
        seen = set()
        todo = [clsname]
        while todo:
            cn = todo.pop(0)
            if cn in seen:
                continue
            seen.add(cn)
            rel = self.class_units.get(cn)
            if rel is None:
                continue
            cnode = self.classes[(rel, cn)]
            for k, f in self.funcs.items():
                if f.unit.relpath == rel and f.cls == cn and f.parent is None and f.qual == f'{cn}.{f.name}':
                    out.setdefault(f.name, f)
            for b in cnode.bases:
                if isinstance(b, ast.Name):
                    todo.append(b.id)
                elif isinstance(b, ast.Attribute):
                    todo.append(b.attr)
        return out

    def bases_of(self, clsname):
        out = []
        todo = [clsname]
        while todo:
            cn = todo.pop(0)
            if cn in out:
                continue
            out.append(cn)
            cnode = self.class_by_name(cn)
            if cnode is None:
                continue
            for b in cnode.bases:
                if isinstance(b, ast.Name):
                    todo.append(b.id)
                elif isinstance(b, ast.Attribute):
                    todo.append(b.attr)
        return out

    def digests(self, rels=None):
        rels = rels or sorted(self.units)
        return {r: self.units[r].sha256 for r in rels if r in self.units}


# ------------------------------------------------------------------------------------------------
# small AST helpers shared by the rules

def norm(node):
    '''Whitespace / comment insensitive text of a node (construct keys, messages).'''
    if node is None:
        return ''
    if isinstance(node, str):
        return node
    try:
        txt = ast.unparse(node)
    except Exception:
        txt = ast.dump(node)
    return ' '.join(txt.split())


def head(node, n=110):
    '''First line of a compound statement (or the whole simple statement), normalised.'''
    if isinstance(node, (ast.If, ast.While)):
        kw = 'if' if isinstance(node, ast.If) else 'while'
        txt = f'{kw} {norm(node.test)}:'
    elif isinstance(node, (ast.For, ast.AsyncFor)):
        txt = f'for {norm(node.target)} in {norm(node.iter)}:'
    elif isinstance(node, (ast.With, ast.AsyncWith)):
        txt = 'with ' + ', '.join(norm(i) for i in node.items) + ':'
    elif isinstance(node, ast.Try):
        txt = 'try:'
    elif isinstance(node, ast.ExceptHandler):
        txt = f'except {norm(node.type)}:' if node.type else 'except:'
    elif isinstance(node, (ast.FunctionDef, ast.AsyncFunctionDef)):
        txt = f'def {node.name}(...)'
    else:
        txt = norm(node)
    return txt if len(txt) <= n else txt[:n - 3] + '...'


def loc(func_or_unit, node):
    unit = func_or_unit.unit if isinstance(func_or_unit, Func) else func_or_unit
    return f'{unit.relpath}:{int(round(getattr(node, "lineno", 0)))}'


def parent_stmt(node):
    '''The statement that (transitively) contains an expression node.'''
    n = node
    while n is not None and not isinstance(n, ast.stmt):
        n = getattr(n, '_parent', None)
    return n


def enclosing(node, kinds):
    n = getattr(node, '_parent', None)
    while n is not None:
        if isinstance(n, kinds):
            return n
        n = getattr(n, '_parent', None)
    return None


def ancestors(node):
    n = getattr(node, '_parent', None)
    while n is not None:
        yield n
        n = getattr(n, '_parent', None)


def walk_own(node):
    '''ast.walk that does not descend into nested function / class / lambda definitions.'''
    stack = [node]
    first = True
    while stack:
        n = stack.pop()
        if not first and isinstance(n, (ast.FunctionDef, ast.AsyncFunctionDef, ast.ClassDef, ast.Lambda)):
            continue
        first = False
        yield n
        stack.extend(ast.iter_child_nodes(n))


def dotted(node):
    '''a.b.c for Name/Attribute chains, else None.'''
    parts = []
    while isinstance(node, ast.Attribute):
        parts.append(node.attr)
        node = node.value
    if isinstance(node, ast.Name):
        parts.append(node.id)
        return '.'.join(reversed(parts))
    return None


def const_value(node):
    if isinstance(node, ast.Constant):
        return node.value
    if isinstance(node, ast.UnaryOp) and isinstance(node.op, ast.USub) and isinstance(node.operand, ast.Constant):
        return -node.operand.value
    return None
