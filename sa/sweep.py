'''Thorough tier, part 3: self-validation of the rules against the CURRENT tree, by in-memory overlays.

  twins    the nine behaviour-preserving rewrites of the whole tree (sa/twins.py): the property's rules must stay silent
  seeded   every seeded change recorded for this property under /verif/seeded whose patch still applies to the current
           sources is applied (to a temporary copy of the touched files only) and must be reported

Both are evidence about the CHECKER, not about the property on the current tree: a noisy twin or an unreported seed is
recorded in the evidence and printed as a note; it does not change the exit status (which speaks about /repo only).'''
import glob
import importlib
import json
import os
import re
import shutil
import subprocess
import tempfile
from concurrent.futures import ProcessPoolExecutor

VERIF = os.path.dirname(os.path.dirname(os.path.abspath(__file__)))


def _run_overlay(args):
    prop, root, overlay = args
    from .engine import Ctx, load_known_findings, match_known
    try:
        ctx = Ctx(prop, root=root, overlay=overlay)
        mod = importlib.import_module(f'sa.rules.{prop.lower()}')
        mod.run(ctx)
    except Exception as e:        # noqa
        return [], [f'{type(e).__name__}: {e}']
    known = load_known_findings()
    bad = [o.rule for o in ctx.obligations if o.verdict == 'violated' and match_known(o, known) is None]
    return sorted(set(bad)), list(ctx.errors)


def _twin_job(args):
    prop, root, kind = args
    from .twins import make_overlay
    return kind, _run_overlay((prop, root, make_overlay(kind, root)))


def _seed_overlay(root, patch_path):
    patch = open(patch_path).read()
    files = sorted(set(re.findall(r'^\+\+\+ b/(\S+)', patch, re.M)))
    d = tempfile.mkdtemp(prefix='verif-seed-')
    try:
        for rel in files:
            src = os.path.join(root, rel)
            if not os.path.exists(src):
                return None
            os.makedirs(os.path.dirname(os.path.join(d, rel)), exist_ok=True)
            shutil.copy(src, os.path.join(d, rel))
        p = subprocess.run(['patch', '-p1', '--batch', '--silent', '--no-backup-if-mismatch', '-F', '0', '-i', patch_path], cwd=d,
                           capture_output=True, text=True)
        if p.returncode != 0:
            return None
        return {rel: open(os.path.join(d, rel)).read() for rel in files}
    finally:
        shutil.rmtree(d, ignore_errors=True)


def _seed_job(args):
    prop, root, name, patch_path = args
    ov = _seed_overlay(root, patch_path)
    if ov is None:
        return name, None
    return name, _run_overlay((prop, root, ov))


def run(ctx, mod, seed):
    from .twins import KINDS
    prop, root = ctx.prop, ctx.root
    seeds = sorted(glob.glob(f'{VERIF}/seeded/{prop}-m*/patch.diff'))
    jobs_t = [(prop, root, k) for k in KINDS]
    jobs_s = [(prop, root, os.path.basename(os.path.dirname(p)), p) for p in seeds]
    noisy, unreported, inapplicable, reported = [], [], [], 0
    with ProcessPoolExecutor(min(16, os.cpu_count() or 4)) as ex:
        for kind, (bad, errs) in ex.map(_twin_job, jobs_t):
            if bad or errs:
                noisy.append({'twin': kind, 'violations': bad, 'errors': errs[:2]})
        for name, res in ex.map(_seed_job, jobs_s):
            if res is None:
                inapplicable.append(name)
            elif res[0]:
                reported += 1
            else:
                unreported.append({'seed': name, 'errors': res[1][:1]})
    for n_ in noisy:
        ctx.note(f'self-validation: twin `{n_["twin"]}` is not silent for {prop}: {n_["violations"]} {n_["errors"]}')
    for u in unreported:
        ctx.note(f'self-validation: seeded change {u["seed"]} is not reported on the current tree')
    return {'twins_run': len(jobs_t), 'twins_noisy': noisy,
            'seeded_variants_applied': reported + len(unreported), 'seeded_variants_reported': reported,
            'seeded_variants_unreported': unreported, 'seeded_patches_not_applicable_to_current_tree': inapplicable,
            'self_validation_rule': 'twins must be silent, seeded variants must be reported; informational - the exit status speaks '
                                    'about /repo only'}
