'''Durable-effect analysis on an inlined control-flow graph.

InlineGraph splices the CFGs of (sync) repo callees into the caller's CFG at their call statements
(callee runs before the statement that contains the call; its exceptional exit goes where the
statement's exceptions go), binding store / batch handles passed as arguments.  Effects are then
read off every node:

  BATCH_OPEN(store)          `with <store>.write_batch() as b:` entered
  COMMIT(store)              that block left normally (fall-through / return / break / continue)
  PUT / DELETE(store, batch) put / delete on a batch object (or an alias of its bound method)
  DIRECT_PUT / DIRECT_DELETE put / delete on the store itself (also through a `batch` parameter bound to it)
  FILE_WRITE(file)           LogicalFile.write on one of the meta files

On this one graph "A before B on all paths" is `no path B -> A`, "A on all paths to exit" is `no path
entry -> exit avoiding A`.
'''
import ast

import networkx as nx

from .model import AnalysisError, norm, walk_own, head
from .cfg import head_exprs


class Frame:
    def __init__(self, fid, func, cfg, parent, call, bind):
        self.id, self.func, self.cfg, self.parent, self.call, self.bind = fid, func, cfg, parent, call, bind

    def chain(self):
        out = []
        f = self
        while f is not None:
            out.append(f.func.qual)
            f = f.parent
        return list(reversed(out))


class Effect:
    def __init__(self, kind, store, frame, node, call=None, batch=None):
        self.kind, self.store, self.frame, self.node, self.call, self.batch = kind, store, frame, node, call, batch

    @property
    def gnode(self):
        return (self.frame.id, self.node)

    def text(self):
        a = self.frame.cfg.ast(self.node)
        return (f'{self.kind}({self.store}) at {self.frame.func.unit.relpath}:{getattr(self.call or a, "lineno", 0)} '
                f'{self.frame.func.qual}: {norm(self.call) if self.call is not None else head(a)}')[:220]

    def __repr__(self):
        return self.text()


class InlineGraph:
    def __init__(self, ctx, func, max_depth=6, inline=None, no_inline=()):
        self.ctx = ctx
        self.g = nx.DiGraph()
        self.frames = []
        self.max_depth = max_depth
        self.no_inline = set(no_inline)
        self.inline_pred = inline
        self.effects = []
        self.root = self._frame(func, None, None, {})
        self.entry = (self.root.id, self.root.cfg.entry)
        self.exit = (self.root.id, self.root.cfg.exit)
        self.raise_ = (self.root.id, self.root.cfg.raise_)
        self._expand(self.root, 0)
        self._collect_effects()

    # -- construction
    def _frame(self, func, parent, call, bind):
        cfg = self.ctx.cfg(func)
        fr = Frame(len(self.frames), func, cfg, parent, call, bind)
        self.frames.append(fr)
        for n in cfg.g.nodes:
            self.g.add_node((fr.id, n))
        for a, b, d in cfg.g.edges(data=True):
            self.g.add_edge((fr.id, a), (fr.id, b), kinds=set(d['kinds']))
        return fr

    def _should_inline(self, callee, frame):
        if callee is None or callee.is_async or callee.key in self.no_inline:
            return False
        # generators are consumed lazily by their caller; not spliced
        if any(isinstance(n, (ast.Yield, ast.YieldFrom)) for n in callee.own_nodes()):
            return False
        f = frame
        while f is not None:
            if f.func.key == callee.key:
                return False
            f = f.parent
        if self.inline_pred is not None:
            return self.inline_pred(callee)
        return True

    def _expand(self, frame, depth):
        if depth >= self.max_depth:
            return
        cfg = frame.cfg
        for n in list(cfg.g.nodes):
            a = cfg.ast(n)
            if a is None or cfg.kind(n) in ('with_exit', 'finally'):
                continue
            calls = [c for c in head_exprs(a) if isinstance(c, ast.Call)]
            calls.sort(key=lambda c: (getattr(c, 'end_lineno', c.lineno), getattr(c, 'end_col_offset', c.col_offset)))
            children = []
            for c in calls:
                callee = self.ctx.res.resolve_ref(c.func, frame.func)
                if callee is None and isinstance(c.func, ast.Name):
                    al = self.ctx.res.aliases(frame.func).get(c.func.id)
                    if al is not None:
                        callee = self.ctx.res.resolve_ref(al, frame.func)
                if not self._should_inline(callee, frame):
                    continue
                bind = self._bind(c, callee, frame)
                child = self._frame(callee, frame, c, bind)
                children.append(child)
                self._expand(child, depth + 1)
            if not children:
                continue
            gn = (frame.id, n)
            preds = [(p, self.g[p][gn]['kinds']) for p in list(self.g.predecessors(gn))]
            for p, _k in preds:
                self.g.remove_edge(p, gn)
            first = (children[0].id, children[0].cfg.entry)
            for p, k in preds:
                self.g.add_edge(p, first, kinds=set(k))
            exc_targets = [m for m in self.g.successors(gn) if 'exc' in self.g[gn][m]['kinds']]
            for i, ch in enumerate(children):
                nxt = (children[i + 1].id, children[i + 1].cfg.entry) if i + 1 < len(children) else gn
                self.g.add_edge((ch.id, ch.cfg.exit), nxt, kinds={'next'})
                for t in exc_targets or [(frame.id, cfg.raise_)]:
                    self.g.add_edge((ch.id, ch.cfg.raise_), t, kinds={'exc'})

    def _bind(self, call, callee, frame):
        bind = {}
        offset = 1 if (callee.cls and callee.parent is None and not callee.is_staticmethod) else 0
        params = callee.params
        for i, a in enumerate(call.args):
            pi = i + offset
            if pi < len(params):
                h = self.classify(a, frame)
                if h is not None:
                    bind[params[pi]] = h
        for kw in call.keywords:
            if kw.arg in params:
                h = self.classify(kw.value, frame)
                if h is not None:
                    bind[kw.arg] = h
        return bind

    # -- handles
    def classify(self, expr, frame):
        '''expr -> ('store', S) | ('batch', S, with_stmt, frame_id) | ('method', 'put'|'delete', handle) | ('file', F) | None'''
        res = self.ctx.res
        if isinstance(expr, ast.Name):
            if expr.id in frame.bind:
                return frame.bind[expr.id]
            # closure: handles bound in an enclosing frame of a nested function
            f = frame.func
            while f is not None:
                w = self._with_binding(expr.id, f)
                if w is not None:
                    store = self.classify_store(w.items[0].context_expr, f)
                    if store is not None:
                        return ('batch', store, w, frame.id)
                al = res.aliases(f).get(expr.id)
                if al is not None and isinstance(al, ast.Attribute) and al.attr in ('put', 'delete'):
                    h = self.classify(al.value, frame)
                    if h is not None and h[0] in ('batch', 'store'):
                        return ('method', al.attr, h)
                if expr.id in res.assign_counts(f):
                    break
                f = f.parent
            t = res.type_of(expr, frame.func)
            if t and t[0] == 'store':
                return ('store', t[1])
            return None
        if isinstance(expr, ast.Attribute):
            t = res.type_of(expr, frame.func)
            if t and t[0] == 'store':
                return ('store', t[1])
            if t and t[0] == 'file':
                return ('file', t[1])
            if expr.attr in ('put', 'delete'):
                h = self.classify(expr.value, frame)
                if h is not None and h[0] in ('batch', 'store'):
                    return ('method', expr.attr, h)
        return None

    def _with_binding(self, name, func):
        for n in func.own_nodes():
            if isinstance(n, (ast.With, ast.AsyncWith)):
                for i in n.items:
                    if isinstance(i.optional_vars, ast.Name) and i.optional_vars.id == name:
                        return n
        return None

    def classify_store(self, ctx_expr, func):
        '''`<store>.write_batch()` -> store name'''
        if isinstance(ctx_expr, ast.Call) and isinstance(ctx_expr.func, ast.Attribute) and ctx_expr.func.attr == 'write_batch':
            t = self.ctx.res.type_of(ctx_expr.func.value, func)
            if t and t[0] == 'store':
                return t[1]
        return None

    # -- effects
    def _collect_effects(self):
        for fr in self.frames:
            cfg = fr.cfg
            for n in cfg.g.nodes:
                a = cfg.ast(n)
                kind = cfg.kind(n)
                if a is None:
                    continue
                if kind == 'with':
                    for it in a.items:
                        s = self.classify_store(it.context_expr, fr.func)
                        if s is not None:
                            self.effects.append(Effect('BATCH_OPEN', s, fr, n, batch=a))
                    continue
                if kind == 'with_exit':
                    for it in a.items:
                        s = self.classify_store(it.context_expr, fr.func)
                        if s is not None:
                            self.effects.append(Effect('COMMIT', s, fr, n, batch=a))
                    continue
                for c in head_exprs(a):
                    if not isinstance(c, ast.Call):
                        continue
                    h = None
                    if isinstance(c.func, ast.Attribute) and c.func.attr in ('put', 'delete', 'write'):
                        base = self.classify(c.func.value, fr)
                        if base is not None and base[0] in ('batch', 'store') and c.func.attr in ('put', 'delete'):
                            h = ('method', c.func.attr, base)
                        elif base is not None and base[0] == 'file' and c.func.attr == 'write':
                            self.effects.append(Effect('FILE_WRITE', base[1], fr, n, call=c))
                            continue
                    elif isinstance(c.func, ast.Name):
                        hh = self.classify(c.func, fr)
                        if hh is not None and hh[0] == 'method':
                            h = hh
                    if h is None:
                        continue
                    _m, op, base = h
                    if base[0] == 'batch':
                        self.effects.append(Effect('PUT' if op == 'put' else 'DELETE', base[1], fr, n, call=c, batch=base[2]))
                    else:
                        self.effects.append(Effect('DIRECT_PUT' if op == 'put' else 'DIRECT_DELETE', base[1], fr, n, call=c))

    # -- queries
    def of(self, kinds=None, store=None):
        kinds = {kinds} if isinstance(kinds, str) else (set(kinds) if kinds else None)
        return [e for e in self.effects if (kinds is None or e.kind in kinds) and (store is None or e.store == store)]

    def find_path(self, srcs, dsts, avoiding=()):
        dsts = set(dsts)
        avoiding = set(avoiding)
        prev = {s: None for s in srcs}
        queue = list(srcs)
        while queue:
            n = queue.pop(0)
            for m in self.g.successors(n):
                if m in dsts:
                    path = [m, n]
                    while prev[path[-1]] is not None:
                        path.append(prev[path[-1]])
                    return list(reversed(path))
                if m in prev or m in avoiding:
                    continue
                prev[m] = n
                queue.append(m)
        return None

    def path_avoiding(self, srcs, dsts, avoid):
        avoid = set(avoid)
        srcs = [s for s in srcs if s not in avoid]
        for s in srcs:
            if s in set(dsts):
                return [s]
        return self.find_path(srcs, dsts, avoid)

    def label(self, gn):
        fid, n = gn
        fr = self.frames[fid]
        return f'[{fr.func.qual}] ' + fr.cfg.label(n)

    def describe(self, path):
        out = []
        for gn in path or []:
            fr = self.frames[gn[0]]
            if fr.cfg.ast(gn[1]) is None and gn not in (self.entry, self.exit, self.raise_):
                continue
            out.append(self.label(gn))
        return out

    def stats(self):
        return {'frames': len(self.frames), 'nodes': self.g.number_of_nodes(), 'edges': self.g.number_of_edges(),
                'effects': len(self.effects)}

    def enumerate_paths(self, max_visits=2, cap=50000):
        '''Paths entry -> exit with every node visited at most max_visits times.'''
        rg = self.g.reverse(copy=False)
        can_exit = set(nx.descendants(rg, self.exit)) | {self.exit}
        count = 0
        stack = [(self.entry, (self.entry,), {self.entry: 1})]
        while stack:
            n, path, visits = stack.pop()
            if n == self.exit:
                count += 1
                yield path
                if count >= cap:
                    return
                continue
            for m in self.g.successors(n):
                if m not in can_exit:
                    continue
                v = visits.get(m, 0)
                if v >= max_visits:
                    continue
                nv = dict(visits)
                nv[m] = v + 1
                stack.append((m, path + (m,), nv))


# ------------------------------------------------------------------------------------------------
# key provenance for the commit-protocol rule

def key_provenance(ctx, eff):
    '''Classify the key of a PUT/DELETE effect: STATE (constant state key), NEW-TAGGED (contains the
    post-increment flush id), EXISTING (originates from an iterator over the same store), DERIVED.'''
    call, fr = eff.call, eff.frame
    if call is None or not call.args:
        return 'DERIVED', 'no key argument'
    key = call.args[0]
    f = fr.func
    if isinstance(key, ast.Constant) and isinstance(key.value, bytes) and key.value.startswith(b'state'):
        return 'STATE', repr(key.value)
    return _prov(ctx, key, f, set())


def _defs(func, name):
    from . import dataflow as df
    return df.defs(func).get(name, [])


def _prov(ctx, expr, f, seen):
    if id(expr) in seen:
        return 'DERIVED', 'cycle'
    seen.add(id(expr))
    if isinstance(expr, ast.Name):
        ds = _defs(f, expr.id)
        if not ds:
            return 'DERIVED', f'{expr.id} is a parameter / free variable'
        best = None
        for st, rhs in ds:
            if isinstance(st, (ast.For, ast.AsyncFor)) or isinstance(st, ast.comprehension):
                p = _iter_prov(ctx, rhs, f, seen)
            else:
                p = _prov(ctx, rhs, f, seen)
            if p[0] == 'EXISTING':
                return p
            if best is None or p[0] == 'NEW-TAGGED':
                best = p
        return best
    if isinstance(expr, ast.BinOp) and isinstance(expr.op, ast.Add):
        l, r = _prov(ctx, expr.left, f, seen), _prov(ctx, expr.right, f, seen)
        for p in (l, r):
            if p[0] == 'EXISTING':
                return p
        for p in (l, r):
            if p[0] == 'NEW-TAGGED':
                return p
        return 'DERIVED', norm(expr)
    if isinstance(expr, ast.Call):
        nm = norm(expr.func)
        if nm.startswith('pack_') and expr.args:
            a = expr.args[0]
            c = ctx.res.canon(a, f)
            if c and c.endswith('flush_count'):
                # NEW only if the counter is incremented earlier in this function
                incs = [n for n in f.own_nodes() if isinstance(n, ast.AugAssign) and isinstance(n.op, ast.Add)
                        and ctx.res.canon(n.target, f) == c and n.lineno < expr.lineno]
                if incs:
                    return 'NEW-TAGGED', f'{nm}({c}) after `{norm(incs[0])}`'
                return 'DERIVED', f'{nm}({c}) without a preceding increment'
        return 'DERIVED', norm(expr)
    return 'DERIVED', norm(expr)


def _iter_prov(ctx, it, f, seen):
    '''Provenance of the elements produced by iterating `it`.'''
    # <store>.iterator(...)
    if isinstance(it, ast.Call) and isinstance(it.func, ast.Attribute) and it.func.attr == 'iterator':
        t = ctx.res.type_of(it.func.value, f)
        if t and t[0] == 'store':
            return 'EXISTING', f'key read from {t[1]} by {norm(it)[:60]}'
    if isinstance(it, ast.Call) and isinstance(it.func, ast.Attribute) and it.func.attr in ('items', 'keys', 'copy'):
        return _iter_prov(ctx, it.func.value, f, seen)
    if isinstance(it, ast.Call) and norm(it.func) in ('sorted', 'list', 'set', 'reversed', 'tuple', 'enumerate') and it.args:
        return _iter_prov(ctx, it.args[0], f, seen)
    if isinstance(it, ast.Name):
        # a local container: what was put into it?
        name = it.id
        for n in f.own_nodes():
            if isinstance(n, ast.Call) and isinstance(n.func, ast.Attribute) and norm(n.func.value) == name \
                    and n.func.attr in ('append', 'add', 'update', 'extend') and n.args:
                p = _prov(ctx, n.args[0], f, seen) if n.func.attr in ('append', 'add') else _iter_prov(ctx, n.args[0], f, seen)
                if p[0] == 'EXISTING':
                    return p
            if isinstance(n, ast.Assign) and isinstance(n.targets[0], ast.Subscript) and norm(n.targets[0].value) == name:
                p = _prov(ctx, n.targets[0].slice, f, seen)
                if p[0] == 'EXISTING':
                    return p
        # parameter containers: look at the (single) caller's argument inside the same class
        if name in f.params:
            idx = f.params.index(name)
            for (caller, callee, kind, node) in ctx.cg.callers(f):
                if kind in ('CALL',):
                    off = 1 if (f.cls and f.parent is None) else 0
                    if idx - off < len(node.args):
                        p = _iter_prov(ctx, node.args[idx - off], caller, seen)
                        if p[0] == 'EXISTING':
                            return p
        ds = _defs(f, name)
        for st, rhs in ds:
            if isinstance(rhs, (ast.ListComp, ast.SetComp, ast.DictComp, ast.GeneratorExp)):
                for g in rhs.generators:
                    p = _iter_prov(ctx, g.iter, f, seen)
                    if p[0] == 'EXISTING':
                        return p
    return 'DERIVED', norm(it)[:60]
