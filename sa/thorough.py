'''Thorough tier: (1) the quick rules again, (2) explicit path enumeration - every reachability verdict the
rules relied on is re-decided by enumerating paths one by one (each CFG node visited at most twice, i.e.
loops taken 0, 1 and 2 times) and compared with the graph-search verdict, (3) the self-validation of
sa/sweep.py: the rules stay silent on nine behaviour-preserving twins of the current tree and report every recorded seeded
change that still applies to it (in-memory overlays; informational).'''
import time

from . import pathrules as pr
from .engine import Ctx
from .model import AnalysisError

PATH_CAP = 50000


def enumerate_decide(cfg, srcs, dsts, avoid, cap=PATH_CAP):
    '''Decide "exists a path src ->* dst avoiding `avoid`" by explicit enumeration.
    Returns (verdict or None if the cap was hit, number of paths walked).'''
    walked = 0
    for s in srcs:
        if s in dsts:
            return True, 1
    stack = [(s, {s: 1}) for s in srcs]
    while stack:
        n, visits = stack.pop()
        succs = list(cfg.g.successors(n))
        if not succs:
            walked += 1
        for m in succs:
            if m in dsts:
                return True, walked + 1
            if m in avoid:
                walked += 1
                continue
            v = visits.get(m, 0)
            if v >= 2:
                walked += 1
                continue
            nv = dict(visits)
            nv[m] = v + 1
            stack.append((m, nv))
        if walked > cap:
            return None, walked
    return False, walked


def run(ctx, mod, seed):
    t0 = time.time()
    pr.QUERY_LOG = []
    try:
        shadow = Ctx(ctx.prop, root=ctx.root, tier='thorough')
        mod.run(shadow)
        log = pr.QUERY_LOG
    finally:
        pr.QUERY_LOG = None
    seen = set()
    rechecked = paths = capped = 0
    for cfg, srcs, dsts, avoid, verdict in log:
        key = (cfg.func.key, srcs, dsts, avoid)
        if key in seen:
            continue
        seen.add(key)
        got, walked = enumerate_decide(cfg, srcs, dsts, avoid)
        paths += walked
        if got is None:
            capped += 1
            continue
        rechecked += 1
        if got != verdict:
            raise AnalysisError(f'path enumeration disagrees with graph search in {cfg.func.key}: '
                                f'search={verdict} enumeration={got} (srcs {srcs}, dsts {sorted(dsts)})')
    ctx.paths_enumerated = paths
    ctx.path_evals = rechecked
    extra = {'path_queries_logged': len(log), 'path_queries_rechecked_by_enumeration': rechecked,
             'path_queries_capped': capped, 'paths_enumerated': paths, 'enumeration_wall_s': round(time.time() - t0, 2)}
    try:
        from . import sweep
    except ImportError:
        sweep = None
    if sweep is not None:
        extra.update(sweep.run(ctx, mod, seed))
    return extra
