'''Definite assignment: a local that is read on some path before any assignment raises UnboundLocalError / NameError.

Forward must-analysis on the statement CFG: IN[n] = intersection of OUT[p] over predecessors; OUT[n] = IN[n] + names
bound by n.  Along an exception edge the bindings of the raising statement have not happened (OUT = IN), except for the
names bound by the target of a `for` / `with ... as` head, which are bound before the body can raise.

Scope rules: only names that are local to the function (assigned somewhere in it, not declared global / nonlocal) are
tracked; comprehension variables live in their own scope and are skipped; reads inside nested functions / lambdas are
deferred (they execute later) and are skipped too.
'''
import ast



def head_exprs(stmt):
    '''Root expressions evaluated by the statement head itself (not by nested statements).'''
    if isinstance(stmt, (ast.If, ast.While)):
        return [stmt.test]
    if isinstance(stmt, (ast.For, ast.AsyncFor)):
        return [stmt.iter]
    if isinstance(stmt, (ast.With, ast.AsyncWith)):
        return [i.context_expr for i in stmt.items]
    if isinstance(stmt, ast.Try):
        return []
    if isinstance(stmt, ast.ExceptHandler):
        return [stmt.type] if stmt.type else []
    if isinstance(stmt, (ast.FunctionDef, ast.AsyncFunctionDef, ast.ClassDef)):
        return list(stmt.decorator_list)
    return [stmt]


def _bound_by(node):
    '''Names a CFG node's statement head binds when it completes normally.'''
    out = set()

    def tgt(t):
        if isinstance(t, ast.Name):
            out.add(t.id)
        elif isinstance(t, (ast.Tuple, ast.List)):
            for e in t.elts:
                tgt(e)
        elif isinstance(t, ast.Starred):
            tgt(t.value)
    if isinstance(node, ast.Assign):
        for t in node.targets:
            tgt(t)
    elif isinstance(node, (ast.AugAssign, ast.AnnAssign)):
        if not (isinstance(node, ast.AnnAssign) and node.value is None):
            tgt(node.target)
    elif isinstance(node, (ast.For, ast.AsyncFor)):
        tgt(node.target)
    elif isinstance(node, (ast.With, ast.AsyncWith)):
        for it in node.items:
            if it.optional_vars is not None:
                tgt(it.optional_vars)
    elif isinstance(node, (ast.Import, ast.ImportFrom)):
        for a in node.names:
            out.add((a.asname or a.name).split('.')[0])
    elif isinstance(node, (ast.FunctionDef, ast.AsyncFunctionDef, ast.ClassDef)):
        out.add(node.name)
    elif isinstance(node, ast.ExceptHandler):
        if node.name:
            out.add(node.name)
    # walrus anywhere in the head
    if isinstance(node, ast.AST):
        for e in head_exprs(node) if isinstance(node, ast.stmt) else []:
            for x in ast.walk(e):
                if isinstance(x, ast.NamedExpr) and isinstance(x.target, ast.Name):
                    out.add(x.target.id)
    return out


def _loads(node):
    '''Name loads in the statement head that execute when the statement runs (not inside nested defs / lambdas /
    comprehension element scopes, except the first iterable of a comprehension, which is evaluated outside).'''
    out = []

    def go(e, shadow):
        if isinstance(e, (ast.Lambda, ast.FunctionDef, ast.AsyncFunctionDef, ast.ClassDef)):
            return
        if isinstance(e, (ast.ListComp, ast.SetComp, ast.GeneratorExp, ast.DictComp)):
            go(e.generators[0].iter, shadow)
            sh = set(shadow)
            for g in e.generators:
                for x in ast.walk(g.target):
                    if isinstance(x, ast.Name):
                        sh.add(x.id)
            for i, g in enumerate(e.generators):
                if i:
                    go(g.iter, sh)
                for c in g.ifs:
                    go(c, sh)
            if isinstance(e, ast.DictComp):
                go(e.key, sh)
                go(e.value, sh)
            else:
                go(e.elt, sh)
            return
        if isinstance(e, ast.Name):
            if isinstance(e.ctx, ast.Load) and e.id not in shadow:
                out.append(e)
            return
        for c in ast.iter_child_nodes(e):
            go(c, shadow)
    if isinstance(node, ast.stmt):
        for e in head_exprs(node):
            go(e, set())
        if isinstance(node, ast.AugAssign) and isinstance(node.target, ast.Name):
            out.append(ast.copy_location(ast.Name(id=node.target.id, ctx=ast.Load()), node))
    return out


def locals_of(func):
    loc = set(func.params)
    decl = set()
    for n in func.own_nodes():
        if isinstance(n, (ast.Global, ast.Nonlocal)):
            decl |= set(n.names)
        if isinstance(n, ast.stmt) or isinstance(n, ast.ExceptHandler):
            loc |= _bound_by(n)
        if isinstance(n, ast.NamedExpr) and isinstance(n.target, ast.Name):
            loc.add(n.target.id)
    a = func.node.args
    for extra in (a.vararg, a.kwarg):
        if extra is not None:
            loc.add(extra.arg)
    for x in a.kwonlyargs + getattr(a, 'posonlyargs', []):
        loc.add(x.arg)
    return loc - decl


def possibly_unbound(func, cfg):
    '''[(Name node, statement)] reads of a local that is not definitely assigned on every path from the entry.'''
    loc = locals_of(func)
    a = func.node.args
    start = set(func.params) | {x.arg for x in a.kwonlyargs + getattr(a, 'posonlyargs', [])}
    for extra in (a.vararg, a.kwarg):
        if extra is not None:
            start.add(extra.arg)
    g = cfg.g
    nodes = list(g.nodes)
    TOP = None
    IN = {n: TOP for n in nodes}
    OUT = {n: TOP for n in nodes}
    IN[cfg.entry] = set(start)
    OUT[cfg.entry] = set(start)
    bound = {}
    early = {}
    for n in nodes:
        a_ = cfg.ast(n)
        b = _bound_by(a_) if a_ is not None and cfg.kind(n) not in ('with_exit', 'finally') else set()
        bound[n] = b & loc
        # bindings that are in place before the node can raise into a handler (loop / with targets: bound when the body runs)
        early[n] = bound[n] if isinstance(a_, (ast.For, ast.AsyncFor, ast.With, ast.AsyncWith, ast.ExceptHandler)) else set()
    work = [cfg.entry]
    seen_once = set()
    while work:
        n = work.pop()
        for m in g.successors(n):
            kinds = g[n][m]['kinds']
            # for loops: the target is bound only on the edge into the body
            a_ = cfg.ast(n)
            if OUT[n] is TOP and n != cfg.entry:
                continue
            contrib = None
            base_in = IN[n] if IN[n] is not TOP else set()
            if isinstance(a_, (ast.For, ast.AsyncFor)):
                for k in kinds:
                    c = (base_in | bound[n]) if k == 'true' else set(base_in)
                    contrib = c if contrib is None else (contrib & c)
            else:
                for k in kinds:
                    c = (base_in | early[n]) if k == 'exc' else OUT[n]
                    contrib = set(c) if contrib is None else (contrib & c)
            new_in = contrib if IN[m] is TOP else (IN[m] & contrib)
            if IN[m] is TOP or new_in != IN[m] or m not in seen_once:
                IN[m] = new_in
                OUT[m] = new_in | (bound[m] if not isinstance(cfg.ast(m), (ast.For, ast.AsyncFor)) else set())
                seen_once.add(m)
                work.append(m)
    out = []
    for n in nodes:
        a_ = cfg.ast(n)
        if a_ is None or IN[n] is TOP or cfg.kind(n) in ('with_exit', 'finally'):
            continue
        for nm in _loads(a_):
            if nm.id in loc and nm.id not in IN[n] and not (isinstance(a_, (ast.For, ast.AsyncFor)) and False):
                out.append((nm, a_))
    return out
