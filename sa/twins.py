"""Behaviour-preserving rewrites of the whole tree ("silent twins"), built as in-memory overlays.  Used by tools/twins.py
(all checks x all kinds) and by the thorough tier (sa/sweep.py)."""
import ast
import os

from .model import Repo

KINDS = ['reflow', 'noop', 'flip', 'rename', 'invert', 'namedcond', 'tempret', 'augexpand', 'alias', 'swapindep', 'annotate']


def bound_names(fn):
    '''Names bound in the function's own scope (not params), and names declared global / nonlocal.'''
    bound, decl = set(), set()
    params = {a.arg for a in fn.args.posonlyargs + fn.args.args + fn.args.kwonlyargs}
    if fn.args.vararg:
        params.add(fn.args.vararg.arg)
    if fn.args.kwarg:
        params.add(fn.args.kwarg.arg)

    def walk(n, top):
        for c in ast.iter_child_nodes(n):
            if isinstance(c, (ast.FunctionDef, ast.AsyncFunctionDef)):
                bound.add(c.name)
                continue
            if isinstance(c, (ast.ClassDef, ast.Lambda)):
                if isinstance(c, ast.ClassDef):
                    bound.add(c.name)
                continue
            if isinstance(c, (ast.Global, ast.Nonlocal)):
                decl.update(c.names)
            if isinstance(c, ast.Name) and isinstance(c.ctx, (ast.Store, ast.Del)):
                bound.add(c.id)
            if isinstance(c, ast.ExceptHandler) and c.name:
                bound.add(c.name)
            if isinstance(c, (ast.ListComp, ast.SetComp, ast.DictComp, ast.GeneratorExp)):
                # comprehension targets live in their own scope: handled as ordinary names (renamed consistently)
                pass
            walk(c, False)
    walk(fn, True)
    return (bound - params - decl), params, decl


class Renamer(ast.NodeTransformer):
    def __init__(self, mapping):
        self.m = mapping

    def visit_Name(self, n):
        if n.id in self.m:
            return ast.copy_location(ast.Name(id=self.m[n.id], ctx=n.ctx), n)
        return n

    def visit_ExceptHandler(self, n):
        if n.name in self.m:
            n.name = self.m[n.name]
        self.generic_visit(n)
        return n

    def visit_Nonlocal(self, n):
        n.names = [self.m.get(x, x) for x in n.names]
        return n

    def visit_FunctionDef(self, n):
        return self._fn(n)

    visit_AsyncFunctionDef = visit_FunctionDef

    def _fn(self, n):
        # nested function: names it rebinds itself (or takes as params) shadow the outer mapping
        b, params, _decl = bound_names(n)
        inner = {k: v for k, v in self.m.items() if k not in b and k not in params}
        if n.name in self.m:
            n.name = self.m[n.name]
        sub = Renamer(inner)
        n.args = sub.visit(n.args)
        n.body = [sub.visit(s) for s in n.body]
        n.decorator_list = [self.visit(d) for d in n.decorator_list]
        return n

    def visit_Lambda(self, n):
        params = {a.arg for a in n.args.args}
        sub = Renamer({k: v for k, v in self.m.items() if k not in params})
        n.body = sub.visit(n.body)
        return n


def rename_tree(tree):
    class Top(ast.NodeTransformer):
        def visit_FunctionDef(self, n):
            b, params, decl = bound_names(n)
            # do not rename names that nested functions declare nonlocal under another spelling etc. - handled by Renamer
            mapping = {x: x + '_r' for x in b if not x.startswith('__')}
            r = Renamer(mapping)
            n.body = [r.visit(s) for s in n.body]
            # recurse into nested defs for their own locals
            n.body = [self.visit(s) if isinstance(s, (ast.FunctionDef, ast.AsyncFunctionDef, ast.ClassDef)) else self._deep(s) for s in n.body]
            return n
        visit_AsyncFunctionDef = visit_FunctionDef

        def _deep(self, s):
            for c in ast.walk(s):
                for fld, val in ast.iter_fields(c):
                    if isinstance(val, list):
                        for i, x in enumerate(val):
                            if isinstance(x, (ast.FunctionDef, ast.AsyncFunctionDef)):
                                val[i] = self.visit(x)
            return s
    return Top().visit(tree)


def noop_tree(tree):
    for n in ast.walk(tree):
        if isinstance(n, (ast.FunctionDef, ast.AsyncFunctionDef)):
            i = 1 if (n.body and isinstance(n.body[0], ast.Expr) and isinstance(n.body[0].value, ast.Constant) and isinstance(n.body[0].value.value, str)) else 0
            stmt = ast.parse('_verif_noop = None').body[0]
            n.body.insert(i, stmt)
    return tree


class Flip(ast.NodeTransformer):
    OPS = {ast.Lt: ast.Gt, ast.Gt: ast.Lt, ast.LtE: ast.GtE, ast.GtE: ast.LtE}

    def visit_Compare(self, n):
        self.generic_visit(n)
        if len(n.ops) == 1 and type(n.ops[0]) in self.OPS:
            return ast.copy_location(ast.Compare(left=n.comparators[0], ops=[self.OPS[type(n.ops[0])]()], comparators=[n.left]), n)
        return n


def _bodies(tree):
    for n in ast.walk(tree):
        for fld in ('body', 'orelse', 'finalbody'):
            b = getattr(n, fld, None)
            if isinstance(b, list) and b and isinstance(b[0], ast.stmt):
                yield n, fld, b


def invert_tree(tree):
    '''if c: A else: B  ->  if not c: B else: A   (plain two-armed ifs only; elif chains untouched)'''
    for n in ast.walk(tree):
        if isinstance(n, ast.If) and n.orelse and not (len(n.orelse) == 1 and isinstance(n.orelse[0], ast.If)):
            n.test = ast.UnaryOp(op=ast.Not(), operand=n.test)
            n.body, n.orelse = n.orelse, n.body
    return tree


def namedcond_tree(tree):
    '''if <compound test>:  ->  _vc = <compound test>; if _vc:   (not for elif arms, not for loops)'''
    k = [0]
    for parent, fld, body in list(_bodies(tree)):
        new = []
        for st in body:
            is_elif = isinstance(parent, ast.If) and fld == 'orelse' and len(body) == 1 and isinstance(st, ast.If)
            if isinstance(st, ast.If) and not is_elif and isinstance(st.test, (ast.Compare, ast.BoolOp, ast.UnaryOp, ast.Call)) \
                    and not any(isinstance(x, (ast.Await, ast.NamedExpr, ast.Yield)) for x in ast.walk(st.test)):
                k[0] += 1
                nm = f'_vc{k[0]}'
                new.append(ast.copy_location(ast.Assign(targets=[ast.Name(id=nm, ctx=ast.Store())], value=st.test), st))
                st.test = ast.copy_location(ast.Name(id=nm, ctx=ast.Load()), st)
            new.append(st)
        setattr(parent, fld, new)
    return tree


def tempret_tree(tree):
    '''return <expr>  ->  _vr = <expr>; return _vr'''
    for parent, fld, body in list(_bodies(tree)):
        new = []
        for st in body:
            if isinstance(st, ast.Return) and st.value is not None and not isinstance(st.value, (ast.Name, ast.Constant)):
                new.append(ast.copy_location(ast.Assign(targets=[ast.Name(id='_vr', ctx=ast.Store())], value=st.value), st))
                st.value = ast.copy_location(ast.Name(id='_vr', ctx=ast.Load()), st)
            new.append(st)
        setattr(parent, fld, new)
    return tree


def augexpand_tree(tree):
    '''x += e  ->  x = x + e   (names and attribute targets; subscripts untouched: the index would be evaluated twice)'''
    import copy
    for parent, fld, body in list(_bodies(tree)):
        for k, st in enumerate(body):
            if isinstance(st, ast.AugAssign) and isinstance(st.target, (ast.Name, ast.Attribute)):
                left = copy.deepcopy(st.target)
                for x in ast.walk(left):
                    if hasattr(x, 'ctx'):
                        x.ctx = ast.Load()
                body[k] = ast.copy_location(ast.Assign(targets=[st.target], value=ast.BinOp(left=left, op=st.op, right=st.value)), st)
    return tree


def alias_tree(tree):
    '''in every method, the most frequently read `self.<attr>` that the method never assigns gets a local alias at the top'''
    import copy
    for fn in [n for n in ast.walk(tree) if isinstance(n, (ast.FunctionDef, ast.AsyncFunctionDef))]:
        if not fn.args.args or fn.args.args[0].arg != 'self':
            continue
        reads, written = {}, set()
        nested = [n for n in ast.walk(fn) if isinstance(n, (ast.FunctionDef, ast.AsyncFunctionDef, ast.Lambda)) and n is not fn]
        skip = {id(x) for n in nested for x in ast.walk(n)}
        for x in ast.walk(fn):
            if id(x) in skip:
                continue
            if isinstance(x, ast.Attribute) and isinstance(x.value, ast.Name) and x.value.id == 'self':
                if isinstance(x.ctx, ast.Load):
                    reads[x.attr] = reads.get(x.attr, 0) + 1
                else:
                    written.add(x.attr)
        # fields assigned through an AugAssign / anywhere in the class are left alone too: keep to plain reads
        cands = [(c, a) for a, c in reads.items() if a not in written and c >= 2]
        if not cands:
            continue
        attr = sorted(cands, key=lambda t: (-t[0], t[1]))[0][1]
        # the aliased object must not be re-bound while the method runs; be conservative: skip state-like scalars
        if attr in ('ok', 'caught_up', 'reorg_count', 'length', 'level', 'truncations', 'depth_higher', 'flush_count', 'fs_height',
                    'fs_tx_count', 'state', 'touched', 'notified_height', 'cursor', 'comp_cursor', 'comp_flush_count', '_reorg_count',
                    '_touched_count', '_highest_block', 'url_index', 'headers', 'tx_hashes', 'undo_infos', 'last_flush_state',
                    'hsub_results', 'cost', 'force_flush_arg'):
            continue
        nm = f'_al_{attr}'

        class R(ast.NodeTransformer):
            def visit_Attribute(self, x):
                self.generic_visit(x)
                if isinstance(x.value, ast.Name) and x.value.id == 'self' and x.attr == attr and isinstance(x.ctx, ast.Load) and id(x) not in skip:
                    return ast.copy_location(ast.Name(id=nm, ctx=ast.Load()), x)
                return x

            def visit_FunctionDef(self, x):
                return x if x is not fn else self.generic_visit(x)
            visit_AsyncFunctionDef = visit_FunctionDef

            def visit_Lambda(self, x):
                return x
        R().visit(fn)
        i = 1 if (fn.body and isinstance(fn.body[0], ast.Expr) and isinstance(fn.body[0].value, ast.Constant) and isinstance(fn.body[0].value.value, str)) else 0
        fn.body.insert(i, ast.parse(f'{nm} = self.{attr}').body[0])
    return tree


def swapindep_tree(tree):
    '''two adjacent simple assignments to different plain locals whose right-hand sides are side-effect free (names, constants,
    attribute reads, arithmetic) and that do not mention each other's target are swapped'''
    def pure(e):
        return all(isinstance(x, (ast.Name, ast.Constant, ast.Attribute, ast.BinOp, ast.UnaryOp, ast.operator, ast.unaryop, ast.expr_context,
                                  ast.Compare, ast.cmpop, ast.BoolOp, ast.boolop, ast.Tuple)) for x in ast.walk(e))

    def names(e):
        return {x.id for x in ast.walk(e) if isinstance(x, ast.Name)}
    for parent, fld, body in list(_bodies(tree)):
        k = 0
        while k + 1 < len(body):
            a, b = body[k], body[k + 1]
            # plain locals only: the order of two attribute stores can matter to a concurrent reader (ok flag vs state)
            if all(isinstance(x, ast.Assign) and len(x.targets) == 1 and isinstance(x.targets[0], ast.Name) and pure(x.value) for x in (a, b)) \
                    and a.targets[0].id != b.targets[0].id and a.targets[0].id not in names(b.value) and b.targets[0].id not in names(a.value):
                body[k], body[k + 1] = b, a
                k += 2
            else:
                k += 1
    return tree


def annotate_tree(tree):
    '''every plain assignment of a constant gets a type annotation; every function gets parameter and return annotations'''
    for parent, fld, body in list(_bodies(tree)):
        for k, st in enumerate(body):
            if isinstance(st, ast.Assign) and len(st.targets) == 1 and isinstance(st.targets[0], ast.Name) and isinstance(st.value, ast.Constant) \
                    and not isinstance(parent, ast.ClassDef):
                tname = type(st.value.value).__name__ if st.value.value is not None else 'object'
                body[k] = ast.copy_location(ast.AnnAssign(target=st.targets[0], annotation=ast.Name(id=tname, ctx=ast.Load()), value=st.value, simple=1), st)
    for fn in ast.walk(tree):
        if isinstance(fn, (ast.FunctionDef, ast.AsyncFunctionDef)):
            for a in fn.args.args:
                if a.arg not in ('self', 'cls') and a.annotation is None:
                    a.annotation = ast.Constant(value='object')
            if fn.returns is None:
                fn.returns = ast.Constant(value='object')
    return tree


def make_overlay(kind, root='/repo'):
    repo = Repo(root)
    out = {}
    for rel, unit in repo.units.items():
        tree = ast.parse(unit.source)
        if kind == 'rename':
            tree = rename_tree(tree)
        elif kind == 'noop':
            tree = noop_tree(tree)
        elif kind == 'flip':
            tree = Flip().visit(tree)
        elif kind == 'annotate':
            tree = annotate_tree(tree)
        elif kind == 'swapindep':
            tree = swapindep_tree(tree)
        elif kind == 'augexpand':
            tree = augexpand_tree(tree)
        elif kind == 'alias':
            tree = alias_tree(tree)
        elif kind == 'invert':
            tree = invert_tree(tree)
        elif kind == 'namedcond':
            tree = namedcond_tree(tree)
        elif kind == 'tempret':
            tree = tempret_tree(tree)
        elif kind == 'reflow':
            pass
        else:
            raise SystemExit(f'unknown twin {kind}')
        ast.fix_missing_locations(tree)
        out[rel] = ast.unparse(tree) + '\n'
    return out


