'''C05 - a crash in the middle of undoing blocks is recoverable.

Decided on the inlined effect graph of DB.flush_backup: REVOCABLE (the commit-protocol rule of C04 applied
to the backup path - fires on History.backup's in-place rewrite: known finding F9), ATOMIC (UTXO rows and
state record in one batch), UNDOKEPT (no undo row is deleted on the backup path), HISTTRUNC (every backup
flush truncates history at the already decremented tx count, in the same job as the UTXO commit), SCRUB
(shared with C04: the open path scrubs with a strict comparison - an off-by-one deletes the last good
flush after a crashed backup), REDETECT (restart re-detects the fork: C03.TIPCHECK).
Not decided: the post-restart state for every cut and continuation chain.
'''
import ast

from ..model import AnalysisError, norm
from ..effects import InlineGraph, key_provenance
from .. import q, pathrules as pr
from .flushcommon import commit_points
from . import c04

EXPLANATION = ('static necessary conditions of C05 on the inlined effect graph of DB.flush_backup: commit-protocol revocability '
               '(reports the known in-place history rewrite), single UTXO batch with state, undo rows kept, history truncation '
               'paired with every backup commit at the decremented count, open-time scrub comparison, fork re-detection. '
               'Does NOT decide the post-restart state for each cut.')
ASSUMPTIONS = c04.ASSUMPTIONS + ['History.backup is idempotent for a given (hashXs, tx_count) (argued in DESIGN.md, not checked)']


def rule_histtrunc(ctx, ig, cp, prop='C05'):
    '''flush_backup: backup_fs and history.backup receive the decremented state's height / tx_count and
    lie on every path to the UTXO commit.'''
    f = ig.root.func
    hb = ctx.func('hist', 'History.backup')
    bfs = ctx.func('db', 'DB.backup_fs', required=False)
    n = 0
    if bfs is None:
        # the two-line pointer update merged into flush_backup itself: the same requirement on the assignments
        want_ = {'self.fs_height': 'flush_data.state.height', 'self.fs_tx_count': 'flush_data.state.tx_count'}
        sts = {t_: [s_ for s_ in f.own_nodes() if isinstance(s_, ast.Assign) and len(s_.targets) == 1 and ctx.res.canon(s_.targets[0], f) == t_]
               for t_ in want_}
        ok = all(len(v) == 1 and norm(v[0].value) == want_[t_] for t_, v in sts.items())
        why = 'the file pointers fs_height / fs_tx_count are not set once each to the decremented state (and DB.backup_fs is gone)'
        wit = None
        if ok:
            for t_, v in sts.items():
                gn = (ig.root.id, ig.root.cfg.node(v[0]))
                skip = ig.path_avoiding([ig.entry], [cp.gnode], {gn})
                if skip is not None:
                    ok, why, wit = False, f'the UTXO commit can be reached without `{norm(v[0])}`', ig.describe(skip)
        ctx.check(ok, (f'{prop}.HISTTRUNC' if prop != 'C06' else 'C06.JOBATOMIC'), ctx.key(f, None, 'DB.backup_fs'),
                  'the file pointers are lowered to the decremented state on every path to the UTXO commit of the same job',
                  why + ' (a stop or crash between jobs then leaves the files ahead of the stored state)', witness=wit, loc=ctx.loc(f, f.node))
        n += 1
    for callee, want in ((hb, {1: 'flush_data.state.tx_count'}), (bfs, {0: 'flush_data.state.height', 1: 'flush_data.state.tx_count'})):
        if callee is None:
            continue
        calls = q.calls_resolving_to(ctx, f, callee)
        ok = len(calls) == 1
        wit = None
        why = f'{callee.qual} is not called exactly once by flush_backup'
        if ok:
            c = calls[0]
            for idx, exp in want.items():
                if idx >= len(c.args) or norm(c.args[idx]) != exp:
                    ok = False
                    why = f'{callee.qual} does not receive {exp} (got {norm(c)})'
            gn = (ig.root.id, ig.root.cfg.node(q.stmt(c)))
            # the call statement node is preceded by the inlined callee: use its entry for path purposes
            skip = ig.path_avoiding([ig.entry], [cp.gnode], {gn})
            if skip is not None:
                ok = False
                why = f'the UTXO commit can be reached without {callee.qual}'
                wit = ig.describe(skip)
        ctx.check(ok, (f'{prop}.HISTTRUNC' if prop != 'C06' else 'C06.JOBATOMIC'), ctx.key(f, None, callee.qual),
                  f'{callee.qual} runs with the decremented state on every path to the UTXO commit of the same job',
                  why + ' (a stop or crash between jobs then leaves history entries above the stored tx count)',
                  witness=wit, loc=ctx.loc(f, f.node))
        n += 1
    # touched set handed through unchanged
    c = q.calls_resolving_to(ctx, f, hb)
    if len(c) == 1:
        ok = norm(c[0].args[0]) == f.params[2] if len(f.params) > 2 and c[0].args else False
        ctx.check(ok, (f'{prop}.HISTTRUNC' if prop != 'C06' else 'C06.JOBATOMIC'), ctx.key(f, None, 'touched set'),
                  'the touched script hashes of the block are the ones whose history is truncated',
                  'history.backup does not receive the touched set of the block', loc=ctx.loc(f, f.node))
        n += 1
    # backup_block: state decremented before flush_backup, which receives flush_data() and self.touched
    bb = ctx.func('bp', 'BlockProcessor.backup_block')
    bcfg = ctx.cfg(bb)
    fb = ig.root.func
    fcalls = q.calls_resolving_to(ctx, bb, fb)
    if len(fcalls) != 1:
        ctx.bad((f'{prop}.HISTTRUNC' if prop != 'C06' else 'C06.JOBATOMIC'), ctx.key(bb, None, 'flush_backup call'), 'backup_block does not call flush_backup exactly once',
                loc=ctx.loc(bb, bb.node))
        return n + 1
    fc = fcalls[0]
    fcn = bcfg.node(q.stmt(fc))
    for fld in ('height', 'tx_count', 'tip'):
        ws = [s for s in bb.own_nodes() if isinstance(s, (ast.Assign, ast.AugAssign))
              and any(isinstance(t, ast.Attribute) and t.attr == fld and ctx.res.type_of(t.value, bb) == ('inst', 'ChainState')
                      for t in (s.targets if isinstance(s, ast.Assign) else [s.target]))]
        ok = len(ws) == 1 and pr.path_avoiding(bcfg, [bcfg.entry], [fcn], {bcfg.node(ws[0])}) is None \
            and bcfg.find_path([fcn], {bcfg.node(ws[0])}) is None
        ctx.check(ok, (f'{prop}.HISTTRUNC' if prop != 'C06' else 'C06.JOBATOMIC'), ctx.key(bb, None, f'state.{fld} before flush_backup'),
                  f'state.{fld} is moved back before the backup flush that persists it',
                  f'state.{fld} is not moved back exactly once before flush_backup', loc=ctx.loc(bb, fc))
        n += 1
    args_ok = len(fc.args) >= 2 and norm(fc.args[0]) == 'self.flush_data()' and norm(fc.args[1]) == 'self.touched'
    ctx.check(args_ok, (f'{prop}.HISTTRUNC' if prop != 'C06' else 'C06.JOBATOMIC'), ctx.key(bb, q.stmt(fc), 'arguments'),
              'flush_backup receives the live flush data and the touched set',
              f'flush_backup does not receive self.flush_data() and self.touched: {norm(fc)}', loc=ctx.loc(bb, fc))
    return n + 1


def rule_undokept(ctx, ig, prop='C05'):
    n = 0
    for e in ig.of(('DELETE', 'DIRECT_DELETE'), 'UTXO'):
        # deletes of the flush come from flush_data.deletes (h/u rows recorded by spend_utxo); an undo key
        # would be built by undo_key / start with b'U'
        key = e.call.args[0] if e.call.args else None
        txt = norm(key) if key is not None else ''
        f = e.frame.func
        src = None
        if isinstance(key, ast.Name):
            from .. import dataflow as df
            d = df.last_def_before(f, key.id, e.call) or (None, None)
            src = d[1]
        is_undo = 'undo_key' in txt or (src is not None and ('undo' in norm(src) or "b'U'" in norm(src)))
        n += 1
        ctx.check(not is_undo, f'{prop}.UNDOKEPT', ctx.key(f, e.call, 'delete on backup path'),
                  f'delete on the backup path takes keys from {norm(src) if src is not None else txt} (spent UTXO rows), not undo rows',
                  'an undo row is deleted on the backup path: a crash before the UTXO commit leaves the block impossible to undo',
                  loc=f'{f.unit.relpath}:{int(round(e.call.lineno))}')
    return n


def run(ctx):
    fb = ctx.func('db', 'DB.flush_backup')
    ig = InlineGraph(ctx, fb)
    cps, _sp = commit_points(ig)
    if len(cps) != 1:
        ctx.bad('C05.ATOMIC', ctx.key(fb, None, 'commit point'),
                f'expected exactly one UTXO batch carrying the state record on the backup path, found {len(cps)}',
                loc=ctx.loc(fb, fb.node))
        return
    cp = cps[0]
    ctx.rule('C05.REVOCABLE', lambda: c04.rule_revocable(ctx, ig, cp, 'C05'), 3)
    ctx.rule('C05.ATOMIC', lambda: c04.rule_atomic(ctx, ig, cp, 'C05'), 5)
    ctx.rule('C05.UNDOKEPT', lambda: rule_undokept(ctx, ig), 1)
    ctx.rule('C05.HISTTRUNC', lambda: rule_histtrunc(ctx, ig, cp), 7)
    ctx.rule('C05.SCRUB', lambda: c04.rule_scrub(ctx, 'C05'), 6)
    # REDETECT = C03.TIPCHECK
    from . import c03
    ctx.rule('C05.REDETECT', lambda: c03.rule_tipcheck(ctx, 'C05.REDETECT'), 5)
    ctx.rule('C05.STATEALIAS', lambda: c04.rule_statealias(ctx, 'C05'), 2)
    ctx.rule('C05.STORAGE', lambda: c04.rule_storage_batch(ctx, 'C05'), 2)
    # the backup path commits through the same flush_utxo_db: the batch must carry the state that matches its rows
    ctx.rule('C05.STATEMOVE', lambda: c04.rule_state_moves_with_commit(ctx, 'C05'), 2)
    # the restarted process re-runs the reorganisation from whatever was committed: every static condition of a correct
    # reorganisation (C03) is also a necessary condition here
    c03.run(ctx)
    ctx.note(f'inlined effect graph of DB.flush_backup: {ig.stats()}')
