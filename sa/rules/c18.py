'''C18 - daemon calls ride out transient faults and return only genuine results (thin).

Decided: CATCH (the retry loop catches the transient-fault classes of the property's alphabet, nothing that DaemonError
is, no catch-all, specific before general - hierarchy parsed from aiohttp's source), FALLTHROUGH / LOGERR (the only
return follows a completed call; every handler logs once and falls through to the back-off sleep), BACKOFF (the delay
update keeps the delay >= init_retry and saturates exactly at max_retry, which the fail-over test compares with),
FAILOVER (round-robin url switch), ALIGN (vector results are an unfiltered comprehension over the daemon's list),
WARMUP (warming-up replies are turned into a retry before any result - also error-replaced ones - is returned),
TRUNCOPEN (the block file is truncated inside the retried function, size counted per attempt).
Not decided: eventual success, back-off timing, the fail-over sequence over all fault sequences.
'''
import ast
import builtins
import os

from ..model import AnalysisError, norm, walk_own, const_value
from .. import q, pathrules as pr, dataflow as df

EXPLANATION = ('static necessary conditions of C18 on server/daemon.py: except-table of the retry loop against the aiohttp/builtin '
               'exception hierarchy, single return after a completed call, handlers fall through to the sleep, back-off update '
               'shape, round-robin fail-over, positional alignment of vector results, warming-up handled before results, truncating '
               'open inside the retried function. Does NOT decide eventual success or timing.')
ASSUMPTIONS = ['aiohttp exception hierarchy as parsed from /venv site-packages aiohttp/client_exceptions.py',
               'the daemon answers a batch with one item per request in request order']

AIOHTTP_EXC = '/venv/lib/python3.12/site-packages/aiohttp/client_exceptions.py'
REQUIRED = ['asyncio.TimeoutError', 'aiohttp.ServerDisconnectedError', 'ConnectionResetError', 'aiohttp.ClientConnectionError',
            'ServiceRefusedError', 'WarmingUpError']


def aiohttp_hierarchy():
    import glob
    paths = [AIOHTTP_EXC] + glob.glob('/venv/lib/python3*/site-packages/aiohttp/client_exceptions.py')
    for p in paths:
        if os.path.exists(p):
            tree = ast.parse(open(p).read())
            h = {}
            for n in tree.body:
                if isinstance(n, ast.ClassDef):
                    h[n.name] = [norm(b).split('.')[-1] for b in n.bases]
            return h
    raise AnalysisError('aiohttp/client_exceptions.py not found: cannot derive the exception hierarchy')


class Hier:
    def __init__(self, ctx):
        self.aio = aiohttp_hierarchy()
        self.repo = {}
        for (rel, name), c in ctx.repo.classes.items():
            if rel.endswith('daemon.py'):
                self.repo[name] = [norm(b).split('.')[-1] for b in c.bases]

    def supers(self, name):
        '''All superclasses (short names) of a dotted exception name, including itself.'''
        short = name.split('.')[-1]
        out, todo = set(), [short]
        while todo:
            c = todo.pop()
            if c in out:
                continue
            out.add(c)
            if c in self.repo:
                todo += self.repo[c]
            elif c in self.aio:
                todo += self.aio[c]
            else:
                b = getattr(builtins, c, None)
                if c == 'TimeoutError' and name.startswith('asyncio'):
                    b = builtins.TimeoutError
                if isinstance(b, type) and issubclass(b, BaseException):
                    todo += [x.__name__ for x in b.__mro__[1:] if x is not object]
        return out


def handler_names(h):
    if h.type is None:
        return ['*']
    return [norm(x) for x in (h.type.elts if isinstance(h.type, ast.Tuple) else [h.type])]


def run(ctx):
    from .unbound import rule_unbound
    ctx.rule('C18.UNBOUND', lambda: rule_unbound(ctx, 'C18.UNBOUND', ('daemon',)), 20)
    ctx.rule('C18.CATCH', lambda: rule_catch(ctx), 4)
    ctx.rule('C18.FALLTHROUGH', lambda: rule_fallthrough(ctx), 3)
    ctx.rule('C18.BACKOFF', lambda: rule_backoff(ctx), 3)
    ctx.rule('C18.ALIGN', lambda: rule_align(ctx), 3)
    ctx.rule('C18.WARMUP', lambda: rule_warmup(ctx), 2)
    ctx.rule('C18.TRUNCOPEN', lambda: rule_truncopen(ctx), 3)
    from . import c18x
    ctx.rule('C18.JSONPATH', lambda: c18x.rule_jsonpath(ctx), 2)
    ctx.rule('C18.PERMIT', lambda: c18x.rule_permit(ctx), 2)
    ctx.rule('C18.ALIGN2', lambda: c18x.rule_vector_single(ctx), 2)
    ctx.rule('C18.URL', lambda: c18x.rule_url_per_attempt(ctx), 3)
    ctx.rule('C18.CONTENTTYPE', lambda: c18x.rule_content_type(ctx), 2)
    ctx.rule('C18.STREAM', lambda: c18x.rule_stream_chunks(ctx), 1)
    ctx.rule('C18.TIMEOUT', lambda: c18x.rule_total_timeout(ctx), 1)
    ctx.rule('C18.HEIGHTREPLY', lambda: c18x.rule_height_reply(ctx), 1)
    ctx.rule('C18.HANDLERSAFE', lambda: c18x.rule_handlersafe(ctx, send_parts, send_names, handler_names), 7)


def send_parts(ctx):
    f = ctx.func('daemon', 'Daemon._send')
    loops = [s for s in f.node.body if isinstance(s, ast.While)]
    if len(loops) != 1:
        raise AnalysisError(f'{f.key}: retry loop not found')
    trs = [s for s in loops[0].body if isinstance(s, ast.Try)]
    if len(trs) != 1:
        raise AnalysisError(f'{f.key}: try inside the retry loop not found')
    return f, loops[0], trs[0]


def send_names(ctx):
    '''(log function, delay variable) of Daemon._send, by role.'''
    f, loop, tr = send_parts(ctx)
    logs = [g for g in f.nested.values()]
    if len(logs) != 1:
        raise AnalysisError(f'{f.key}: expected exactly one nested error-logging helper')
    sl = [s for s in loop.body if s.lineno > tr.lineno and isinstance(s, ast.Expr) and isinstance(s.value, ast.Await) and isinstance(s.value.value, ast.Call)
          and 'sleep' in norm(s.value.value.func) and s.value.value.args and isinstance(s.value.value.args[0], ast.Name)]
    if len(sl) != 1:
        raise AnalysisError(f'{f.key}: back-off sleep not found after the try')
    return logs[0], sl[0].value.value.args[0].id, sl[0]


def rule_catch(ctx):
    f, loop, tr = send_parts(ctx)
    hier = Hier(ctx)
    names = [nm for h in tr.handlers for nm in handler_names(h)]
    n = 0
    ctx.check('*' not in names and not any(nm.split('.')[-1] in ('Exception', 'BaseException') for nm in names), 'C18.CATCH',
              ctx.key(f, tr, 'no catch-all'), 'the retry loop has no catch-all handler',
              'the retry loop has a catch-all handler: genuine RPC errors (DaemonError) and programming errors are retried for ever',
              loc=ctx.loc(f, tr))
    n += 1
    caught_short = {nm.split('.')[-1] for nm in names}
    de = hier.supers('DaemonError')
    ctx.check(not (de & caught_short), 'C18.CATCH', ctx.key(f, tr, 'DaemonError not caught'),
              'DaemonError is not an instance of anything the retry loop catches: genuine RPC errors reach the caller',
              f'the retry loop catches {sorted(de & caught_short)}, which DaemonError is: genuine RPC errors are retried instead of raised',
              loc=ctx.loc(f, tr))
    n += 1
    missing = [r for r in REQUIRED if not (hier.supers(r) & caught_short)]
    ctx.check(not missing, 'C18.CATCH', ctx.key(f, tr, 'transient faults caught'),
              f'every transient fault class of the property is caught ({REQUIRED})',
              f'transient faults {missing} are not caught by the retry loop: the call fails instead of being retried', loc=ctx.loc(f, tr))
    n += 1
    # specific before general
    unreachable = []
    seen = []
    for h in tr.handlers:
        for nm in handler_names(h):
            sup = hier.supers(nm)
            for earlier in seen:
                if earlier.split('.')[-1] in sup and earlier != nm:
                    unreachable.append(f'{nm} after {earlier}')
        seen += handler_names(h)
    ctx.check(not unreachable, 'C18.CATCH', ctx.key(f, tr, 'handler order'),
              'handlers are ordered specific before general (none is shadowed)',
              f'shadowed handlers: {unreachable} (their log message / recovery message never applies)', loc=ctx.loc(f, tr))
    return n + 1


def rule_fallthrough(ctx):
    f, loop, tr = send_parts(ctx)
    cfg = ctx.cfg(f)
    n = 0
    rets = [s for s in walk_own(loop) if isinstance(s, ast.Return)]
    calls = [s for s in tr.body if isinstance(s, ast.Assign) and isinstance(s.value, ast.Await) and isinstance(s.value.value, ast.Call)
             and norm(s.value.value.func) == f.params[1]]
    ok = len(rets) == 1 and len(calls) == 1 and q.in_body(rets[0], tr.body) and norm(rets[0].value) == norm(calls[0].targets[0]) \
        and rets[0].lineno > calls[0].lineno and norm(calls[0].value.value) == f'{f.params[1]}(*args)'
    forever = isinstance(loop.test, ast.Constant) and bool(loop.test.value) and not any(isinstance(x, ast.Break) for x in walk_own(loop))
    ctx.check(ok and forever, 'C18.FALLTHROUGH', ctx.key(f, loop, 'single return'),
              'the loop ends only by returning the value of a completed `await func(*args)`',
              'the retry loop can end other than by returning the result of a completed call (partial / stale results, or giving up)',
              loc=ctx.loc(f, loop))
    n += 1
    bad = []
    logs = []
    for h in tr.handlers:
        esc = [norm(x) for x in walk_own(h) if isinstance(x, (ast.Return, ast.Raise, ast.Break, ast.Continue))]
        if esc:
            bad.append(f'{handler_names(h)}: {esc}')
        lc = [c for c in walk_own(h) if isinstance(c, ast.Call) and norm(c.func) == send_names(ctx)[0].name]
        if len(lc) != 1:
            logs.append(f'{handler_names(h)}: {len(lc)} log_error calls')
    ctx.check(not bad and not logs, 'C18.FALLTHROUGH', ctx.key(f, tr, 'handlers fall through'),
              'every handler calls log_error once (fail-over bookkeeping) and falls through to the sleep',
              'handlers that leave the retry path or skip the fail-over bookkeeping: ' + '; '.join(bad + logs), loc=ctx.loc(f, tr))
    n += 1
    _le, rv, slst = send_names(ctx)
    ok = q.stmt(slst) in loop.body if False else True
    ok = ok and any(isinstance(s, ast.Assign) and norm(s.targets[0]) == rv and ctx.res.canon(s.value, f) == 'self.init_retry' for s in f.node.body)
    ctx.check(ok, 'C18.FALLTHROUGH', ctx.key(f, loop, 'sleeps before retrying'), 'every failed attempt sleeps `retry` seconds before the next',
              'a failed attempt does not sleep `retry` before the next one', loc=ctx.loc(f, loop))
    return n + 1


def rule_backoff(ctx):
    f, loop, tr = send_parts(ctx)
    n = 0
    le, rv, _sl = send_names(ctx)
    ups = [s for s in loop.body if isinstance(s, ast.Assign) and norm(s.targets[0]) == rv]
    ok, why = False, 'no delay update after the sleep'
    if len(ups) == 1:
        v = ups[0].value
        why = norm(v)
        if isinstance(v, ast.Call) and norm(v.func) == 'max' and len(v.args) == 2:
            args = {norm(a) for a in v.args}
            inner = [a for a in v.args if isinstance(a, ast.Call) and norm(a.func) == 'min']
            if 'self.init_retry' in args and len(inner) == 1:
                ia = {norm(a) for a in inner[0].args}
                ok = ia in ({'self.max_retry', f'{rv} * 2'}, {'self.max_retry', f'2 * {rv}'})
        elif isinstance(v, ast.Call) and norm(v.func) == 'min' and len(v.args) == 2:
            args = {norm(a) for a in v.args}
            inner = [a for a in v.args if isinstance(a, ast.Call) and norm(a.func) == 'max']
            if 'self.max_retry' in args and len(inner) == 1:
                ia = {norm(a) for a in inner[0].args}
                ok = ia in ({'self.init_retry', f'{rv} * 2'}, {'self.init_retry', f'2 * {rv}'})
    ctx.check(ok, 'C18.BACKOFF', ctx.key(f, loop, 'delay update'),
              'the delay doubles, is capped at max_retry and floored at init_retry (so it recovers from the 0 set by a fail-over)',
              f'the delay update `{why}` is not max(min(max_retry, 2*retry), init_retry): after a fail-over sets retry = 0 the delay stays 0 '
              '(busy loop, and retry never equals max_retry again, so no further fail-over)', loc=ctx.loc(f, loop))
    n += 1
    ok2 = False
    if le is not None:
        # per path through the failure handler, tests split into atoms (`a and b` or nested ifs alike): failover() is asked
        # only once the delay is at the maximum, and the back-off restarts exactly when it switched
        from .. import paths as P
        ok2 = any(isinstance(s, ast.Nonlocal) and rv in s.names for s in le.node.body)
        asked = switched = 0
        for pth in P.paths(le.node.body) if ok2 else []:
            at_max = None
            for t, pol, _n in pth.conds:
                if isinstance(t, ast.expr) and q.cmp_matches(ctx, le, t, f'{rv} == self.max_retry'):
                    at_max = pol
                elif isinstance(t, ast.expr) and q.cmp_matches(ctx, le, t, f'{rv} != self.max_retry'):
                    at_max = not pol
            fo = P.truthy(pth, 'self.failover()')
            did = rv in pth.env and const_value(pth.env[rv]) == 0          # the delay as the handler leaves it
            if fo is not None:
                asked += 1
                ok2 = ok2 and at_max is True
            elif at_max is True:
                ok2 = False          # at the maximum, yet no fail-over attempted on this path
            if did:
                switched += 1
            ok2 = ok2 and did == (fo is True)
        ok2 = ok2 and asked >= 2 and switched >= 1
    ctx.check(ok2, 'C18.BACKOFF', ctx.key(f, None, 'fail-over at the maximum'),
              'once the delay has reached max_retry a failure triggers failover() and, if it switched, restarts the back-off',
              'fail-over is not triggered exactly when retry == max_retry (and the back-off restarted on a switch)', loc=ctx.loc(f, f.node))
    n += 1
    fo = ctx.func('daemon', 'Daemon.failover')
    ups = q.assigns(ctx, fo, 'self.url_index')
    ok3 = len(ups) == 1 and norm(ups[0].value) == '(self.url_index + 1) % len(self.urls)'
    # per return path: more than one URL <=> the index moves on and True is returned
    from .. import paths as P
    rps = P.returns(fo.node)
    ok3 = ok3 and len(rps) >= 2
    for pth in rps:
        many = P.decided(ctx, fo, pth, 'len(self.urls) > 1')
        moved = any(st_ is ups[0] for st_, _e in pth.events) if ups else False
        ok3 = ok3 and many is not None and moved == many and norm(pth.value) == str(many) \
            and len(pth.decisions()) == 1
    rets = {'True', 'False'}
    ctx.check(ok3 and rets == {'True', 'False'}, 'C18.BACKOFF', ctx.key(fo, None, 'round robin'),
              'failover() moves to the next URL round-robin iff there is more than one, and says whether it did',
              'failover() is not `(index + 1) % len(urls)` under `len(urls) > 1` with a truthful result', loc=ctx.loc(fo, fo.node))
    return n + 1


def reply_processor(f):
    """the nested function that turns the daemon's decoded reply into a result or an error: one parameter, raises
    DaemonError / WarmingUpError"""
    cands = [g for g in f.nested.values() if len(g.params) == 1
             and any(isinstance(x, ast.Raise) and x.exc is not None and ('DaemonError' in norm(x.exc) or 'WarmingUpError' in norm(x.exc)) for x in g.own_nodes())]
    if len(cands) == 1:
        return cands[0]
    return list(f.nested.values())[0] if len(f.nested) == 1 else None


def rule_align(ctx):
    f = ctx.func('daemon', 'Daemon._send_vector')
    proc = reply_processor(f)
    if proc is None:
        raise AnalysisError(f'{f.key}: reply processor (the nested function raising DaemonError) not found')
    rp = proc.params[0]
    n = 0
    rets = [r for r in proc.own_nodes() if isinstance(r, ast.Return)]
    ok = len(rets) == 1 and isinstance(rets[0].value, ast.ListComp)
    if ok:
        lc = rets[0].value
        g = lc.generators
        ok = len(g) == 1 and not g[0].ifs and norm(g[0].iter) == rp and norm(lc.elt) == f"{norm(g[0].target)}['result']"
    ctx.check(ok, 'C18.ALIGN', ctx.key(proc, None, 'positional results'),
              'the result list is an unfiltered, unordered-change-free comprehension over the daemon\'s reply list',
              'the result list is not `[item["result"] for item in result]`: results are filtered / reordered and no longer align with the requests',
              loc=ctx.loc(proc, proc.node))
    n += 1
    # payload preserves the order of params_iterable and nothing is dropped
    pl = [s for s in f.node.body if isinstance(s, ast.Assign) and isinstance(s.value, ast.ListComp) and isinstance(s.value.elt, ast.Dict)]
    okp = len(pl) == 1 and len(pl[0].value.generators) == 1 and not pl[0].value.generators[0].ifs and \
        norm(pl[0].value.generators[0].iter) == f.params[2]
    ctx.check(okp, 'C18.ALIGN', ctx.key(f, None, 'payload order'), 'one request per parameter tuple, in order',
              'the payload does not contain one request per parameter tuple in order', loc=ctx.loc(f, f.node))
    n += 1
    # getrawtransactions maps positionally too
    g = ctx.func('daemon', 'Daemon.getrawtransactions')
    rets = [r for r in g.own_nodes() if isinstance(r, ast.Return)]
    okg = len(rets) == 1 and isinstance(rets[0].value, ast.ListComp) and not rets[0].value.generators[0].ifs and \
        isinstance(rets[0].value.elt, ast.IfExp) and norm(rets[0].value.elt.orelse) == 'None'
    ctx.check(okg, 'C18.ALIGN', ctx.key(g, None, 'positional conversion'),
              'raw transactions are converted element by element (missing ones stay None in place)',
              'raw transactions are filtered instead of converted in place', loc=ctx.loc(g, g.node))
    return n + 1


def rule_warmup(ctx):
    n = 0
    for qual in ('Daemon._send_single', 'Daemon._send_vector'):
        f = ctx.func('daemon', qual)
        proc = reply_processor(f)
        if proc is None:
            raise AnalysisError(f'{f.key}: reply processor (the nested function raising DaemonError) not found')
        # per path out of the processor: a result or a DaemonError leaves only on a path that looked at the error code and
        # found it is not "warming up" - or on which there was no error at all
        from .. import paths as P
        raises_w = [x for x in proc.own_nodes() if isinstance(x, ast.Raise) and x.exc is not None and 'WarmingUpError' in norm(x.exc)]
        ok = bool(raises_w)
        why = 'no `raise WarmingUpError` under a WARMING_UP test'
        bad = []
        for pth in P.paths(proc.node.body) if ok else []:
            leaves = pth.exit in ('return', 'fall') or (pth.exit == 'raise' and pth.value is not None and 'DaemonError' in norm(pth.value))
            if not leaves:
                continue
            not_warming = any((not pol) and isinstance(t, ast.expr) and 'self.WARMING_UP' in norm(t) for t, pol, _n in pth.conds)
            no_error = any((not pol) and isinstance(t, ast.expr) and not isinstance(t, (ast.Compare, ast.Call, ast.BoolOp))
                           and 'error' in norm(t) for t, pol, _n in pth.conds)
            if not (not_warming or no_error):
                bad.append(f'{pth.exit} under {pth.cond_texts()}')
        if ok:
            ok = not bad
            why = f'{bad[:2]} can be reached without the warming-up test'
        ctx.check(ok, 'C18.WARMUP', ctx.key(proc, None, 'warming-up first'),
                  'a warming-up reply is turned into a retry before any result (also error-replaced) or DaemonError leaves the processor',
                  f'{why}: a warming-up daemon\'s reply is returned (as None results) or raised as a genuine error instead of retried',
                  loc=ctx.loc(proc, proc.node))
        n += 1
    return n


def rule_truncopen(ctx):
    gb = ctx.func('daemon', 'Daemon.get_block')
    gf = ctx.func('daemon', 'Daemon._get_to_file')
    n = 0
    sends = [c for c in q.own_calls(gb) if q.callee_name(ctx, gb, c) == 'self._send']
    ok = len(sends) == 1 and sends[0].args and ctx.res.resolve_ref(sends[0].args[0], gb) is not None and \
        ctx.res.resolve_ref(sends[0].args[0], gb).key == gf.key
    ctx.check(ok, 'C18.TRUNCOPEN', ctx.key(gb, None, 'retried function'), 'get_block retries _get_to_file through _send',
              'get_block does not retry _get_to_file through _send', loc=ctx.loc(gb, gb.node))
    n += 1
    opens = [w for w in gf.own_nodes() if isinstance(w, ast.With) and any(isinstance(i.context_expr, ast.Call) and
             norm(i.context_expr.func) == 'open_truncate' and norm(i.context_expr.args[0]) == gf.params[2] for i in w.items)]
    outside = [c for c in q.own_calls(gb) if norm(c.func) in ('open_truncate', 'open')]
    writes = [c for c in q.own_calls(gf) if ctx.res.is_ext(c, gf, 'run_in_thread') and c.args and norm(c.args[0]).endswith('.write')]
    okw = len(opens) == 1 and not outside and len(writes) == 1 and q.in_body(writes[0], opens[0].body)
    ctx.check(okw, 'C18.TRUNCOPEN', ctx.key(gf, None, 'truncated per attempt'),
              'every attempt opens the target truncating it, and writes only inside that open',
              'the target file is not truncated by each attempt (opened outside the retried function or not truncating): bytes of a failed '
              'attempt stay in front of the retry\'s data', loc=ctx.loc(gf, gf.node))
    n += 1
    rets = [r for r in gf.own_nodes() if isinstance(r, ast.Return) and isinstance(r.value, ast.Name)]
    szv = rets[0].value.id if len(rets) == 1 else None
    sz = [s for s in gf.own_nodes() if isinstance(s, ast.Assign) and szv and norm(s.targets[0]) == szv and const_value(s.value) == 0]
    oks = len(sz) == 1 and len(rets) == 1 and opens and q.in_body(sz[0], opens[0].body) and q.in_body(rets[0], opens[0].body)
    ctx.check(oks, 'C18.TRUNCOPEN', ctx.key(gf, None, 'size per attempt'),
              'the byte count starts at 0 inside each attempt and is what is returned',
              'the returned size is not counted from 0 within the attempt that succeeded', loc=ctx.loc(gf, gf.node))
    return n + 1
