'''C18, second part: rules added after the held-out round (JSONPATH, PERMIT, HANDLERSAFE).'''
import ast

from ..model import AnalysisError, norm, walk_own
from .. import q, pathrules as pr, dataflow as df


def rule_jsonpath(ctx):
    '''Every JSON reply - whatever the HTTP status - goes to the processor: bitcoind reports genuine RPC errors as JSON
    bodies with status 404/500, and the processor turns them into DaemonError.  Only non-JSON replies are refusals.'''
    f = ctx.func('daemon', 'Daemon._post_json')
    proc = f.params[2]
    rets = [r for r in f.own_nodes() if isinstance(r, ast.Return) and isinstance(r.value, ast.Call) and norm(r.value.func) == proc]
    if len(rets) != 1:
        raise AnalysisError(f'{f.key}: expected one `return processor(<json>)`')
    r = rets[0]
    # per return path (nested `if json:` or a guard clause for the refusal): the only decision on the way to the processor
    # is "the Content-Type header equals application/json"
    from .. import paths as P
    ok, why = True, ''
    seen = 0
    for pth in P.returns(f.node):
        if not (isinstance(pth.value, ast.Call) and norm(pth.value.func) == proc):
            continue
        seen += 1
        cs = pth.decisions()
        good = False
        if len(cs) == 1 and isinstance(cs[0][0], ast.Compare) and len(cs[0][0].ops) == 1 and isinstance(cs[0][0].ops[0], (ast.Eq, ast.NotEq)) \
                and cs[0][1] == isinstance(cs[0][0].ops[0], ast.Eq):
            t = cs[0][0]
            sides = [t.left, t.comparators[0]]
            const = [x for x in sides if isinstance(x, ast.Constant)]
            other = [x for x in sides if not isinstance(x, ast.Constant)]
            if len(const) == 1 and const[0].value == 'application/json' and len(other) == 1:
                good = 'Content-Type' in norm(other[0]) and '.headers' in norm(other[0])
                if not good:
                    why = f'`{norm(other[0])}` is not the Content-Type header of the response'
        if not good:
            ok = False
            why = why or f'the processor is applied under {pth.cond_texts()}'
    ok = ok and seen >= 1
    ctx.check(ok, 'C18.JSONPATH', ctx.key(f, r, 'every JSON reply is processed'),
              'a reply is handed to the processor exactly when its Content-Type is application/json, whatever the HTTP status',
              why + ': a genuine RPC error (JSON body with a non-200 status) is treated as a refusal and retried for ever instead of '
              'being raised to the caller', loc=ctx.loc(f, r))
    arg = r.value.args[0] if r.value.args else None
    ok2 = isinstance(arg, ast.Await) and isinstance(arg.value, ast.Call) and isinstance(arg.value.func, ast.Attribute) \
        and arg.value.func.attr == 'json'
    ctx.check(ok2, 'C18.JSONPATH', ctx.key(f, r, 'decoded body'), 'the processor receives the decoded JSON body of the response',
              'the processor does not receive `await resp.json()`', loc=ctx.loc(f, r))
    return 2


def semaphore_fields(ctx):
    ini = ctx.func('daemon', 'Daemon.__init__')
    out = []
    for s_ in ini.own_nodes():
        if isinstance(s_, ast.Assign) and isinstance(s_.value, ast.Call) and norm(s_.value.func).endswith('Semaphore'):
            for t in s_.targets:
                if isinstance(t, ast.Attribute):
                    out.append('self.' + t.attr)
    return out


def rule_permit(ctx):
    '''The daemon-call semaphores are held through `async with` (or acquire + try/finally release): a permit taken with a
    bare acquire() is lost when the request is cancelled or fails before the matching release(), and after a few
    transient faults every later daemon call waits for ever.'''
    sems = semaphore_fields(ctx)
    if not sems:
        raise AnalysisError('Daemon.__init__: no Semaphore fields found')
    rel = ctx.repo.path('daemon')
    n = 0
    for f in ctx.repo.funcs.values():
        if f.unit.relpath != rel:
            continue
        for x in f.own_nodes():
            if isinstance(x, (ast.AsyncWith, ast.With)):
                for it in x.items:
                    if ctx.res.canon(it.context_expr, f) in sems:
                        n += 1
                        ctx.check(isinstance(x, ast.AsyncWith), 'C18.PERMIT', ctx.key(f, x), 'permit held by `async with`',
                                  'a semaphore is used in a plain `with`', loc=ctx.loc(f, x))
            if isinstance(x, ast.Call) and isinstance(x.func, ast.Attribute) and x.func.attr in ('acquire', 'release') \
                    and ctx.res.canon(x.func.value, f) in sems:
                n += 1
                sem = ctx.res.canon(x.func.value, f)
                ok = False
                st = q.stmt(x)
                if x.func.attr == 'acquire':
                    # accepted idiom: `await S.acquire()` immediately followed by try: ... finally: S.release()
                    par = getattr(st, '_parent', None)
                    body = None
                    for fld in ('body', 'orelse', 'finalbody'):
                        if par is not None and st in getattr(par, fld, []):
                            body = getattr(par, fld)
                    if body is not None:
                        i = body.index(st)
                        nxt = body[i + 1] if i + 1 < len(body) else None
                        ok = isinstance(nxt, ast.Try) and any(
                            isinstance(c, ast.Call) and isinstance(c.func, ast.Attribute) and c.func.attr == 'release'
                            and ctx.res.canon(c.func.value, f) == sem for fs in nxt.finalbody for c in ast.walk(fs))
                else:
                    ok = any(isinstance(a, ast.Try) and any(any(st is z for z in ast.walk(y)) for y in a.finalbody)
                             for a, _fld in q.enclosing_chain(st, f.node))
                ctx.check(ok, 'C18.PERMIT', ctx.key(f, st),
                          'explicit acquire/release is paired through try/finally',
                          f'`{norm(st)}` takes or returns a permit of {sem} outside `async with` / try-finally: an exception or '
                          'cancellation between acquire and release leaks the permit and later daemon calls block for ever',
                          loc=ctx.loc(f, st))
    return n


def _safe(e, allowed_calls, vararg, exc_names):
    '''Conservative "cannot raise" judgement for the expressions handlers use.  Returns a reason string or None.'''
    if isinstance(e, (ast.Constant, ast.Name)):
        return None
    if isinstance(e, ast.JoinedStr):
        for v in e.values:
            r = _safe(v, allowed_calls, vararg, exc_names)
            if r:
                return r
        return None
    if isinstance(e, ast.FormattedValue):
        if e.format_spec is not None and e.format_spec.values:
            return f'format spec applied to `{norm(e.value)}`'
        return _safe(e.value, allowed_calls, vararg, exc_names)
    if isinstance(e, ast.Subscript):
        if isinstance(e.value, ast.Name) and e.value.id == vararg and isinstance(e.slice, ast.Constant) and e.slice.value == 0:
            return None        # args[0]: _send is always called with at least one argument (checked separately)
        return f'`{norm(e)}` can raise KeyError / IndexError / TypeError for some request shapes'
    if isinstance(e, ast.Attribute):
        if isinstance(e.value, ast.Name) and e.value.id == 'self':
            return None
        if isinstance(e.value, ast.Name) and e.value.id in exc_names and e.attr in ('args', '__class__'):
            return None
        if isinstance(e.value, ast.Attribute):
            return _safe(e.value, allowed_calls, vararg, exc_names)
        return f'attribute access `{norm(e)}` on a value of unknown type'
    if isinstance(e, ast.Call):
        fn = norm(e.func)
        if fn in allowed_calls or fn in ('str', 'repr', 'type') or fn.startswith('self.logger.'):
            for a in e.args:
                r = _safe(a, allowed_calls, vararg, exc_names)
                if r:
                    return r
            return None if not e.keywords else f'keyword arguments in `{norm(e)}`'
        return f'call `{norm(e)[:50]}`'
    return f'`{norm(e)[:50]}` ({type(e).__name__})'


def rule_handlersafe(ctx, send_parts, send_names, handler_names):
    '''An exception raised INSIDE a handler of the retry loop is not handled by its sibling handlers: it leaves _send and the
    daemon call fails although the fault was transient.  The handlers may therefore only use expressions that cannot raise.'''
    f, loop, tr = send_parts(ctx)
    logf = send_names(ctx)[0].name
    vararg = f.node.args.vararg.arg if f.node.args.vararg else None
    n = 0
    for h in tr.handlers:
        exc_names = {h.name} if h.name else set()
        bad = []
        for st in h.body:
            if isinstance(st, ast.Expr):
                r = _safe(st.value, {logf}, vararg, exc_names)
            elif isinstance(st, ast.Assign) and all(isinstance(t, ast.Name) for t in st.targets):
                r = _safe(st.value, {logf}, vararg, exc_names)
            elif isinstance(st, ast.Pass):
                r = None
            else:
                r = f'statement `{norm(st)[:50]}`'
            if r:
                bad.append(r)
        n += 1
        ctx.check(not bad, 'C18.HANDLERSAFE', ctx.key(f, h, '/'.join(handler_names(h))),
                  'the handler only logs and sets the recovery message with expressions that cannot raise',
                  'the handler can itself raise: ' + '; '.join(bad) + ' - the new exception escapes the retry loop', loc=ctx.loc(f, h))
    short = []
    for (caller, _callee, kind, node) in ctx.cg.callers(f):
        if kind in ('CALL', 'AWAIT') and len(node.args) < 2 and not any(isinstance(a, ast.Starred) for a in node.args):
            short.append(ctx.loc(caller, node))
    ctx.check(not short, 'C18.HANDLERSAFE', ctx.key(f, None, 'args[0] exists'), 'every call of _send passes a request argument',
              f'_send is called without a request argument at {short}', loc=ctx.loc(f, f.node))
    return n + 1


def rule_vector_single(ctx):
    '''_send_vector answers from ONE request carrying the whole payload (or sequentially joined parts): results of parts
    joined in completion order no longer line up with the requests.'''
    f = ctx.func('daemon', 'Daemon._send_vector')
    conc = []
    for x in f.own_nodes():
        if isinstance(x, (ast.AsyncFor,)):
            conc.append(f'line {int(round(x.lineno))} async for')
        if isinstance(x, ast.Call):
            nm = norm(x.func)
            if nm.split('.')[-1] in ('spawn', 'gather', 'as_completed', 'create_task', 'ensure_future', 'TaskGroup', 'wait'):
                conc.append(f'line {int(round(x.lineno))} {nm}')
    ctx.check(not conc, 'C18.ALIGN', ctx.key(f, None, 'no concurrent parts'),
              'the vector is not split into concurrently running parts',
              f'the vector is sent as concurrent parts ({"; ".join(conc[:3])}): parts complete in any order, so joined results are '
              'paired with the wrong requests', loc=ctx.loc(f, f.node))
    pl = [s for s in f.node.body if isinstance(s, ast.Assign) and isinstance(s.value, ast.ListComp) and isinstance(s.value.elt, ast.Dict)]
    pv = norm(pl[0].targets[0]) if len(pl) == 1 else None
    rets = [r for r in f.own_nodes() if isinstance(r, ast.Return)]
    bad = []
    for r in rets:
        v = r.value
        if isinstance(v, ast.List) and not v.elts:
            continue
        if isinstance(v, ast.Await) and isinstance(v.value, ast.Call) and q.callee_name(ctx, f, v.value) == 'self._send' \
                and len(v.value.args) == 3 and norm(v.value.args[1]) == pv:
            continue
        bad.append(norm(r)[:60])
    ctx.check(not bad and bool(rets), 'C18.ALIGN', ctx.key(f, None, 'whole payload in one request'),
              'what is returned is the processed reply to the whole payload, sent as one request',
              f'returns {bad}: not the processed reply to the one request carrying the whole payload', loc=ctx.loc(f, f.node))
    return 2


def rule_url_per_attempt(ctx):
    '''Fail-over changes current_url() between attempts: the URL must be evaluated inside the retried function, never once by
    the caller of _send.'''
    snd = ctx.func('daemon', 'Daemon._send')
    n = 0
    for (caller, _callee, kind, node) in ctx.cg.callers(snd):
        if kind not in ('CALL', 'AWAIT') or not node.args:
            continue
        n += 1
        frozen = [norm(a)[:50] for a in node.args[1:] for c in ast.walk(a) if isinstance(c, ast.Call) and norm(c.func).endswith('current_url')]
        # arguments that are locals computed from current_url()
        from .. import dataflow as df
        d = df.defs(caller)
        for a in node.args[1:]:
            if isinstance(a, ast.Name):
                for _st, rhs in d.get(a.id, []):
                    if rhs is not None and any(isinstance(c, ast.Call) and norm(c.func).endswith('current_url') for c in ast.walk(rhs)):
                        frozen.append(f'{a.id} = {norm(rhs)[:50]}')
        retried = ctx.res.resolve_ref(node.args[0], caller)
        inside = retried is not None and any(q.callee_name(ctx, retried, c) == 'self.current_url' for c in q.own_calls(retried))
        ctx.check(not frozen and inside, 'C18.URL', ctx.key(caller, q.stmt(node)),
                  'the daemon URL is looked up by the retried function on every attempt',
                  (f'the URL is computed once by the caller ({frozen}) and re-used by every retry' if frozen else
                   f'the retried function {retried.qual if retried else "?"} does not look up current_url()') +
                  ': after a fail-over the call keeps talking to the dead daemon (and keeps rotating the shared URL index)',
                  loc=ctx.loc(caller, node))
    return n


def rule_content_type(ctx):
    '''A refusal is recognised by the Content-Type HEADER the daemon sent.  aiohttp's resp.content_type substitutes
    application/octet-stream when the header is missing, so a header-less refusal (bare 503 from a proxy) would be taken
    for the block.'''
    n = 0
    for qual, want in (('Daemon._get_to_file', 'application/octet-stream'), ('Daemon._post_json', 'application/json')):
        f = ctx.func('daemon', qual)
        from .. import dataflow as df
        d = df.defs(f)
        tests = [c for c in f.own_nodes() if isinstance(c, ast.Compare) and len(c.ops) == 1 and
                 any(isinstance(x, ast.Constant) and x.value == want for x in (c.left, c.comparators[0]))]
        ok, why = False, f'no comparison with {want!r} found'
        if len(tests) == 1:
            other = tests[0].comparators[0] if isinstance(tests[0].left, ast.Constant) else tests[0].left
            src = other
            if isinstance(other, ast.Name) and len(d.get(other.id, [])) == 1:
                src = d[other.id][0][1]
            txt = norm(src)
            ok = '.headers' in txt and 'Content-Type' in txt
            why = f'the reply kind is taken from `{txt[:60]}`, not from the Content-Type header actually sent'
        n += 1
        ctx.check(ok, 'C18.CONTENTTYPE', ctx.key(f, None, 'kind from the header'),
                  'the reply kind is the Content-Type header the daemon sent (absent header = not the expected kind)',
                  why + ': a header-less refusal is accepted as the genuine answer', loc=ctx.loc(f, f.node))
    return n


def rule_stream_chunks(ctx):
    '''The block body is streamed with one of aiohttp's chunk iterators.  Iterating the StreamReader object itself reads
    LINES (aiohttp.streams.AsyncStreamReaderMixin.__aiter__ -> readline) and raises once a "line" exceeds the reader's
    limit - any block with a long run free of 0x0a bytes - and that exception is not one the retry loop handles.'''
    f = ctx.func('daemon', 'Daemon._get_to_file')
    loops = [x for x in f.own_nodes() if isinstance(x, ast.AsyncFor)]
    ok, why = False, 'no `async for` over the response body found'
    for lp in loops:
        it = lp.iter
        if isinstance(it, ast.Call) and isinstance(it.func, ast.Attribute) and it.func.attr in ('iter_chunks', 'iter_chunked', 'iter_any'):
            ok = True
        else:
            why = f'the body is iterated as `{norm(it)}`: that is line-by-line reading'
    ctx.check(ok, 'C18.STREAM', ctx.key(f, loops[0] if loops else None, 'chunk iterator'),
              'the block body is read with a chunk iterator (iter_chunks / iter_chunked / iter_any)',
              why + ' - a block with more than the line limit between two 0x0a bytes raises inside the stream and the call fails although '
              'the daemon answered correctly', loc=ctx.loc(f, loops[0] if loops else f.node))
    return 1


def rule_total_timeout(ctx):
    '''A request that the daemon accepts and never completes ends only through aiohttp's total timeout; the resulting
    asyncio.TimeoutError is what the retry loop rides out.  The session must not be built with that timeout disabled.'''
    rel = ctx.repo.path('daemon')
    n = 0
    for f in ctx.repo.funcs.values():
        if f.unit.relpath != rel:
            continue
        for c in q.own_calls(f):
            if norm(c.func).endswith('ClientSession'):
                n += 1
                kw = {k.arg: k.value for k in c.keywords}
                bad = None
                t = kw.get('timeout')
                if t is not None:
                    from .c03 import expand_locals
                    t = expand_locals(f, t)
                    if isinstance(t, ast.Call) and norm(t.func).endswith('ClientTimeout'):
                        tk = {k.arg: k.value for k in t.keywords}
                        tot = tk.get('total', t.args[0] if t.args else None)
                        if tot is None:
                            bad = None          # default total (300 s) kept
                        elif isinstance(tot, ast.Constant) and (tot.value is None or tot.value == 0):
                            bad = f'`{norm(t)}` disables the total timeout'
                        elif not (isinstance(tot, ast.Constant) and isinstance(tot.value, (int, float)) and tot.value > 0):
                            bad = f'total timeout `{norm(tot)}` is not a positive constant'
                    elif isinstance(t, ast.Constant) and t.value is None:
                        bad = 'timeout=None disables all timeouts'
                    else:
                        bad = f'timeout `{norm(t)[:50]}` not understood'
                ctx.check(bad is None, 'C18.TIMEOUT', ctx.key(f, q.stmt(c)),
                          'the HTTP session keeps a finite total timeout per request',
                          (bad or '') + ': a request the daemon accepts but never completes then hangs for ever - no TimeoutError, no retry, '
                          'no fail-over', loc=ctx.loc(f, c))
    return n


def rule_height_reply(ctx):
    """Daemon.height() returns the daemon's answer to *this* request, and the cache it leaves for cached_height() is that
    answer too - unconditionally.  A cache that only ever moves up (or any other filter) serves a stale height after a
    fail-over to a daemon that is behind, or after a reorganisation to a shorter chain."""
    from .. import paths as P
    f = ctx.func('daemon', 'Daemon.height')
    rps = P.returns(f.node)
    ok, why = bool(rps), 'no return'
    for pth in rps:
        reply = None
        stores = [(st_, env_) for st_, env_ in pth.events if isinstance(st_, ast.Assign) and len(st_.targets) == 1
                  and ctx.res.canon(st_.targets[0], f) == 'self._height']
        vals = [norm(P.subst(st_.value, env_)) for st_, env_ in stores]
        asked = [v for v in vals if v.startswith('await self._send_single(')]
        if len(stores) != 1 or len(asked) != 1:
            ok, why = False, f'on a path the cache is assigned {vals or "nothing"} (must be the reply, exactly once)'
            break
        reply = asked[0]
        if norm(pth.value) not in (reply, 'self._height'):
            ok, why = False, f'returns `{norm(pth.value)}`'
            break
        if pth.decisions():
            ok, why = False, f'the update is conditional: {pth.cond_texts()}'
            break
    ctx.check(ok, 'C18.HEIGHTREPLY', ctx.key(f, None, 'the reply is cached and returned'),
              'height() stores the daemon\'s reply in the cache unconditionally and returns it',
              'Daemon.height() does not store and return the reply to this request unconditionally (' + why +
              '): a lower height from another daemon / after a reorganisation is never seen', loc=ctx.loc(f, f.node))
    return 1
