'''C01 - confirmed UTXO set and balances equal the chain's true unspent outputs.

Decided: LAYOUT (every reader / co-writer of the UTXO cache and of the h / u / U tables agrees byte for byte with the layout
the writers build: prefixes, keys, decode alignment and endianness, reconstructed values, entry widths), ROWPAIR (each
flushed add writes both rows with one suffix; each DB spend queues both keys), ATOMIC (one UTXO batch with the state:
shared with C04), CONSUME (deletes and adds emptied after being applied), COUNT (utxo count delta control-equivalent with
spends / adds: shared with C03.INVERSE), UNSPENDABLE (both directions pick the predicate by block.height >= GENESIS_ACTIVATION
and skip before touching UTXO state), COLLISION (a DB hit is accepted only under full-hash equality; spend_utxo may skip it
for a single candidate, the mempool lookup never), SPENDREMOVES (every value-returning path of spend_utxo removes the
UTXO), FSMETA (tx hash file offsets: shared with C04 - the tx_num -> hash mapping resolves collisions).
Not decided: that the resulting set / balance / count equals the chain's for every chain x flush schedule.
'''
import ast

from ..model import AnalysisError, norm, walk_own, const_value
from .. import q, pathrules as pr, dataflow as df, paths as P
from ..layout import World, Env, Lay, Rep, TOP, H32, tag, decode_ok
from . import c03, c04
from .roles import lookup_parts, nested_where, has_store_iter, AdvanceNames

EXPLANATION = ('static necessary conditions of C01: byte-layout agreement between the writers of the UTXO cache / h,u,U tables and '
               'all their readers (abstract interpretation over struct widths and endianness read from lib/util.py), twin-row pairing, '
               'single batch, consume-after-apply, count bookkeeping, unspendable predicate selection, collision resolution by full '
               'hash, spend removes, file offsets. Does NOT decide equality with the chain\'s UTXO set.')
ASSUMPTIONS = ['struct pack/unpack semantics; bytes slicing; dict / LevelDB key equality is bytewise',
               'tx hashes yielded by the block iterators are 32-byte double-SHA256 values (checked: Deserializer.read_tx_and_hash)']


class Schemas:
    '''Writer-derived schemas shared by C01 / C02 / C08.'''

    def __init__(self, ctx):
        self.ctx = ctx
        self.w = World(ctx)
        self.s = {'__returns__': {}}
        self.notes = []
        self.problems = []     # (func, node, text) writer-side inconsistencies
        self._cache()
        self._utxo_tables()
        self._spend_return()
        self._undo()
        self._history()

    def env(self, f, bindings=None):
        return Env(self.w, f, bindings or {}, self.s)

    # -- the UTXO cache (advance_block is the designated writer)
    def _cache(self):
        ctx = self.ctx
        rt = ctx.func('tx', 'Deserializer.read_tx_and_hash')
        rets = [r for r in rt.own_nodes() if isinstance(r, ast.Return)]
        if not (len(rets) == 1 and isinstance(rets[0].value, ast.Tuple) and isinstance(rets[0].value.elts[1], ast.Call)
                and norm(rets[0].value.elts[1].func) == 'double_sha256'):
            raise AnalysisError('Deserializer.read_tx_and_hash does not return (tx, double_sha256(...))')
        adv = ctx.func('bp', 'BlockProcessor.advance_block')
        puts = [c for c in q.own_calls(adv) if q.callee_name(ctx, adv, c) == 'self.utxo_cache.__setitem__']
        if len(puts) != 1:
            raise AnalysisError('advance_block: expected one UTXO cache put')
        txl = c03.tx_loop(ctx, adv)
        hv = norm(txl.target.elts[1])
        env = self.env(adv, {hv: H32()})
        k, v = env.ev(puts[0].args[0]), env.ev(puts[0].args[1])
        if not isinstance(k, Lay) or not isinstance(v, Lay):
            raise AnalysisError(f'advance_block: cache key / value layout not derivable ({k}, {v})')
        self.cache_key, self.cache_val = k, v
        self.s[('dict', 'self.utxo_cache')] = (k, v)
        # FlushData positional mapping
        fd = ctx.func('bp', 'BlockProcessor.flush_data')
        call = [r.value for r in fd.own_nodes() if isinstance(r, ast.Return)][0]
        cnode = ctx.repo.cls('db', 'FlushData')
        fields = [s.targets[0].id for s in cnode.body if isinstance(s, ast.Assign) and isinstance(s.value, ast.Call) and norm(s.value.func) == 'attr.ib']
        self.flush_fields = {}
        for fld, a in zip(fields, call.args):
            self.flush_fields[fld] = norm(a)
        for fld, src in self.flush_fields.items():
            if src == 'self.utxo_cache':
                self.s[('dict', f'flush_data.{fld}')] = (k, v)
        self.adv_put = puts[0]
        self.notes.append(f'cache schema from advance_block: key {k.text()} -> value {v.text()}')

    def _utxo_tables(self):
        ctx = self.ctx
        f = ctx.func('db', 'DB.flush_utxo_db')
        env = self.env(f)
        tables = {}
        self.table_puts = {}
        for c in q.batch_calls(ctx, f, 'put'):
            if len(c.args) == 2:
                k, v = env.ev(c.args[0]), env.ev(c.args[1])
                if isinstance(k, Lay) and len(k) and k.atoms[0][0] == 'T' and isinstance(v, Lay):
                    tg = bytes([k.atoms[0][1]])
                    tables[tg] = (k, v)
                    self.table_puts[tg] = c
                else:
                    self.problems.append((f, c, f'UTXO row layout not derivable: key {k}, value {v}'))
        if set(tables) != {b'h', b'u'}:
            raise AnalysisError(f'flush_utxo_db: expected h and u row writers, derived {sorted(tables)}')
        self.s[('store', 'UTXO')] = tables
        self.notes.append('h row: ' + tables[b'h'][0].text() + ' -> ' + tables[b'h'][1].text())
        self.notes.append('u row: ' + tables[b'u'][0].text() + ' -> ' + tables[b'u'][1].text())

    def _spend_return(self):
        ctx = self.ctx
        f = ctx.func('bp', 'BlockProcessor.spend_utxo')
        env = self.env(f, {f.params[1]: H32()})
        self.spend_env = env
        # until the RECON-EQ obligation says otherwise the declared return layout is the cache value
        self.s['__returns__'][f.key] = self.cache_val

    def _undo(self):
        ctx = self.ctx
        uk = ctx.func('db', 'DB.undo_key')
        rets = [r for r in uk.own_nodes() if isinstance(r, ast.Return)]
        k = self.env(uk).ev(rets[0].value) if len(rets) == 1 else TOP
        if not isinstance(k, Lay):
            raise AnalysisError('DB.undo_key: key layout not derivable')
        self.s['__returns__'][uk.key] = k
        self.undo_key = k
        self.s[('list', 'undo_info')] = self.cache_val
        self.s[('store', 'UTXO')][b'U'] = (k, Rep(self.cache_val))
        ru = ctx.func('db', 'DB.read_undo_info')
        self.s['__returns__'][ru.key] = Rep(self.cache_val)

    def _history(self):
        ctx = self.ctx
        au = ctx.func('hist', 'History.add_unflushed')
        env = self.env(au)
        exts = [c for c in q.own_calls(au) if isinstance(c.func, ast.Attribute) and c.func.attr == 'extend']
        if len(exts) != 1:
            raise AnalysisError('History.add_unflushed: expected one extend of the unflushed row')
        e = env.ev(exts[0].args[0])
        if not isinstance(e, Lay):
            raise AnalysisError('History.add_unflushed: entry layout not derivable')
        self.hist_entry = e
        fl = ctx.func('hist', 'History.flush')
        puts = q.batch_calls(ctx, fl, 'put')
        if len(puts) != 1:
            raise AnalysisError('History.flush: expected one row put')
        lps = [p for p, _f in q.enclosing_chain(q.stmt(puts[0]), fl.node) if isinstance(p, ast.For)]
        if not lps:
            raise AnalysisError('History.flush: row put is not inside a loop over the unflushed script hashes')
        # for hashX in sorted(unflushed)   or   for hashX, hist in sorted(unflushed.items()): the key variable is the script hash
        tgt = lps[0].target
        kv = tgt.elts[0] if isinstance(tgt, ast.Tuple) and len(tgt.elts) == 2 and '.items()' in norm(lps[0].iter) else tgt
        env = self.env(fl, {norm(kv): self.w.HX()})
        k = env.ev(puts[0].args[0])
        if not isinstance(k, Lay):
            raise AnalysisError(f'History.flush: row key layout not derivable ({k})')
        self.hist_key = k
        self.hist_put = puts[0]
        self.s[('store', 'HIST')] = {None: (k, Rep(e))}
        self.notes.append(f'history row: {k.text()} -> repeat({e.text()})')


# ------------------------------------------------------------------------------------------------
# generic obligation scanners

def scan_decodes(ctx, sch, env, f, rule, within=None):
    n = 0
    nodes = f.own_nodes() if within is None else walk_own(within)
    for c in nodes:
        if isinstance(c, ast.Call) and isinstance(c.func, ast.Name) and sch.w.unpacker(c.func.id) and c.args:
            # *_from(buf, offset) forms with an explicit offset are parser reads, not table decodes
            if c.func.id.endswith('_from') and len(c.args) > 1:
                continue
            lay = env.ev(c.args[0])
            ok, why = decode_ok(sch.w, c.func.id, lay)
            n += 1
            if ok is None:
                raise AnalysisError(f'{f.key}: layout of `{norm(c.args[0])}` decoded by {c.func.id} is not derivable')
            ctx.check(ok, rule, ctx.key(f, q.stmt(c), f'decode {norm(c)[:50]}'),
                      f'{c.func.id} reads back a packed integer ({why})',
                      f'DECODE-ALIGN: {why}', loc=ctx.loc(f, c))
    return n


def scan_store_reads(ctx, sch, env, f, rule):
    '''PREFIX for iterator(prefix=..), KEY-EQ for get(key) on typed stores.'''
    n = 0
    for c in f.own_nodes():
        if not (isinstance(c, ast.Call) and isinstance(c.func, ast.Attribute)):
            continue
        t = ctx.res.type_of(c.func.value, f)
        if not (t and t[0] == 'store'):
            continue
        tables = sch.s.get(('store', t[1]), {})
        if c.func.attr == 'iterator':
            pe = None
            for kw in c.keywords:
                if kw.arg == 'prefix':
                    pe = kw.value
            if c.args:
                pe = c.args[0]
            if pe is None:
                continue
            p = env.ev(pe)
            n += 1
            if not isinstance(p, Lay):
                raise AnalysisError(f'{f.key}: iterator prefix `{norm(pe)}` layout not derivable')
            kv = env.table_for(t[1], p)
            ok = isinstance(kv, tuple) and isinstance(kv[0], Lay) and kv[0].atoms[:len(p)] == p.atoms
            ctx.check(ok, rule, ctx.key(f, q.stmt(c), f'prefix {norm(pe)[:40]}'),
                      f'iterator prefix {p.text()} is a field-aligned prefix of the row key',
                      f'PREFIX: iterator prefix {p.text()} is not a prefix of the row key '
                      f'{kv[0].text() if isinstance(kv, tuple) else "(no table with that tag)"}', loc=ctx.loc(f, c))
        elif c.func.attr == 'get' and c.args:
            k = env.ev(c.args[0])
            if isinstance(c.args[0], ast.Constant):
                continue
            n += 1
            if not isinstance(k, Lay):
                raise AnalysisError(f'{f.key}: get key `{norm(c.args[0])}` layout not derivable')
            kv = env.table_for(t[1], k)
            ok = isinstance(kv, tuple) and kv[0] == k
            ctx.check(ok, rule, ctx.key(f, q.stmt(c), f'get {norm(c.args[0])[:40]}'),
                      f'get key {k.text()} has exactly the row key layout',
                      f'KEY-EQ: get key {k.text()} differs from the row key {kv[0].text() if isinstance(kv, tuple) else "(no such table)"}',
                      loc=ctx.loc(f, c))
    return n


def eq_ob(ctx, rule, f, node, label, got, want, what):
    ok = isinstance(got, (Lay, Rep)) and got == want
    gt = got.text() if isinstance(got, (Lay, Rep)) else (f'stride {got[2]} over {got[1].text()}' if isinstance(got, tuple) and got and got[0] == 'STRIDE-MISMATCH' else 'unknown')
    ctx.check(ok, rule, ctx.key(f, node, label), f'{what}: {want.text()}', f'{what} expected {want.text()} but the code builds {gt}',
              loc=ctx.loc(f, node))
    return 1


# ------------------------------------------------------------------------------------------------

def rule_layout(ctx, sch, rule='C01.LAYOUT'):
    n = 0
    for f, node, text in sch.problems:
        ctx.bad(rule, ctx.key(f, q.stmt(node), 'writer'), text, loc=ctx.loc(f, node))
        n += 1
    w = sch.w
    HX = w.HX()
    # writer sanity: h and u rows share the suffix idx + tx_num and split the cache value
    hk, hv = sch.s[('store', 'UTXO')][b'h']
    uk, uv = sch.s[('store', 'UTXO')][b'u']
    fu = ctx.func('db', 'DB.flush_utxo_db')
    n += eq_ob(ctx, rule, fu, q.stmt(sch.table_puts[b'h']), 'h value', hv, HX, 'h row value is the hashX')
    n += eq_ob(ctx, rule, fu, q.stmt(sch.table_puts[b'u']), 'u key', uk, tag(b'u') + HX + hk.slice(5, None), 'u row key is tag + hashX + the h row suffix')
    n += eq_ob(ctx, rule, fu, q.stmt(sch.table_puts[b'h']), 'h key', hk,
               tag(b'h') + sch.cache_key.slice(0, 4) + sch.cache_key.slice(32, 36) + sch.cache_val.slice(len(HX), len(HX) + 5),
               'h row key is tag + hash[0:4] + idx + tx_num')
    n += eq_ob(ctx, rule, fu, q.stmt(sch.table_puts[b'u']), 'u value', uv, sch.cache_val.slice(len(HX) + 5, None), 'u row value is the amount')
    # spend_utxo
    f = ctx.func('bp', 'BlockProcessor.spend_utxo')
    env = sch.spend_env
    pops = [c for c in q.own_calls(f) if q.callee_name(ctx, f, c) == 'self.utxo_cache.pop']
    if len(pops) != 1:
        raise AnalysisError('spend_utxo: expected one cache pop')
    n += eq_ob(ctx, rule, f, q.stmt(pops[0]), 'cache key', env.ev(pops[0].args[0]), sch.cache_key, 'cache lookup key')
    n += scan_store_reads(ctx, sch, env, f, rule)
    n += scan_decodes(ctx, sch, env, f, rule)
    rets = [r for r in f.own_nodes() if isinstance(r, ast.Return) and r.value is not None]
    for r in rets:
        n += eq_ob(ctx, rule, f, r, 'returned value', env.ev(r.value), sch.cache_val, 'value returned for a spent UTXO (RECON-EQ with the cache value)')
    dels = [c for c in q.own_calls(f) if q.callee_name(ctx, f, c) == 'self.db_deletes.append']
    got = sorted((env.ev(c.args[0]).text() if isinstance(env.ev(c.args[0]), Lay) else '?') for c in dels)
    want = sorted([hk.text(), uk.text()])
    ctx.check(got == want, rule, ctx.key(f, None, 'queued deletes'), 'the keys queued for deletion are exactly the h and u row keys',
              f'the keys queued for deletion {got} are not the h and u row keys {want}', loc=ctx.loc(f, f.node))
    n += 1
    # call sites of spend_utxo pass a 32-byte hash
    for caller_q, hb in (('BlockProcessor.advance_block', None), ('BlockProcessor.backup_block', None)):
        g = ctx.func('bp', caller_q)
        txl = c03.tx_loop(ctx, g)
        genv = sch.env(g, {norm(txl.target.elts[1]): H32()})
        for c in c03.calls_to(ctx, g, g.node, f.key):
            n += eq_ob(ctx, rule, g, q.stmt(c), 'spend_utxo hash argument', genv.ev(c.args[0]), H32(), 'tx hash handed to spend_utxo')
    # advance_block: hashX taken from the spent value
    adv = ctx.func('bp', 'BlockProcessor.advance_block')
    txl = c03.tx_loop(ctx, adv)
    aenv = sch.env(adv, {norm(txl.target.elts[1]): H32()})
    names = AdvanceNames(ctx, adv)
    for c in q.own_calls(adv):
        if q.callee_name(ctx, adv, c) == f'{names.per_tx}.append' and c.args and isinstance(c.args[0], ast.Subscript):
            n += eq_ob(ctx, rule, adv, q.stmt(c), 'hashX of the spent value', aenv.ev(c.args[0]), HX, 'script hash recorded for a spend')
    for c in q.own_calls(adv):
        if q.callee_name(ctx, adv, c) == f'{names.undo_list}.append':
            n += eq_ob(ctx, rule, adv, q.stmt(c), 'undo entry', aenv.ev(c.args[0]), sch.cache_val, 'undo entry is the spent cache value')
    # backup_block
    bak = ctx.func('bp', 'BlockProcessor.backup_block')
    txl = c03.tx_loop(ctx, bak)
    benv = sch.env(bak, {norm(txl.target.elts[1]): H32()})
    for c in q.own_calls(bak):
        nm = q.callee_name(ctx, bak, c)
        if nm == 'self.utxo_cache.__setitem__':
            n += eq_ob(ctx, rule, bak, q.stmt(c), 'restored key', benv.ev(c.args[0]), sch.cache_key, 'key of a restored UTXO')
            n += eq_ob(ctx, rule, bak, q.stmt(c), 'restored value', benv.ev(c.args[1]), sch.cache_val,
                       'value of a restored UTXO (one undo entry: the entry width must equal the cache value width)')
        elif nm == 'self.touched.add' and c.args and isinstance(c.args[0], ast.Subscript):
            n += eq_ob(ctx, rule, bak, q.stmt(c), 'touched hashX', benv.ev(c.args[0]), HX, 'script hash touched by the backup')
    # readers in db.py
    auo = ctx.func('db', 'DB.all_utxos')
    au = nested_where(auo, lambda g: has_store_iter(ctx, g, 'UTXO'), 'iterates the u rows')
    e = sch.env(au, {auo.params[1]: HX})
    n += scan_store_reads(ctx, sch, e, au, rule)
    n += scan_decodes(ctx, sch, e, au, rule)
    n += rule_layout_lookup(ctx, sch, rule)
    ce = ctx.func('db', 'DB.clear_excess_undo_info')
    e = sch.env(ce)
    n += scan_store_reads(ctx, sch, e, ce, rule)
    n += scan_decodes(ctx, sch, e, ce, rule)
    for cu in ctx.func('db', 'DB.read_utxo_state').nested.values():
        if has_store_iter(ctx, cu, 'UTXO'):
            n += scan_store_reads(ctx, sch, sch.env(cu), cu, rule)
    for note in sch.notes:
        ctx.note(note)
    return n


def rule_layout_lookup(ctx, sch, rule):
    '''LAYOUT obligations of DB.lookup_utxos (the mempool's window onto the UTXO tables).'''
    n = 0
    HX = sch.w.HX()
    uk, uv = sch.s[('store', 'UTXO')][b'u']
    lu, lh, lo, wrap_h, wrap_o = lookup_parts(ctx)
    e = sch.env(lh, {lh.params[0]: H32()})
    n += scan_store_reads(ctx, sch, e, lh, rule)
    n += scan_decodes(ctx, sch, e, lh, rule)
    rets = [r for r in lh.own_nodes() if isinstance(r, ast.Return) and isinstance(r.value, ast.Tuple) and norm(r.value) != '(None, None)']
    suffix = None
    for r in rets:
        hx, suffix = e.ev(r.value.elts[0]), e.ev(r.value.elts[1])
        n += eq_ob(ctx, rule, lh, r, 'found hashX', hx, HX, 'hashX found for a prevout')
        n += eq_ob(ctx, rule, lh, r, 'suffix', suffix, uk.slice(1 + len(HX), None), 'suffix handed to the u lookup')
    # the pair flows unchanged: [phase1(*p) for p in prevouts] -> [phase2(*pair) for pair in pairs]
    def starred_map(wrapper, inner):
        rets = [r for r in wrapper.own_nodes() if isinstance(r, ast.Return)]
        if len(rets) != 1 or not isinstance(rets[0].value, ast.ListComp):
            return False
        lc = rets[0].value
        g = lc.generators[0]
        if not (len(lc.generators) == 1 and not g.ifs and isinstance(lc.elt, ast.Call) and norm(lc.elt.func) == inner.name and not lc.elt.keywords):
            return False
        # f(*pair) for pair in pairs   or, unpacked,   f(a, b) for a, b in pairs
        if len(lc.elt.args) == 1 and isinstance(lc.elt.args[0], ast.Starred) and norm(lc.elt.args[0].value) == norm(g.target):
            return True
        return isinstance(g.target, ast.Tuple) and all(isinstance(t, ast.Name) for t in g.target.elts) and \
            [norm(a) for a in lc.elt.args] == [t.id for t in g.target.elts] and len(g.target.elts) == len(inner.params)
    flows = [norm(r.value) for w in (wrap_h, wrap_o) for r in w.own_nodes() if isinstance(r, ast.Return)]
    ctx.check(wrap_h is not lu and wrap_o is not lu and starred_map(wrap_h, lh) and starred_map(wrap_o, lo), rule,
              ctx.key(lu, None, 'pair flow'), 'the (hashX, suffix) pairs flow position by position into the value lookup',
              f'the (hashX, suffix) pairs do not flow unchanged into lookup_utxo: {flows}', loc=ctx.loc(lu, lu.node))
    n += 1
    e = sch.env(lo, {lo.params[0]: HX, lo.params[1]: suffix if isinstance(suffix, Lay) else uk.slice(1 + len(HX), None)})
    n += scan_store_reads(ctx, sch, e, lo, rule)
    n += scan_decodes(ctx, sch, e, lo, rule)
    rets = [r for r in lo.own_nodes() if isinstance(r, ast.Return) and isinstance(r.value, ast.Tuple)]
    ctx.check(len(rets) == 1 and norm(rets[0].value.elts[0]) == lo.params[0], rule, ctx.key(lo, None, 'returns (hashX, value)'),
              'a found prevout is answered with (its hashX, its decoded amount)', 'lookup_utxo does not return (hashX, value)', loc=ctx.loc(lo, lo.node))
    return n + 1


def rule_rowpair(ctx, sch):
    f = ctx.func('db', 'DB.flush_utxo_db')
    cfg = ctx.cfg(f)
    ph, pu = sch.table_puts[b'h'], sch.table_puts[b'u']
    loops = [p for p, _f in q.enclosing_chain(q.stmt(ph), f.node) if isinstance(p, ast.For)]
    ok = bool(loops) and q.in_body(pu, loops[0].body) and norm(loops[0].iter) == 'flush_data.adds.items()'
    wit = None
    if ok:
        ok, wit = pr.control_equivalent_in_loop(cfg, loops[0], [cfg.node(q.stmt(ph))], [cfg.node(q.stmt(pu))])
        o1, _ = pr.once_per_iteration(cfg, loops[0], [cfg.node(q.stmt(ph))])
        ok = ok and o1
    ctx.check(ok, 'C01.ROWPAIR', ctx.key(f, loops[0] if loops else None, 'h and u rows together'),
              'every cached add writes its h row and its u row, once each, unconditionally',
              'a cached add can be flushed with only one of its two rows (the UTXO is then unspendable or invisible)', witness=wit,
              loc=ctx.loc(f, ph))
    g = ctx.func('bp', 'BlockProcessor.spend_utxo')
    gcfg = ctx.cfg(g)
    dels = [q.stmt(c) for c in q.own_calls(g) if q.callee_name(ctx, g, c) == 'self.db_deletes.append']
    rets = [r for r in g.own_nodes() if isinstance(r, ast.Return) and r.value is not None and any(q.in_body(r, [p]) for p, _f in q.enclosing_chain(dels[0], g.node))] if dels else []
    ok2 = len(dels) == 2
    if ok2:
        lp = [p for p, _f in q.enclosing_chain(dels[0], g.node) if isinstance(p, ast.For)][0]
        ok2, wit = pr.control_equivalent_in_loop(gcfg, lp, [gcfg.node(dels[0])], [gcfg.node(dels[1])])
    ctx.check(ok2, 'C01.ROWPAIR', ctx.key(g, None, 'both keys queued'),
              'a DB spend queues both the h key and the u key for deletion on the same paths',
              'a DB spend can queue only one of the two row keys', loc=ctx.loc(g, g.node))
    return 2


def rule_consume(ctx, sch):
    f = ctx.func('db', 'DB.flush_utxo_db')
    cfg = ctx.cfg(f)
    n = 0
    for fld, applier in (('deletes', 'delete'), ('adds', 'put')):
        clears = [q.stmt(c) for c in q.own_calls(f) if norm(c.func) == f'flush_data.{fld}.clear']
        apps = q.batch_calls(ctx, f, applier)
        loops = [s for s in f.own_nodes() if isinstance(s, ast.For) and f'flush_data.{fld}' in norm(s.iter)]
        ok = len(clears) == 1 and len(loops) == 1 and bool(apps)
        if ok:
            cn, ln = cfg.node(clears[0]), cfg.node(loops[0])
            ok = cfg.find_path([cn], {ln}) is None and pr.path_avoiding(cfg, [ln], [cfg.exit], {cn}) is None \
                and pr.path_avoiding(cfg, [cfg.entry], [cfg.exit], {ln}) is None
            inside = any(isinstance(p, ast.With) for p, _f in q.enclosing_chain(loops[0], f.node))
            ok = ok and inside
        ctx.check(ok, 'C01.CONSUME', ctx.key(f, None, fld),
                  f'the pending {fld} are applied inside the batch on every flush and cleared afterwards',
                  f'the pending {fld} are not applied-then-cleared on every path: ' +
                  ('a stale delete list re-applied later deletes re-created rows' if fld == 'deletes' else
                   'an add left in the cache is later spent from the cache only and survives in the DB'), loc=ctx.loc(f, f.node))
        n += 1
    # sorted or not, every queued delete is applied
    dl = [s for s in f.own_nodes() if isinstance(s, ast.For) and 'flush_data.deletes' in norm(s.iter)]
    okd = len(dl) == 1 and norm(dl[0].iter) in ('sorted(flush_data.deletes)', 'flush_data.deletes') and \
        not any(isinstance(x, (ast.If, ast.Break, ast.Continue)) for x in walk_own(dl[0]))
    ctx.check(okd, 'C01.CONSUME', ctx.key(f, None, 'all deletes applied'), 'every queued delete is applied', 'queued deletes are filtered',
              loc=ctx.loc(f, f.node))
    return n + 1


def unspendable_choice(ctx, f):
    for s in f.own_nodes():
        if isinstance(s, ast.Assign) and isinstance(s.value, ast.IfExp) and \
                {norm(s.value.body), norm(s.value.orelse)} == {'is_unspendable_genesis', 'is_unspendable_legacy'}:
            return s
    return None


def rule_unspendable(ctx):
    n = 0
    forms = []
    for qual in ('BlockProcessor.advance_block', 'BlockProcessor.backup_block'):
        f = ctx.func('bp', qual)
        cfg = ctx.cfg(f)
        # the selection is decided per path through the function's preamble, so a conditional expression, an if/else
        # and any other spelling of the choice read the same
        pre = []
        for st_ in f.node.body:
            if isinstance(st_, (ast.With, ast.AsyncWith, ast.For, ast.While)):
                break
            pre.append(st_)
        s = unspendable_choice(ctx, f)
        ok, why, pv_name = False, 'predicate selection not found', None
        sel = {}
        for pth in P.paths(pre):
            if pth.exit != 'fall':
                continue
            for k_, v_ in pth.env.items():
                if isinstance(v_, ast.Name) and v_.id in ('is_unspendable_genesis', 'is_unspendable_legacy'):
                    sel.setdefault(k_, []).append((P.decided(ctx, f, pth, 'block.height >= self.coin.GENESIS_ACTIVATION'), v_.id))
        if len(sel) == 1:
            pv_name, got = list(sel.items())[0]
            ok = len(got) >= 2 and all((d_ is True and v_ == 'is_unspendable_genesis') or (d_ is False and v_ == 'is_unspendable_legacy') for d_, v_ in got)
            why = f'{sorted(set((str(d_), v_) for d_, v_ in got))}'
            if ok:
                forms.append('block.height >= GENESIS_ACTIVATION')
            else:
                forms.append(why)
        if s is None:
            s = next((x for x in f.own_nodes() if isinstance(x, ast.Assign) and isinstance(x.targets[0], ast.Name) and x.targets[0].id == pv_name), None)
        ctx.check(ok, 'C01.UNSPENDABLE', ctx.key(f, s, 'predicate by block height'),
                  'the genesis rule applies exactly to blocks with height >= GENESIS_ACTIVATION (the block\'s own height)',
                  'the unspendable predicate is not selected by block.height >= GENESIS_ACTIVATION: ' + why +
                  ' (outputs around the activation height are mis-classified)', loc=ctx.loc(f, s or f.node))
        n += 1
        # skip precedes any UTXO state change in the output loop
        pv = pv_name or 'is_unspendable'
        txl = c03.tx_loop(ctx, f)
        _in, txv = c03.input_loop(ctx, f, txl)
        ol = c03.output_loop(ctx, f, txl, txv)
        ctx.check(c03.output_positions_ok(f, ol, txv), 'C01.UNSPENDABLE', ctx.key(f, ol, 'index is the output position'),
                  'the output loop enumerates the unfiltered output list: the index written into the UTXO key is the real output index',
                  f'the output loop iterates `{norm(c03.expand_locals(f, ol.iter))[:90]}`: with a filtered or re-ordered iterable the '
                  'loop index is no longer the output\'s position in the transaction, so outpoints are recorded under wrong indices',
                  loc=ctx.loc(f, ol))
        n += 1
        first = ol.body[0] if ol.body else None
        okk = isinstance(first, ast.If) and isinstance(first.test, ast.Call) and norm(first.test.func) == pv and \
            norm(first.test.args[0]).endswith('.pk_script') and len(first.body) == 1 and isinstance(first.body[0], ast.Continue)
        ctx.check(okk, 'C01.UNSPENDABLE', ctx.key(f, ol, 'skipped first'),
                  'unspendable outputs are skipped before anything is counted or written',
                  'unspendable outputs are not skipped first thing in the output loop', loc=ctx.loc(f, ol))
        n += 1
    ctx.check(len(set(forms)) == 1 and len(forms) == 2, 'C01.UNSPENDABLE', 'electrumx/server/block_processor.py :: advance/backup :: same predicate',
              'advance and backup select the predicate by the same test', f'advance and backup use different tests: {forms}')
    return n + 1


def rule_collision(ctx, rule='C01.COLLISION'):
    n = 0
    # spend_utxo: a candidate is accepted without the hash check only when it is the only candidate
    f = ctx.func('bp', 'BlockProcessor.spend_utxo')
    cfg = ctx.cfg(f)
    def cand_value(v):
        if isinstance(v, ast.DictComp):
            return True
        return isinstance(v, ast.Call) and isinstance(v.func, ast.Name) and v.func.id == 'dict' and len(v.args) == 1 and not v.keywords
    cdefs = [s for s in f.own_nodes() if isinstance(s, ast.Assign) and cand_value(s.value) and isinstance(s.targets[0], ast.Name)
             and any(isinstance(c, ast.Call) and isinstance(c.func, ast.Attribute) and c.func.attr == 'iterator' for c in ast.walk(s.value))]
    cand = cdefs[0].targets[0].id if len(cdefs) == 1 else None
    loops = [s for s in f.own_nodes() if isinstance(s, ast.For) and cand and cand in q.names_in(s.iter)]
    ok, why = False, 'candidate loop not found'
    if len(loops) == 1:
        lp = loops[0]
        loopvars = {x.id for x in ast.walk(lp.target) if isinstance(x, ast.Name)}
        full = not (isinstance(cdefs[0].value, ast.DictComp) and (cdefs[0].value.generators[0].ifs or len(cdefs[0].value.generators) != 1
                                                                  or norm(cdefs[0].value.key) != norm(cdefs[0].value.generators[0].target.elts[0])
                                                                  if isinstance(cdefs[0].value.generators[0].target, ast.Tuple) else True))

        def fs_hash_of_candidate(x):
            # fs_tx_hash(<something computed from this row's key>)[0]
            if not (isinstance(x, ast.Subscript) and const_value(x.slice) == 0 and isinstance(x.value, ast.Call)):
                return False
            c = x.value
            if not norm(c.func).endswith('fs_tx_hash') or not c.args:
                return False
            return any(isinstance(y, ast.Name) and y.id.split("'")[0] in loopvars and "'" in y.id for y in ast.walk(c.args[0]))
        accepts, bad = 0, []
        for pth in P.paths(f.node.body):
            if pth.exit != 'return' or not any(nd is lp for _t, _pol, nd in pth.conds):
                continue
            accepts += 1
            cv_ = pth.env.get(cand)
            multi = P.decided(ctx, f, pth, f'len({norm(cv_)}) > 1') if cv_ is not None else None
            if multi is False:
                continue              # the only row under the prefix
            eq = False
            for t, pol, _nd in pth.conds:
                if isinstance(t, ast.Compare) and len(t.ops) == 1 and isinstance(t.ops[0], (ast.Eq, ast.NotEq)):
                    sides = [t.left, t.comparators[0]]
                    if any(norm(x) == f.params[1] for x in sides) and any(fs_hash_of_candidate(x) for x in sides):
                        eq = eq or (pol == isinstance(t.ops[0], ast.Eq))
            if not eq:
                bad.append(' & '.join(pth.cond_texts()[1:])[:160])
        ok = accepts >= 1 and not bad and full
        why = f'rows accepted on a path without `fs_tx_hash(tx_num of the row)[0] == tx_hash` although several rows share the prefix: {bad}; all rows are candidates={full}'
    ctx.check(ok, rule, ctx.key(f, None, 'full-hash check'),
              'with several candidates under the 4-byte prefix a row is accepted only if its tx_num maps back to the full tx hash',
              'a DB row can be accepted as the spent UTXO without the full-hash check among several candidates: ' + why +
              ' (the wrong UTXO is spent: wrong script hash in history, wrong rows deleted)', loc=ctx.loc(f, f.node))
    n += 1
    # mempool / client lookup: the prevout may not exist, so the check is unconditional
    _lu, lh, _lo, _wh, _wo = lookup_parts(ctx)
    lcfg = ctx.cfg(lh)
    loops = [s for s in lh.own_nodes() if isinstance(s, ast.For)]
    ok, why = False, 'row loop not found'
    if len(loops) == 1:
        lp = loops[0]
        # per path through one turn of the row loop: a return has decided  <tx hash asked for> == <hash fs_tx_hash gives for the row>
        # and nothing else (whether the looked-up hash is held in a local or compared straight from the call)
        rets = [p_ for p_ in P.paths(lp.body) if p_.exit == 'return']
        good = True
        for p_ in rets:
            ds = p_.decisions()
            eq = [t for t, pol in ds if isinstance(t, ast.Compare) and len(t.ops) == 1
                  and ((isinstance(t.ops[0], ast.Eq) and pol) or (isinstance(t.ops[0], ast.NotEq) and not pol))
                  and lh.params[0] in (norm(t.left), norm(t.comparators[0]))
                  and any(isinstance(c, ast.Call) and q.callee_name(ctx, lh, c) == 'self.fs_tx_hash' for c in ast.walk(t))]
            if len(ds) != 1 or len(eq) != 1:
                good = False
        brk = [x for x in walk_own(lp) if isinstance(x, ast.Break)]
        after = [r for r in lh.node.body if isinstance(r, ast.Return)]
        miss = len(after) == 1 and norm(after[0].value) == '(None, None)'
        # the same requirement over the whole function: a shortcut ahead of (or behind) the row loop that answers with a row
        # - "only one candidate, as in spend_utxo" - is wrong here, where the prevout need not exist at all
        def _hash_eq(t, pol):
            return (isinstance(t, ast.Compare) and len(t.ops) == 1
                    and ((isinstance(t.ops[0], ast.Eq) and pol) or (isinstance(t.ops[0], ast.NotEq) and not pol))
                    and any(isinstance(c, ast.Call) and q.callee_name(ctx, lh, c) == 'self.fs_tx_hash' for c in ast.walk(t)))
        shortcut = []
        for p_ in P.paths(lh.node.body):
            if p_.exit != 'return' or p_.value is None or norm(p_.value) == '(None, None)':
                continue
            if not any(_hash_eq(t, pol) for t, pol in p_.decisions()):
                shortcut.append(f'line {getattr(p_.node, "lineno", "?")}: ' + ' & '.join(p_.cond_texts())[:120])
        ok = bool(rets) and good and not brk and miss and not shortcut
        why = (f'every in-loop return under hash equality only={good}, no break={not brk}, miss returns (None, None)={miss}, '
               f'returns of a row without the equality anywhere in the function={shortcut[:2]}')
    # a miss is the absence of the row, never a property of the amount: an output of value zero is a UTXO like any other
    # (`if not value:` on the decoded integer answers "unknown" for it; its spender is dropped from the mempool view)
    for g_ in (_lo, f):
        amount_tests = []
        for p_ in P.paths(g_.node.body):
            for t, pol in p_.decisions():
                subj = t.operand if isinstance(t, ast.UnaryOp) and isinstance(t.op, ast.Not) else t
                if isinstance(subj, (ast.Compare, ast.BoolOp)):
                    continue
                if any(isinstance(c, ast.Call) and isinstance(c.func, ast.Name) and c.func.id.startswith('unpack_') for c in ast.walk(subj)):
                    amount_tests.append(norm(t)[:80])
        ctx.check(not amount_tests, rule, ctx.key(g_, None, 'miss decided on the row'),
                  'no branch tests a decoded integer for truth: presence is decided on the raw row',
                  f'a decoded value is tested for truth ({sorted(set(amount_tests))[:2]}): a zero amount / number reads as "not found"',
                  loc=ctx.loc(g_, g_.node))
        n += 1
    ctx.check(ok, rule, ctx.key(lh, None, 'full-hash check'),
              'a prevout lookup returns a row only under full-hash equality, examines every row under the prefix, and reports a miss otherwise',
              'a prevout lookup can return a row without full-hash equality, or stops before all rows under the prefix were examined: ' + why +
              ' (an absent or colliding outpoint is answered with another output\'s script hash and value)', loc=ctx.loc(lh, lh.node))
    return n + 1


def rule_spendremoves(ctx):
    f = ctx.func('bp', 'BlockProcessor.spend_utxo')
    cfg = ctx.cfg(f)
    rets = [r for r in f.own_nodes() if isinstance(r, ast.Return) and r.value is not None]
    pops = [q.stmt(c) for c in q.own_calls(f) if q.callee_name(ctx, f, c) == 'self.utxo_cache.pop']
    dels = [q.stmt(c) for c in q.own_calls(f) if q.callee_name(ctx, f, c) == 'self.db_deletes.append']
    n = 0
    for r in rets:
        rn = cfg.node(r)
        v = norm(r.value)
        popv = [p for p in pops if isinstance(p, ast.Assign) and norm(p.targets[0]) == v]
        if popv:
            conds = pr.control_conditions(r, f.node)
            ok = len(conds) == 1 and conds[0][1] and norm(conds[0][0]) == v
            txt = 'cache hit: the popped value is returned'
        else:
            ok = len(dels) == 2 and all(cfg.dominates(cfg.node(d), rn) or
                                        pr.path_avoiding(cfg, pr.body_entries(cfg, [p for p, _f in q.enclosing_chain(r, f.node) if isinstance(p, ast.For)][0]),
                                                         [rn], {cfg.node(d)}) is None for d in dels)
            txt = 'DB hit: both row keys are queued for deletion before returning'
        ctx.check(ok, 'C01.SPENDREMOVES', ctx.key(f, r), txt, 'a value is returned for a spend without the UTXO being removed (cache pop or both row deletes)',
                  loc=ctx.loc(f, r))
        n += 1
    # not found -> raise (never a silent miss)
    last = f.node.body[-1]
    ctx.check(isinstance(last, ast.Raise), 'C01.SPENDREMOVES', ctx.key(f, None, 'miss raises'), 'a UTXO that is nowhere raises',
              'a missing UTXO does not raise', loc=ctx.loc(f, f.node))
    return n + 1


def run(ctx):
    sch = ctx.rule('C01.SCHEMAS', lambda: Schemas(ctx))
    if sch is not None:
        ctx.rule('C01.LAYOUT', lambda: rule_layout(ctx, sch), 33)
        ctx.rule('C01.ROWPAIR', lambda: rule_rowpair(ctx, sch), 2)
        ctx.rule('C01.CONSUME', lambda: rule_consume(ctx, sch), 3)
    ctx.rule('C01.UNSPENDABLE', lambda: rule_unspendable(ctx), 5)
    ctx.rule('C01.COLLISION', lambda: rule_collision(ctx), 2)
    ctx.rule('C01.SPENDREMOVES', lambda: rule_spendremoves(ctx), 3)
    adv = ctx.func('bp', 'BlockProcessor.advance_block')
    bak = ctx.func('bp', 'BlockProcessor.backup_block')
    spend = ctx.func('bp', 'BlockProcessor.spend_utxo')
    ctx.rule('C01.COUNT', lambda: c03.rule_utxo_count(ctx, adv, c03.tx_loop(ctx, adv), spend, 'C01.COUNT')
             + c03.rule_utxo_count(ctx, bak, c03.tx_loop(ctx, bak), spend, 'C01.COUNT'), 6)
    from ..effects import InlineGraph
    from .flushcommon import commit_points

    def atomic():
        ig = InlineGraph(ctx, ctx.func('db', 'DB.flush_dbs'))
        cps, _ = commit_points(ig)
        if len(cps) != 1:
            ctx.bad('C01.ATOMIC', ctx.key(ig.root.func, None, 'commit point'), 'no single UTXO batch carrying the state record')
            return 1
        return c04.rule_atomic(ctx, ig, cps[0], 'C01')
    ctx.rule('C01.ATOMIC', atomic, 6)
    from . import c03 as _c03
    ctx.rule('C01.MEMO', lambda: _c03.rule_memo(ctx, 'C01.MEMO'), 12)
    ctx.rule('C01.LOGICALFILE', lambda: c04.rule_logical_file(ctx, 'C01') + c04.rule_logical_file_stateless(ctx, 'C01'), 5)
    ctx.rule('C01.FSMETA', lambda: c04.rule_file_offsets(ctx, 'C01'), 5)
    from .flushall import rule_flushall
    ctx.rule('C01.FLUSHALL', lambda: rule_flushall(ctx, 'C01'), 3)
    ctx.rule('C01.PREFIXSCAN', lambda: c04.rule_storage_prefix(ctx, 'C01'), 2)
    ctx.rule('C01.STATEMOVE', lambda: c04.rule_state_moves_with_commit(ctx, 'C01'), 2)
    # a chain reached through reorganisations is still 'any valid chain indexed up to h'
    from . import c03 as _c03all
    _c03all.run(ctx)
