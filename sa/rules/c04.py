'''C04 - a crash at any point while indexing forward loses nothing that was committed.

The commit point (CP) is the UTXO batch that contains the `state` record.
Decided: ORDER (file writes, history commit and the flush-count hand-over all precede CP and lie on every
path to it), REVOCABLE (everything durable ahead of CP can be revoked on open: append-region file
offsets, new-tagged history rows, the history state row - never a delete or an in-place rewrite),
ATOMIC (all UTXO-store mutations of a flush are inside the CP batch), REWRITE (after CP only flush_time /
sync_time change before the state is written again), SCRUB (open_db always scrubs excess history with the
right comparison and adopts the count), POINTERS (fs pointers and tx_counts re-initialised from the
loaded state), STATEREC (state writers and readers agree on keys and fields), WHO (every durable write is
reachable only through the analysed protocols).
Not decided: observable equality after each cut, torn OS writes, LevelDB's own atomicity (trusted).
'''
import ast
import struct as _struct

from ..model import AnalysisError, norm, walk_own, const_value
from ..effects import InlineGraph, key_provenance
from .. import q, pathrules as pr, dataflow as df
from .flushcommon import commit_points, writers, reachable_only_through

EXPLANATION = ('static necessary conditions of C04 on the inlined effect graph of DB.flush_dbs and the open path: write-ahead '
               'order, revocability of everything ahead of the commit point, single UTXO batch with the state record, '
               'post-commit rewrite limited to timing fields, excess-history scrub on open, pointer re-initialisation, '
               'state record key agreement, who-may-write by reachability. Does NOT decide observable equality after each cut.')
ASSUMPTIONS = ['a write batch left without exception commits atomically (LevelDB / RocksDB batch semantics)',
               'LogicalFile.write at offsets >= the flushed pointers only appends / overwrites data beyond the committed height',
               'History rows tagged with a flush id greater than the UTXO flush count are ignored after clear_excess']

PROTOCOL_ENTRIES = {
    'electrumx/server/db.py::DB.flush_dbs': 'forward flush protocol (C04)',
    'electrumx/server/db.py::DB.flush_backup': 'backup flush protocol (C05)',
    'electrumx/server/db.py::DB._open_dbs': 'open-time scrubbing',
    'electrumx_compact_history::compact_history': 'offline compaction tool (C14)',
}


def is_state_field_assign(ctx, fr, a, fields=None):
    '''Assign/AugAssign to <ChainState>.<field> -> field name or None.'''
    if not isinstance(a, (ast.Assign, ast.AugAssign)):
        return None
    tg = a.targets if isinstance(a, ast.Assign) else [a.target]
    for t in tg:
        if isinstance(t, ast.Attribute) and ctx.res.type_of(t.value, fr.func) == ('inst', 'ChainState'):
            if fields is None or t.attr in fields:
                return t.attr
    return None


def rule_order(ctx, ig, prop='C04'):
    f = ig.root.func
    cps, state_puts = commit_points(ig)
    if len(cps) != 1:
        ctx.bad(f'{prop}.ORDER', ctx.key(f, None, 'commit point'),
                f'expected exactly one UTXO batch carrying the state record on the flush path, found {len(cps)} '
                '(state record not written atomically with the UTXO rows)', loc=ctx.loc(f, f.node))
        return None, 1
    cp = cps[0]
    n = 0
    must = [(e, f'file write {e.store}') for e in ig.of('FILE_WRITE')] + \
           [(e, 'history batch commit') for e in ig.of('COMMIT', 'HIST')]
    if len(ig.of('FILE_WRITE')) < 3 or not ig.of('COMMIT', 'HIST'):
        raise AnalysisError(f'{f.key}: expected three meta file writes and a history commit on the flush path, got '
                            f'{[e.store for e in ig.of("FILE_WRITE")]}, {len(ig.of("COMMIT", "HIST"))}')
    for e, text in must:
        back = ig.find_path([cp.gnode], [e.gnode])
        skip = ig.path_avoiding([ig.entry], [cp.gnode], {e.gnode})
        ok = back is None and skip is None
        why = []
        if back is not None:
            why.append('it can happen after the commit point')
        if skip is not None:
            why.append('a path reaches the commit point without it')
        ctx.check(ok, f'{prop}.ORDER', ctx.key(e.frame.func, e.call or e.frame.cfg.ast(e.node), 'before commit point'),
                  f'{text} precedes the UTXO state commit on every path',
                  f'{text}: ' + ' and '.join(why) + ' - after a crash the DB would claim a height whose data is not on disk',
                  witness=ig.describe(back or skip), loc=f'{e.frame.func.unit.relpath}:{getattr(e.call or e.frame.cfg.ast(e.node), "lineno", 0)}')
        n += 1
    # flush-count hand-over: state.flush_count = history.flush_count, after the history commit, before CP
    hand = []
    for fr in ig.frames:
        for node in fr.cfg.g.nodes:
            a = fr.cfg.ast(node)
            if fr.cfg.kind(node) == 'stmt' and is_state_field_assign(ctx, fr, a, {'flush_count'}):
                if isinstance(a, ast.Assign) and isinstance(a.value, ast.Attribute) and a.value.attr == 'flush_count' \
                        and ctx.res.type_of(a.value.value, fr.func) == ('inst', 'History'):
                    hand.append((fr, node, a))
    hcommits = [e.gnode for e in ig.of('COMMIT', 'HIST')]
    if not hand:
        ctx.bad(f'{prop}.ORDER', ctx.key(f, None, 'flush count hand-over'),
                'the state record never receives the history flush count on the flush path '
                '(excess-history scrubbing on open then deletes committed rows or keeps uncommitted ones)', loc=ctx.loc(f, f.node))
        n += 1
    for fr, node, a in hand:
        gn = (fr.id, node)
        skip = ig.path_avoiding([ig.entry], [cp.gnode], {gn})
        back = ig.find_path([cp.gnode], [gn])
        early = ig.path_avoiding([ig.entry], [gn], set(hcommits))
        ok = skip is None and early is None
        why = []
        if skip is not None:
            why.append('the commit point can be reached without it (the committed state then carries the previous flush count and the new history rows are scrubbed as excess on open)')
        if early is not None:
            why.append('it can run before the history flush that increments the count')
        ctx.check(ok, f'{prop}.ORDER', ctx.key(fr.func, a, 'before commit point'),
                  'the history flush count is handed to the state record after the history commit and before the UTXO commit',
                  '; '.join(why), witness=ig.describe(skip or early), loc=ctx.loc(fr.func, a))
        n += 1
    return cp, n


def rule_revocable(ctx, ig, cp, prop='C04'):
    '''CP rule: durable effects that can precede the commit point must be revocable on open.'''
    n = 0
    pre = [e for e in ig.effects if e.kind in ('PUT', 'DELETE', 'DIRECT_PUT', 'DIRECT_DELETE')
           and not (e.store == 'UTXO' and e.batch is not None and e.batch is cp.batch)]
    for e in pre:
        # only effects that are durable before CP: their own commit (or the direct op) can precede CP
        if e.kind in ('PUT', 'DELETE'):
            commits = [c for c in ig.of('COMMIT', e.store) if c.batch is e.batch]
            before = any(ig.find_path([c.gnode], [cp.gnode]) is not None for c in commits)
        else:
            before = ig.find_path([e.gnode], [cp.gnode]) is not None
        if not before:
            continue
        prov, why = key_provenance(ctx, e)
        n += 1
        a = e.call
        key = ctx.key(e.frame.func, None, f'{e.store} {"delete" if "DELETE" in e.kind else "put"} {prov}')
        if e.kind in ('DIRECT_PUT', 'DIRECT_DELETE'):
            ctx.bad(f'{prop}.REVOCABLE', key, f'direct (unbatched) {e.store} write ahead of the commit point: {e.text()}',
                    loc=f'{e.frame.func.unit.relpath}:{int(round(a.lineno))}')
        elif e.store == 'HIST' and e.kind == 'PUT' and prov in ('NEW-TAGGED', 'STATE'):
            ctx.ok(f'{prop}.REVOCABLE', key, f'history put ahead of the commit point is revocable ({prov}: {why})',
                   f'{e.frame.func.unit.relpath}:{int(round(a.lineno))}')
        else:
            ctx.bad(f'{prop}.REVOCABLE', key,
                    f'{e.store} {e.kind.lower()} under an {prov} key is committed ahead of the UTXO state commit and cannot be '
                    f'revoked on open ({why}): a crash between the two commits loses or corrupts committed data',
                    witness=[e.text()], loc=f'{e.frame.func.unit.relpath}:{int(round(a.lineno))}')
    return n


def rule_file_offsets(ctx, prop='C04'):
    '''REVOCABLE for the meta files = C02.FSMETA: offsets derive from the flushed pointers.'''
    f = ctx.func('db', 'DB.flush_fs')
    d = df.defs(f)
    n = 0

    def expand(e, depth=0):
        '''substitute single-definition locals'''
        if depth > 4:
            return e
        if isinstance(e, ast.Name) and len(d.get(e.id, [])) == 1:
            return expand(d[e.id][0][1], depth + 1)
        if isinstance(e, ast.BinOp):
            return ast.BinOp(left=expand(e.left, depth + 1), op=e.op, right=expand(e.right, depth + 1))
        return e
    want = {'headers': '(self.fs_height + 1) * 80', 'txcounts': '(self.fs_height + 1) * self.tx_counts.itemsize'}
    writes = {}
    for c in q.own_calls(f):
        if isinstance(c.func, ast.Attribute) and c.func.attr == 'write':
            t = ctx.res.type_of(c.func.value, f)
            if t and t[0] == 'file':
                writes[t[1]] = c
    if set(writes) != {'headers', 'txcounts', 'hashes'}:
        raise AnalysisError(f'{f.key}: meta file writes found: {sorted(writes)}')
    # `offset` is assigned three times: take the definition that reaches each write (last one above it)
    for name, c in sorted(writes.items()):
        off = c.args[0]
        if isinstance(off, ast.Name):
            cands = [(st, rhs) for st, rhs in d.get(off.id, []) if st.lineno < c.lineno]
            if not cands:
                raise AnalysisError(f'{f.key}: no definition of {off.id} above {norm(c)}')
            off = cands[-1][1]
        try:
            if name == 'hashes':
                # prior_tx_count * 32 with prior_tx_count = self.tx_counts[self.fs_height] if self.fs_height >= 0 else 0
                # decided per path (the selection may be a conditional expression, an if/else or anything equivalent)
                from .. import paths as P
                ok, why, seen = True, norm(off), 0
                for pth in P.paths(f.node.body):
                    evs = [env_ for st_, env_ in pth.events if st_ is q.stmt(c)]
                    if not evs:
                        continue
                    seen += 1
                    o_ = P.subst(c.args[0], evs[0])
                    why = norm(o_)
                    base = None
                    if isinstance(o_, ast.BinOp) and isinstance(o_.op, ast.Mult):
                        base = o_.left if const_value(o_.right) == 32 else (o_.right if const_value(o_.left) == 32 else None)
                    nonneg = P.decided(ctx, f, pth, 'self.fs_height >= 0')
                    if base is None or nonneg is None:
                        ok = False
                    elif nonneg:
                        ok = ok and norm(base) == 'self.tx_counts[self.fs_height]'
                    else:
                        ok = ok and const_value(base) == 0
                    if not ok:
                        break
                ok = ok and seen >= 2
                ctx.check(ok, f'{prop}.REVOCABLE', ctx.key(f, q.stmt(c), 'offset'),
                          'tx hashes written at 32 * (tx count at the flushed file height): append region only',
                          f'tx hash offset is not 32 * tx_counts[fs_height] ({why}): committed hashes can be overwritten or a gap left',
                          loc=ctx.loc(f, c))
            else:
                got = q.linear(ctx, f, expand(off))
                exp = q.linear(ctx, f, ast.parse(want[name], mode='eval').body)
                # products of two atoms are not linear; compare structurally instead
                ctx.check(q.lin_eq(got, exp), f'{prop}.REVOCABLE', ctx.key(f, q.stmt(c), 'offset'),
                          f'{name} written at {want[name]}: append region only',
                          f'{name} offset {q.lin_text(got)} differs from {want[name]}', loc=ctx.loc(f, c))
        except q.NotLinear:
            got_txt = norm(expand(off))
            exp_ok = got_txt.replace(' ', '') in (want[name].replace(' ', ''),
                                                  want[name].replace('(self.fs_height + 1)', 'height_start').replace(' ', ''))
            e2 = expand(off)
            ok = False
            if isinstance(e2, ast.BinOp) and isinstance(e2.op, ast.Mult):
                sides = [norm(e2.left), norm(e2.right)]
                try:
                    l0 = q.linear(ctx, f, e2.left)
                    ok = q.lin_eq(l0, {'self.fs_height': 1, '': 1}) and sides[1] == want[name].split('* ')[1]
                except q.NotLinear:
                    try:
                        l1 = q.linear(ctx, f, e2.right)
                        ok = q.lin_eq(l1, {'self.fs_height': 1, '': 1}) and sides[0] == want[name].split('* ')[1]
                    except q.NotLinear:
                        ok = False
            ctx.check(ok, f'{prop}.REVOCABLE', ctx.key(f, q.stmt(c), 'offset'),
                      f'{name} written at {want[name]}: append region only',
                      f'{name} offset `{got_txt}` differs from {want[name]}', loc=ctx.loc(f, c))
        n += 1
    # pointers advanced to the flushed state's height / tx count after the writes
    for fld, src in (('self.fs_height', 'flush_data.state.height'), ('self.fs_tx_count', 'flush_data.state.tx_count')):
        asg = q.assigns(ctx, f, fld)
        ok = len(asg) == 1 and norm(asg[0].value) == src and all(asg[0].lineno > c.lineno for c in writes.values())
        ctx.check(ok, f'{prop}.REVOCABLE', ctx.key(f, None, f'{fld} advanced'),
                  f'{fld} set to {src} after the writes', f'{fld} is not set to {src} after the writes', loc=ctx.loc(f, f.node))
        n += 1
    return n


def rule_atomic(ctx, ig, cp, prop='C04'):
    '''All UTXO-store effects of the flush path belong to the commit-point batch (before CP); the
    only thing after CP is the direct state rewrite.'''
    n = 0
    for e in ig.of(('PUT', 'DELETE', 'DIRECT_PUT', 'DIRECT_DELETE'), 'UTXO'):
        inb = e.batch is not None and e.batch is cp.batch
        after_cp = ig.find_path([cp.gnode], [e.gnode]) is not None
        prov, _w = key_provenance(ctx, e)
        if inb and after_cp:
            # the handle is still in scope after the `with` block, but the batch was written when the block was left
            ctx.bad(f'{prop}.ATOMIC', ctx.key(e.frame.func, e.call, 'after the batch was committed'),
                    f'{e.text()} is queued on the batch AFTER its `with` block has been left: the batch is already written, the operation '
                    'is silently dropped (or lands in a second write) - the rows are committed without it', loc=f'{e.frame.func.unit.relpath}:{int(round(e.call.lineno))}')
        elif inb:
            ctx.ok(f'{prop}.ATOMIC', ctx.key(e.frame.func, e.call, 'in commit batch'),
                   'UTXO mutation is part of the batch that carries the state record',
                   f'{e.frame.func.unit.relpath}:{int(round(e.call.lineno))}')
        elif e.kind == 'DIRECT_PUT' and prov == 'STATE' and after_cp:
            ctx.ok(f'{prop}.ATOMIC', ctx.key(e.frame.func, e.call, 'post-commit state rewrite'),
                   'direct write after the commit point is the state record only',
                   f'{e.frame.func.unit.relpath}:{int(round(e.call.lineno))}')
        else:
            ctx.bad(f'{prop}.ATOMIC', ctx.key(e.frame.func, e.call, 'outside commit batch'),
                    f'UTXO store {e.kind} outside the batch that carries the state record: {e.text()} '
                    '(rows and state can be torn apart by a crash)', loc=f'{e.frame.func.unit.relpath}:{int(round(e.call.lineno))}')
        n += 1
    # the state record copy used for the batch is taken inside the batch, from the flushed state
    return n


def rule_rewrite(ctx, ig, cp, prop='C04'):
    '''Between CP and the direct state rewrite only timing fields of the state change.'''
    n = 0
    directs = [e for e in ig.of('DIRECT_PUT', 'UTXO') if ig.find_path([cp.gnode], [e.gnode]) is not None]
    if not directs:
        return 0
    after = set()
    stack = [cp.gnode]
    while stack:
        x = stack.pop()
        for m in ig.g.successors(x):
            if m not in after:
                after.add(m)
                stack.append(m)
    allowed = {'flush_time', 'sync_time'}
    for gn in after:
        fr = ig.frames[gn[0]]
        a = fr.cfg.ast(gn[1])
        if fr.cfg.kind(gn[1]) != 'stmt':
            continue
        fld = is_state_field_assign(ctx, fr, a)
        if fld is None:
            continue
        if not any(ig.find_path([gn], [e.gnode]) is not None for e in directs):
            continue
        n += 1
        ctx.check(fld in allowed, f'{prop}.REWRITE', ctx.key(fr.func, a, 'after commit point'),
                  f'only the timing field {fld} changes between the commit and the state rewrite',
                  f'state.{fld} changes after the atomic commit and is persisted only by the non-atomic rewrite: '
                  'a crash in between leaves the committed record with the old value', loc=ctx.loc(fr.func, a))
    return n


def rule_scrub(ctx, prop='C04'):
    n = 0
    od = ctx.func('hist', 'History.open_db')
    cfg = ctx.cfg(od)
    ce = ctx.func('hist', 'History.clear_excess')
    calls = q.calls_resolving_to(ctx, od, ce)
    reads = q.calls_resolving_to(ctx, od, ctx.func('hist', 'History.read_state'))
    ok = len(calls) == 1 and len(reads) == 1
    wit = None
    if ok:
        cn = cfg.node(q.stmt(calls[0]))
        p = pr.path_avoiding(cfg, [cfg.entry], [cfg.exit], {cn})
        p2 = pr.path_avoiding(cfg, [cfg.entry], [cn], {cfg.node(q.stmt(reads[0]))})
        argok = len(calls[0].args) == 1 and norm(calls[0].args[0]) == od.params[3]
        ok = p is None and p2 is None and argok
        wit = cfg.describe_path(p or p2) if (p or p2) else None
    ctx.check(ok, f'{prop}.SCRUB', ctx.key(od, None, 'clear_excess on every path'),
              'open_db reads the state, then scrubs excess history with the UTXO flush count on every path',
              'open_db can return without scrubbing excess history against the UTXO flush count', witness=wit,
              loc=ctx.loc(od, od.node))
    n += 1
    rets = [s for s in od.own_nodes() if isinstance(s, ast.Return)]
    ctx.check(len(rets) == 1 and ctx.res.canon(rets[0].value, od) == 'self.flush_count', f'{prop}.SCRUB',
              ctx.key(od, None, 'returns the scrubbed count'), 'open_db returns the (scrubbed) history flush count',
              'open_db does not return self.flush_count', loc=ctx.loc(od, od.node))
    n += 1
    # clear_excess
    ccfg = ctx.cfg(ce)
    p = ce.params[1]
    first_if = [s for s in ce.node.body if isinstance(s, ast.If)]
    ok = False
    why = 'no early return test'
    if first_if and any(isinstance(x, ast.Return) for x in first_if[0].body):
        cn = q.comparison_normal(ctx, ce, first_if[0].test)
        # return iff utxo - hist >= 0
        ok = cn is not None and cn[1] == '>=' and q.lin_eq(cn[0], {p: 1, 'self.flush_count': -1, '': 0})
        why = f'early return under `{norm(first_if[0].test)}`'
    ctx.check(ok, f'{prop}.SCRUB', ctx.key(ce, None, 'early return'),
              f'scrubbing is skipped exactly when history count <= UTXO count',
              f'scrubbing is skipped under the wrong condition ({why})', loc=ctx.loc(ce, ce.node))
    n += 1
    # scan: whole DB, flush id decoded from the last two key bytes, strictly greater than the UTXO count
    # (the normaliser turns the accumulate loop into the comprehension it spells out: one generator over the DB iterator)
    comps = [c for c in ce.own_nodes() if isinstance(c, ast.ListComp) and len(c.generators) == 1 and isinstance(c.generators[0].iter, ast.Call)
             and isinstance(c.generators[0].iter.func, ast.Attribute) and c.generators[0].iter.func.attr == 'iterator']
    ok, why = False, 'scan of the history DB not found'
    if len(comps) == 1:
        g = comps[0].generators[0]
        it = g.iter
        kws = {k.arg: k.value for k in it.keywords}
        whole = (not it.args and (not kws or (set(kws) == {'prefix'} and const_value(kws['prefix']) == b''))) or \
                (len(it.args) == 1 and const_value(it.args[0]) == b'')
        keyv = norm(g.target.elts[0]) if isinstance(g.target, ast.Tuple) else norm(g.target)
        cond_ok = False
        cond_txt = ''
        if len(g.ifs) == 1:
            t = g.ifs[0]
            cond_txt = norm(t)
            if isinstance(t, ast.Compare) and len(t.ops) == 1:
                l_, r_ = t.left, t.comparators[0]
                if isinstance(t.ops[0], ast.Lt):
                    l_, r_, gt = r_, l_, True
                else:
                    gt = isinstance(t.ops[0], ast.Gt)

                def be16_of_key(e):
                    # unpack_be_uint16*(key[-2:])[0]
                    return isinstance(e, ast.Subscript) and const_value(e.slice) == 0 and isinstance(e.value, ast.Call) \
                        and norm(e.value.func).startswith('unpack_be_uint16') and e.value.args and norm(e.value.args[0]) == f'{keyv}[-2:]'
                if gt and be16_of_key(l_) and norm(r_) == p:
                    cond_ok = True
                # byte-wise form: key[-2:] > pack_be_uint16(utxo_flush_count)
                if gt and norm(l_) == f'{keyv}[-2:]' and norm(r_) == f'pack_be_uint16({p})':
                    cond_ok = True
        cond_ok = cond_ok and norm(comps[0].elt) == keyv
        ok = whole and cond_ok
        why = f'scan over {norm(it)} selecting `{cond_txt}`'
    ctx.check(ok, f'{prop}.SCRUB', ctx.key(ce, None, 'excess selection'),
              'every row of the history DB whose flush id is greater than the UTXO flush count is selected for deletion',
              f'excess rows are not exactly those with flush id > UTXO flush count ({why})', loc=ctx.loc(ce, ce.node))
    n += 1
    # delete + count reset + state in one batch
    ig = InlineGraph(ctx, ce, max_depth=2)
    dels = ig.of('DELETE', 'HIST')
    sput = [e for e in ig.of('PUT', 'HIST') if key_provenance(ctx, e)[0] == 'STATE']
    resets = [s for s in q.assigns(ctx, ce, 'self.flush_count') if norm(s.value) == p]
    ok = len(dels) == 1 and len(sput) == 1 and dels[0].batch is sput[0].batch and len(resets) == 1
    if ok:
        rn = (ig.root.id, ig.root.cfg.node(resets[0]))
        ok = ig.path_avoiding([ig.entry], [sput[0].gnode], {rn}) is None
    ctx.check(ok, f'{prop}.SCRUB', ctx.key(ce, None, 'one batch'),
              'excess rows are deleted and the reset count persisted in one batch',
              'deletion of excess rows and the persisted reset count are not one atomic batch', loc=ctx.loc(ce, ce.node))
    n += 1
    # adoption in _open_dbs
    ob = ctx.func('db', 'DB._open_dbs')
    ad = [s for s in ob.own_nodes() if isinstance(s, ast.Assign) and isinstance(s.value, ast.Call)
          and ctx.res.resolve_ref(s.value.func, ob) is not None and ctx.res.resolve_ref(s.value.func, ob).key == od.key]
    ok = len(ad) == 1 and norm(ad[0].targets[0]) == 'self.state.flush_count' and len(ad[0].value.args) >= 3 \
        and norm(ad[0].value.args[2]) == 'self.state.flush_count'
    if ok:
        ocfg = ctx.cfg(ob)
        rs = q.calls_resolving_to(ctx, ob, ctx.func('db', 'DB.read_utxo_state'))
        ok = len(rs) == 1 and pr.path_avoiding(ocfg, [ocfg.entry], [ocfg.node(ad[0])], {ocfg.node(q.stmt(rs[0]))}) is None \
            and pr.path_avoiding(ocfg, [ocfg.entry], [ocfg.exit], {ocfg.node(ad[0])}) is None
    ctx.check(ok, f'{prop}.SCRUB', ctx.key(ob, None, 'history opened against the UTXO count'),
              'after loading the UTXO state the history DB is opened with its flush count and the result adopted',
              '_open_dbs does not open the history DB against the loaded UTXO flush count and adopt the result', loc=ctx.loc(ob, ob.node))
    return n + 1


def rule_pointers(ctx, prop='C04'):
    n = 0
    f = ctx.func('db', 'DB.read_utxo_state')
    cfg = ctx.cfg(f)
    for fld, src in (('self.fs_height', 'height'), ('self.fs_tx_count', 'tx_count')):
        asg = q.assigns(ctx, f, fld)
        live = {norm(s_.value) for s_ in f.own_nodes() if isinstance(s_, ast.Assign) and ctx.res.canon(s_.targets[0], f) == 'self.state'
                and isinstance(s_.value, ast.Name)} | {'self.state'}
        ok = len(asg) == 1 and isinstance(asg[0].value, ast.Attribute) and asg[0].value.attr == src and \
            norm(asg[0].value.value) in live
        if ok:
            ok = pr.path_avoiding(cfg, [cfg.entry], [cfg.exit], {cfg.node(asg[0])}) is None
        ctx.check(ok, f'{prop}.POINTERS', ctx.key(f, None, fld), f'{fld} re-initialised from the loaded state on every path',
                  f'{fld} is not re-initialised from the loaded state.{src} on every path (stale file data beyond the committed '
                  'height would be trusted / appended after)', loc=ctx.loc(f, f.node))
        n += 1
    g = ctx.func('db', 'DB._read_tx_counts')
    reads = [c for c in q.own_calls(g) if isinstance(c.func, ast.Attribute) and c.func.attr == 'read'
             and ctx.res.type_of(c.func.value, g) == ('file', 'txcounts')]
    ok, why = False, 'tx count file read not found'
    if len(reads) == 1 and len(reads[0].args) == 2:
        d = df.defs(g)
        off, size = reads[0].args
        sz = size
        if isinstance(size, ast.Name) and len(d.get(size.id, [])) == 1:
            sz = d[size.id][0][1]
        good = False
        if isinstance(sz, ast.BinOp) and isinstance(sz.op, ast.Mult):
            for a, b in ((sz.left, sz.right), (sz.right, sz.left)):
                try:
                    if q.lin_eq(q.linear(ctx, g, a), {'self.state.height': 1, '': 1}) and const_value(b) == _struct.calcsize('Q'):
                        good = True
                except q.NotLinear:
                    pass
        arr = [c for c in q.own_calls(g) if norm(c.func) == 'array' and c.args and const_value(c.args[0]) == 'Q']
        ok = good and const_value(off) == 0 and len(arr) == 1
        why = f'reads {norm(reads[0])} with size {norm(sz)}'
    ctx.check(ok, f'{prop}.POINTERS', ctx.key(g, None, 'bounded read'),
              'tx counts are read for exactly state.height + 1 blocks (8 bytes each), ignoring anything written ahead',
              f'tx counts are not read for exactly state.height + 1 blocks ({why}): data of an uncommitted flush would be loaded',
              loc=ctx.loc(g, g.node))
    return n + 1


def dict_literal_of(func, var=None):
    '''The single dict literal assigned to a local in a state writer (whatever the local is called).'''
    got = [n.value for n in func.own_nodes() if isinstance(n, ast.Assign) and isinstance(n.targets[0], ast.Name) and isinstance(n.value, ast.Dict)]
    if not got:     # the literal may be written in place: batch.put(b'state', repr({...}).encode())
        got = [n for n in func.own_nodes() if isinstance(n, ast.Dict) and n.keys and all(isinstance(k, ast.Constant) and isinstance(k.value, str) for k in n.keys)]
    return got[0] if len(got) == 1 else None


def decoded_state_var(func):
    '''The local that holds the literal_eval'ed state dict in a state reader.'''
    got = {n.targets[0].id for n in func.own_nodes() if isinstance(n, ast.Assign) and isinstance(n.targets[0], ast.Name)
           and isinstance(n.value, ast.Call) and norm(n.value.func).endswith('literal_eval')}
    if len(got) != 1:
        raise AnalysisError(f'{func.key}: decoded state variable not found')
    return got.pop()


def rule_staterec(ctx, prop='C04'):
    n = 0
    # UTXO state
    w = ctx.func('db', 'DB.write_utxo_state')
    r = ctx.func('db', 'DB.read_utxo_state')
    dl = dict_literal_of(w)
    if dl is None:
        raise AnalysisError(f'{w.key}: state dict literal not found')
    sv = decoded_state_var(r)
    wmap = {}
    for k, v in zip(dl.keys, dl.values):
        kk = const_value(k)
        wmap[kk] = v.attr if isinstance(v, ast.Attribute) and norm(v.value) == 'self.state' else norm(v)
    ctor = [c for c in q.own_calls(r) if norm(c.func) == 'ChainState' and any(
        isinstance(kw.value, ast.Subscript) and norm(kw.value.value) == sv for kw in c.keywords)]
    if len(ctor) != 1:
        raise AnalysisError(f'{r.key}: ChainState(...) built from the stored dict not found')
    required, optional, back = set(), set(), {}
    for kw in ctor[0].keywords:
        v = kw.value
        if isinstance(v, ast.Subscript) and norm(v.value) == sv:
            k = const_value(v.slice)
            required.add(k)
            back[kw.arg] = k
        elif isinstance(v, ast.Call) and isinstance(v.func, ast.Attribute) and v.func.attr == 'get' and norm(v.func.value) == sv:
            k = const_value(v.args[0])
            optional.add(k)
            back[kw.arg] = k
    for node in r.own_nodes():
        if isinstance(node, ast.Subscript) and norm(node.value) == sv and isinstance(node.ctx, ast.Load):
            k = const_value(node.slice)
            if isinstance(k, str):
                required.add(k)
    missing = sorted(k for k in required if k not in wmap)
    ctx.check(not missing, f'{prop}.STATEREC', ctx.key(w, None, 'keys'),
              f'every key the reader requires is written ({sorted(required)})',
              f'the reader requires keys the writer does not write: {missing} (the DB cannot be reopened)', loc=ctx.loc(w, w.node))
    n += 1
    wrong = sorted(f'{fld}<-{k}<-state.{wmap.get(k)}' for fld, k in back.items() if k in wmap and wmap[k] != fld)
    ctx.check(not wrong, f'{prop}.STATEREC', ctx.key(r, None, 'field mapping'),
              'each state field is read back from the key it was written under',
              f'state fields are read back from the wrong key: {wrong}', loc=ctx.loc(r, r.node))
    n += 1
    crit = {'height', 'tx_count', 'tip', 'flush_count'}
    lost = sorted(crit - set(back))
    ctx.check(not lost and all(back[c] in required for c in crit if c in back), f'{prop}.STATEREC', ctx.key(r, None, 'critical fields'),
              'height, tx_count, tip and flush_count are restored from required keys',
              f'critical state fields not restored from the record: {lost}', loc=ctx.loc(r, r.node))
    n += 1
    # History state
    hw = ctx.func('hist', 'History.write_state')
    hr = ctx.func('hist', 'History.read_state')
    dl = dict_literal_of(hw)
    if dl is None:
        raise AnalysisError(f'{hw.key}: state dict literal not found')
    hsv = decoded_state_var(hr)
    hwmap = {const_value(k): (ctx.res.canon(v, hw) or norm(v)) for k, v in zip(dl.keys, dl.values)}
    wrong, req = [], set()
    for s in hr.own_nodes():
        if isinstance(s, ast.Assign) and isinstance(s.targets[0], ast.Attribute) and norm(s.targets[0].value) == 'self':
            v = s.value
            k = None
            if isinstance(v, ast.Subscript) and norm(v.value) == hsv:
                k = const_value(v.slice)
                req.add(k)
            elif isinstance(v, ast.Call) and isinstance(v.func, ast.Attribute) and v.func.attr == 'get' and norm(v.func.value) == hsv:
                k = const_value(v.args[0])
            if k is not None and hwmap.get(k) != f'self.{s.targets[0].attr}':
                wrong.append(f'self.{s.targets[0].attr}<-{k}<-{hwmap.get(k)}')
    ctx.check(not wrong and 'flush_count' in req, f'{prop}.STATEREC', ctx.key(hr, None, 'field mapping'),
              'history state fields are read back from the keys they were written under (flush_count required)',
              f'history state fields read back from the wrong key: {wrong}', loc=ctx.loc(hr, hr.node))
    # same key for put / get
    gets = [c for c in q.own_calls(hr) if isinstance(c.func, ast.Attribute) and c.func.attr == 'get' and c.args
            and isinstance(const_value(c.args[0]), bytes)]
    puts = [c for c in q.own_calls(hw) if isinstance(c.func, ast.Attribute) and c.func.attr == 'put']
    okk = len(gets) == 1 and len(puts) == 1 and const_value(gets[0].args[0]) == const_value(puts[0].args[0])
    ctx.check(okk, f'{prop}.STATEREC', ctx.key(hr, None, 'state key'), 'history state read and written under the same key',
              'history state key differs between reader and writer', loc=ctx.loc(hr, hr.node))
    ugets = [c for c in q.own_calls(r) if isinstance(c.func, ast.Attribute) and c.func.attr == 'get' and c.args
             and isinstance(const_value(c.args[0]), bytes)]
    uputs = [c for c in q.own_calls(w) if isinstance(c.func, ast.Attribute) and c.func.attr == 'put']
    okk = len(ugets) == 1 and len(uputs) == 1 and const_value(ugets[0].args[0]) == const_value(uputs[0].args[0])
    ctx.check(okk, f'{prop}.STATEREC', ctx.key(r, None, 'state key'), 'UTXO state read and written under the same key',
              'UTXO state key differs between reader and writer', loc=ctx.loc(r, r.node))
    return n + 3


def rule_statealias(ctx, prop='C04'):
    '''DB.flush_dbs / flush_backup write flush_count (and the timers) into flush_data.state.  The block processor persists
    ITS state in the next backup batch, so those write-backs must land in the block processor's own state object: the
    FlushData handed over must carry self.state itself, not a copy.'''
    rule = f'{prop}.STATEALIAS'
    n = 0
    dbrel = ctx.repo.path('db')
    wb = []
    for f in ctx.repo.funcs.values():
        if f.unit.relpath != dbrel or f.cls != 'DB' or len(f.params) < 2:
            continue
        for s_ in f.own_nodes():
            if isinstance(s_, ast.Assign):
                for t in s_.targets:
                    if isinstance(t, ast.Attribute) and isinstance(t.value, ast.Attribute) and t.value.attr == 'state' \
                            and isinstance(t.value.value, ast.Name) and t.value.value.id in f.params[1:]:
                        wb.append((f, s_, t.attr))
    if not any(a == 'flush_count' for _f, _s, a in wb):
        return 0     # nothing is written back through the hand-over object any more
    bp = ctx.repo.path('bp')
    for f in ctx.repo.funcs.values():
        if f.unit.relpath != bp:
            continue
        for c in f.own_nodes():
            if isinstance(c, ast.Call) and norm(c.func) == 'FlushData':
                arg = c.args[0] if c.args else next((k.value for k in c.keywords if k.arg == 'state'), None)
                n += 1
                ctx.check(arg is not None and ctx.res.canon(arg, f) == 'self.state', rule, ctx.key(f, q.stmt(c), 'live state handed over'),
                          'the flush hand-over carries the block processor\'s own state object; flush_count written by the DB reaches it',
                          f'the flush hand-over carries `{norm(arg) if arg is not None else "?"}`: flush_count written back by the DB '
                          f'({", ".join(sorted({ctx.loc(g, s_) for g, s_, a in wb if a == "flush_count"}))}) never reaches the block '
                          'processor\'s state, so the next backup batch persists a stale history flush count and the start-up scrub '
                          'deletes committed history', loc=ctx.loc(f, c))
    return n + len(wb)


def rule_who(ctx, prop='C04'):
    ws = writers(ctx)
    if len(ws) < 9:
        raise AnalysisError(f'only {len(ws)} durable writer functions recognised')
    n = 0
    for key in sorted(ws):
        f = ctx.repo.funcs[key]
        bad = reachable_only_through(ctx, f, PROTOCOL_ENTRIES)
        ctx.check(not bad, f'{prop}.WHO', ctx.key(f, None, 'durable writer'),
                  'reachable only through the flush / backup / open / compaction protocols',
                  'durable write reachable outside the analysed protocols via ' + ' | '.join(' <- '.join(reversed(c)) for c in bad[:3])
                  + f' ({ws[key][0][:100]})', witness=bad[:5], loc=ctx.loc(f, f.node))
        n += 1
    return n, ws


def positive_control_who(ctx):
    from ..selfcheck import fixture_ctx
    # a rogue writer module: a function with a store put that nobody in the protocols calls
    fx = fixture_ctx('rogue_writer.py')
    from ..resolve import STORE_FIELDS
    f = fx.repo.func('fixture', 'Rogue.note_peer')
    ig = InlineGraph(fx, f, max_depth=0)
    if not [e for e in ig.effects if e.kind == 'DIRECT_PUT' and e.store == 'UTXO']:
        raise AnalysisError('positive control failed: rogue store write in the fixture not recognised')
    ctx.note('positive control C04.WHO: fixture rogue_writer.py direct UTXO put recognised as a durable write')


def run(ctx):
    fd = ctx.func('db', 'DB.flush_dbs')
    ig = InlineGraph(ctx, fd)
    ctx.ig = ig
    got = ctx.rule('C04.ORDER', lambda: rule_order(ctx, ig))
    cp = None
    if got is not None:
        cp, n = got
        ctx.floor('C04.ORDER', 5, n)
    if cp is not None:
        ctx.rule('C04.REVOCABLE', lambda: rule_revocable(ctx, ig, cp) + rule_file_offsets(ctx), 7)
        ctx.rule('C04.ATOMIC', lambda: rule_atomic(ctx, ig, cp), 6)
        ctx.rule('C04.REWRITE', lambda: rule_rewrite(ctx, ig, cp), 2)
    else:
        ctx.rule('C04.REVOCABLE', lambda: rule_file_offsets(ctx), 5)
    ctx.rule('C04.SCRUB', lambda: rule_scrub(ctx), 6)
    ctx.rule('C04.POINTERS', lambda: rule_pointers(ctx), 3)
    ctx.rule('C04.STATEREC', lambda: rule_staterec(ctx), 6)
    ctx.rule('C04.WHO', lambda: rule_who(ctx)[0], 9)
    ctx.rule('C04.STATEALIAS', lambda: rule_statealias(ctx), 2)
    ctx.rule('C04.LOGICALFILE', lambda: rule_logical_file(ctx) + rule_logical_file_stateless(ctx), 5)
    ctx.rule('C04.STORAGE', lambda: rule_storage_batch(ctx), 2)
    ctx.rule('C04.STATEMOVE', lambda: rule_state_moves_with_commit(ctx), 2)
    ctx.rule('C04.UNFLUSHEDKEPT', lambda: rule_unflushed_kept(ctx), 1)
    ctx.rule('C04.PREFIXSCAN', lambda: rule_storage_prefix(ctx, 'C04'), 2)
    from . import c06 as _c06
    from ..chain import ChainModel as _CM
    ctx.rule('C04.OKFLAG', lambda: _c06.rule_okflag(ctx, _CM(ctx)), 20)
    # files are written ahead of the commit: readers must clip to the committed height or they serve the residue
    from . import c10
    ctx.rule('C04.BYHEIGHT', lambda: c10.rule_byheight(ctx, 'C04.BYHEIGHT'), 2)
    # recovery decodes what the flushes encoded (flush ids in history keys, the state records): writer / reader agreement
    from . import c01 as _c01, c02 as _c02
    sch = ctx.rule('C02.SCHEMAS', lambda: _c01.Schemas(ctx))
    if sch is not None:
        ctx.rule('C02.LAYOUT', lambda: _c02.rule_layout(ctx, sch), 14)
    ctx.rule('C04.WHO-control', lambda: positive_control_who(ctx))
    ctx.note(f'inlined effect graph of DB.flush_dbs: {ig.stats()}')


def rule_storage_batch(ctx, prop='C04'):
    '''The ATOMIC / REVOCABLE arguments rest on the storage contract "a write batch left by an exception writes nothing".
    LevelDB: every way write_batch is provided passes transaction=True to plyvel (without it plyvel commits what was queued
    when the `with` body raises).  RocksDB: __exit__ writes the batch only when no exception is being propagated.'''
    rule = f'{prop}.STORAGE'
    rel = ctx.repo.path('storage')
    n = 0
    for f in ctx.repo.funcs.values():
        if f.unit.relpath != rel or f.cls != 'LevelDB':
            continue
        for x in f.own_nodes():
            # self.write_batch = partial(self.db.write_batch, ...)  /  return self.db.write_batch(...)
            if isinstance(x, ast.Call) and any(norm(a).endswith('db.write_batch') for a in [x.func] + list(x.args)):
                n += 1
                kw = {k.arg: k.value for k in x.keywords}
                ok = 'transaction' in kw and isinstance(kw['transaction'], ast.Constant) and kw['transaction'].value is True
                ctx.check(ok, rule, ctx.key(f, q.stmt(x), 'LevelDB batches are transactions'),
                          'LevelDB write batches are created with transaction=True: a batch whose body raises is discarded',
                          f'`{norm(x)[:80]}` creates LevelDB write batches without transaction=True: when the `with` body raises (MemoryError, '
                          'a failed assertion) the operations queued so far are still written - rows without their state record',
                          loc=ctx.loc(f, x))
    ex = [f for f in ctx.repo.funcs.values() if f.unit.relpath == rel and f.cls == 'RocksDBWriteBatch' and f.name == '__exit__']
    for f in ex:
        ws = [c for c in q.own_calls(f) if isinstance(c.func, ast.Attribute) and c.func.attr == 'write']
        for c in ws:
            n += 1
            conds = pr.control_conditions(q.stmt(c), f.node)
            okc = False
            for t, b, _p in conds:
                txt = norm(t)
                if b and txt in (f'not {f.params[2]}', f'{f.params[1]} is None', f'{f.params[2]} is None'):
                    okc = True
                if (not b) and txt in (f.params[2], f.params[1], f'{f.params[1]} is not None', f'{f.params[2]} is not None'):
                    okc = True
            ctx.check(okc, rule, ctx.key(f, q.stmt(c), 'RocksDB batch written only on a clean exit'),
                      'the RocksDB batch is written only when the `with` body completed without an exception',
                      'the RocksDB batch is written even when the `with` body raised', loc=ctx.loc(f, c))
    return n


def rule_logical_file(ctx, prop='C04'):
    '''LogicalFile.write splits the data at physical-file boundaries: the room left in the current file depends on the
    running offset, so it is computed inside the loop; each piece is written at the running offset; the offset and the
    remaining data advance by the size of the piece written.'''
    rule = f'{prop}.LOGICALFILE'
    f = ctx.func('util', 'LogicalFile.write')
    cfg = ctx.cfg(f)
    sv, bv = f.params[1], f.params[2]
    loops = [s for s in f.node.body if isinstance(s, ast.While)]
    if len(loops) != 1:
        raise AnalysisError('LogicalFile.write: expected one loop over the remaining data')
    lp = loops[0]
    varying = set()
    for x in walk_own(lp):
        if isinstance(x, (ast.Assign, ast.AugAssign)):
            for t in (x.targets if isinstance(x, ast.Assign) else [x.target]):
                varying |= {n_.id for n_ in ast.walk(t) if isinstance(n_, ast.Name)}
    from .. import dataflow as df
    d = df.defs(f)
    stale = []
    for x in walk_own(lp):
        if isinstance(x, ast.Name) and isinstance(x.ctx, ast.Load) and x.id not in varying and x.id not in f.params:
            for st, rhs in d.get(x.id, []):
                if rhs is not None and not q.in_body(st, lp.body) and (df.names_loaded(rhs) & varying):
                    stale.append(f'{x.id} = {norm(rhs)[:50]} (line {int(round(st.lineno))})')
    stale = sorted(set(stale))
    ctx.check(not stale and {sv, bv} <= varying, rule, ctx.key(f, lp, 'piece size from the running offset'),
              'the size of each piece is computed from the running offset inside the loop; offset and data both advance',
              ('computed once before the loop although it depends on the running offset: ' + '; '.join(stale) +
               ' - the second and later pieces are cut with the first file\'s room, so data past a file boundary lands at the wrong '
               'place or is dropped') if stale else 'the loop does not advance both the offset and the remaining data', loc=ctx.loc(f, lp))
    # the open is at the running offset and the advance equals the piece length
    opens = [c for c in walk_own(lp) if isinstance(c, ast.Call) and q.callee_name(ctx, f, c) == 'self.open_file']
    adv = [s for s in walk_own(lp) if isinstance(s, ast.AugAssign) and isinstance(s.op, ast.Add) and norm(s.target) == sv]
    cut = [s for s in walk_own(lp) if isinstance(s, ast.Assign) and norm(s.targets[0]) == bv and isinstance(s.value, ast.Subscript)
           and isinstance(s.value.slice, ast.Slice) and s.value.slice.upper is None and s.value.slice.lower is not None]
    ok = len(opens) == 1 and norm(opens[0].args[0]) == sv and len(adv) == 1 and len(cut) == 1 and norm(adv[0].value) == norm(cut[0].value.slice.lower)
    if ok:
        o1, _ = pr.once_per_iteration(cfg, lp, [cfg.node(adv[0])])
        o2, _ = pr.once_per_iteration(cfg, lp, [cfg.node(cut[0])])
        ok = o1 and o2 and opens[0].lineno < adv[0].lineno
    ctx.check(ok, rule, ctx.key(f, lp, 'offset and data advance together'),
              'each piece is written at the running offset, then offset and data advance by the same piece size, once per iteration',
              'the offset and the remaining data do not advance by the same piece size once per iteration (or the file is opened at '
              'another offset)', loc=ctx.loc(f, lp))
    # LogicalFile.read: the requested size is taken as given - 0 bytes means 0 bytes (the reader of a file that is ahead of the
    # state record asks for exactly the committed part, which is nothing before the first commit).  The size is changed only
    # by counting down what was read; the loop runs while it is != 0.
    rd = ctx.func('util', 'LogicalFile.read')
    szv = rd.params[2]
    rloops = [s_ for s_ in rd.node.body if isinstance(s_, ast.While)]
    writes = [s_ for s_ in rd.own_nodes() if isinstance(s_, (ast.Assign, ast.AugAssign))
              and any(isinstance(t, ast.Name) and t.id == szv for t in (s_.targets if isinstance(s_, ast.Assign) else [s_.target]))]
    foreign = [norm(s_) for s_ in writes if not (isinstance(s_, ast.AugAssign) and isinstance(s_.op, ast.Sub) and rloops and q.in_body(s_, rloops[0].body))]
    test_ok = len(rloops) == 1 and q.cmp_matches(ctx, rd, rloops[0].test, f'{szv} != 0')
    ctx.check(not foreign and test_ok, rule, ctx.key(rd, None, 'size taken as given'),
              'read() loops while size != 0 and changes size only by counting down what was read',
              f'read() re-interprets the requested size ({foreign or norm(rloops[0].test) if rloops else "no loop"}): a request for 0 bytes '
              '(the committed part of the files before the first commit) no longer reads nothing', loc=ctx.loc(rd, rd.node))
    # ... and the loop is left early only when nothing more can be read (an empty part, a missing file): a short part is what
    # every physical-file boundary produces, and the rest of the request lies in the next file
    from .. import paths as _P
    early = []
    if len(rloops) == 1:
        pv = [norm(s_.targets[0]) for s_ in walk_own(rloops[0]) if isinstance(s_, ast.Assign) and isinstance(s_.value, ast.Call)
              and isinstance(s_.value.func, ast.Attribute) and s_.value.func.attr == 'read' and isinstance(s_.targets[0], ast.Name)]
        for p_ in _P.paths(rloops[0].body):
            if p_.exit not in ('break', 'return'):
                continue
            if any(isinstance(nd, ast.ExceptHandler) for _t, _pol, nd in p_.conds):
                continue
            ds = p_.decisions()
            if len(ds) == 1:
                t_, pol_ = ds[0]
                while isinstance(t_, ast.UnaryOp) and isinstance(t_.op, ast.Not):
                    t_, pol_ = t_.operand, not pol_
                if isinstance(t_, ast.Call) and isinstance(t_.func, ast.Name) and t_.func.id == 'len' and len(t_.args) == 1:
                    t_ = t_.args[0]
                is_part = (isinstance(t_, ast.Name) and t_.id in pv) or \
                    (isinstance(t_, ast.Call) and isinstance(t_.func, ast.Attribute) and t_.func.attr == 'read')
                if is_part and pol_ is False:
                    continue
            early.append(' & '.join(p_.cond_texts())[:100])
    ctx.check(len(rloops) == 1 and not early, rule, ctx.key(rd, None, 'reads across file boundaries'),
              'read() leaves its loop early only on an empty part or a missing file',
              f'read() stops although more may follow (left when {early[:2]}): a request that straddles a physical-file boundary '
              'comes back short (tx hashes / headers / counts of a block cut at the boundary)', loc=ctx.loc(rd, rd.node))
    return 4


def rule_unflushed_kept(ctx, prop='C04'):
    """History.flush gives up its in-memory copy only after the batch that persists it was committed: entries removed from
    `self.unflushed` while the batch is still being filled are gone if the commit fails (disk full, the job cancelled with
    the batch discarded) - the next flush then writes a state record for rows that were never stored."""
    rule = f'{prop}.UNFLUSHEDKEPT'
    f = ctx.func('hist', 'History.flush')
    withs = [s_ for s_ in f.own_nodes() if isinstance(s_, (ast.With, ast.AsyncWith))
             and any(isinstance(i.context_expr, ast.Call) and norm(i.context_expr.func).endswith('write_batch') for i in s_.items)]
    if len(withs) != 1:
        raise AnalysisError('History.flush: expected one write batch')
    w = withs[0]
    end = max(getattr(x, 'lineno', 0) for x in ast.walk(w))
    n = 0
    bad = []
    for x in f.own_nodes():
        site = None
        if isinstance(x, ast.Call) and isinstance(x.func, ast.Attribute) and x.func.attr in ('pop', 'clear', 'popitem') \
                and ctx.res.canon(x.func.value, f) == 'self.unflushed':
            site = x
        elif isinstance(x, ast.Delete) and any(isinstance(t, ast.Subscript) and ctx.res.canon(t.value, f) == 'self.unflushed' for t in x.targets):
            site = x
        elif isinstance(x, ast.Assign) and any(ctx.res.canon(t, f) == 'self.unflushed' for t in x.targets if isinstance(t, ast.Attribute)):
            site = x
        if site is None:
            continue
        n += 1
        if q.in_body(site, w.body) or site.lineno <= end:
            bad.append(f'{norm(q.stmt(site) if not isinstance(site, ast.stmt) else site)[:70]} (line {int(round(site.lineno))})')
    ctx.check(n >= 1 and not bad, rule, ctx.key(f, w, 'released after the commit'),
              'the unflushed history is released only after its batch was committed',
              f'unflushed history is released before its batch is committed: {bad}' if bad else 'History.flush never releases the unflushed history',
              loc=ctx.loc(f, w))
    return 1


def rule_logical_file_stateless(ctx, prop='C04'):
    '''LogicalFile keeps no open handle and no position between calls: readers run on several executor threads at once, and
    a shared handle's seek + read pairs interleave (one thread reads at the other's offset).  Every read / write opens its
    own handle through open_file() inside a `with`.'''
    rule = f'{prop}.LOGICALFILE'
    rel = ctx.repo.path('util')
    wr = []
    for f in ctx.repo.funcs.values():
        if f.unit.relpath != rel or f.cls != 'LogicalFile' or f.name == '__init__':
            continue
        for x in f.own_nodes():
            if isinstance(x, ast.Attribute) and isinstance(x.ctx, (ast.Store, ast.Del)) and isinstance(x.value, ast.Name) and x.value.id == 'self':
                par_ = getattr(x, '_parent', None)
                if isinstance(par_, ast.AugAssign) and isinstance(par_.value, ast.Constant) and isinstance(par_.value.value, (int, float)):
                    continue        # a statistics counter
                wr.append(f'{ctx.loc(f, x)} {f.qual}: self.{x.attr}')
            if isinstance(x, ast.Call) and isinstance(x.func, ast.Attribute) and x.func.attr in ('setdefault', 'append', 'update', 'add', '__setitem__') \
                    and isinstance(x.func.value, ast.Attribute) and isinstance(x.func.value.value, ast.Name) and x.func.value.value.id == 'self':
                wr.append(f'{ctx.loc(f, x)} {f.qual}: self.{x.func.value.attr}.{x.func.attr}')
            if isinstance(x, (ast.Assign,)) and any(isinstance(t, ast.Subscript) and isinstance(t.value, ast.Attribute) and
                                                    isinstance(t.value.value, ast.Name) and t.value.value.id == 'self' for t in x.targets):
                wr.append(f'{ctx.loc(f, x)} {f.qual}: {norm(x.targets[0])[:40]}')
    ctx.check(not wr, rule, f'{rel} :: LogicalFile :: no state kept between calls',
              'no method of LogicalFile other than __init__ stores anything on the object',
              f'LogicalFile keeps state between calls ({wr[:2]}): a cached handle shares its file position between the executor threads that '
              'read meta/hashes, meta/headers concurrently - a reader then gets the bytes at another reader\'s offset')
    n = 1
    for name in ('read', 'write'):
        f = ctx.func('util', f'LogicalFile.{name}')
        opens = [c for c in q.own_calls(f) if q.callee_name(ctx, f, c) == 'self.open_file']
        ok = bool(opens) and all(isinstance(getattr(c, '_parent', None), ast.withitem) for c in opens)
        ctx.check(ok, rule, ctx.key(f, None, 'own handle per call'),
                  f'LogicalFile.{name} opens its own handle in a `with` for each piece',
                  f'LogicalFile.{name} does not open its own handle in a `with`', loc=ctx.loc(f, f.node))
        n += 1
    return n


def rule_storage_prefix(ctx, prop='C01'):
    '''Storage.iterator(prefix) yields exactly the keys that start with the prefix - every table scan (u/h rows of one script
    hash, undo rows, history rows) relies on it.  An engine class provides it in one of the forms whose end-of-range is right
    for every prefix, including one that ends in 0xff bytes: the engine's own prefix iterator, a per-key startswith() test, or
    an end key computed by util.increment_byte_string (which carries over 0xff).'''
    rule = f'{prop}.PREFIXSCAN'
    rel = ctx.repo.path('storage')
    n = 0
    classes = {}
    for f in ctx.repo.funcs.values():
        if f.unit.relpath == rel and f.cls and f.parent is None:
            classes.setdefault(f.cls, {})[f.name] = f
    for cls, meths in sorted(classes.items()):
        if cls == 'Storage' or 'open' not in meths:
            continue
        n += 1
        ok, how = False, 'no iterator provided'
        if 'iterator' in meths:
            it = meths['iterator']
            txt = ' '.join(norm(x) for x in it.own_nodes() if isinstance(x, ast.Call))
            kw_prefix = any(isinstance(c, ast.Call) and any(k.arg == 'prefix' for k in c.keywords) for c in it.own_nodes())
            via_class = [norm(c.func) for c in it.own_nodes() if isinstance(c, ast.Call) and norm(c.func) in classes]
            starts = False
            for vc in via_class:
                nx = classes[vc].get('__next__')
                starts = starts or (nx is not None and any(isinstance(c, ast.Call) and isinstance(c.func, ast.Attribute) and c.func.attr == 'startswith'
                                                           for c in nx.own_nodes()))
            inc = 'increment_byte_string' in txt
            ok = kw_prefix or starts or inc
            how = f'{cls}.iterator: passes prefix= to the engine: {kw_prefix}; per-key startswith test: {starts}; increment_byte_string: {inc}'
        else:
            op = meths['open']
            binds = [s_ for s_ in op.own_nodes() if isinstance(s_, ast.Assign) and any(ctx.res.canon(t, op) == 'self.iterator' for t in s_.targets
                                                                                    if isinstance(t, ast.Attribute))]
            ok = len(binds) == 1 and norm(binds[0].value).endswith('.iterator')
            how = f'{cls}.open binds self.iterator = {norm(binds[0].value) if binds else "?"}'
        ctx.check(ok, rule, f'{rel} :: {cls} :: prefix scans end where the prefix ends',
                  'the prefix iterator is the engine\'s own, filters by startswith, or ends at increment_byte_string(prefix)',
                  how + ' - the end of the prefix range is computed some other way: for a prefix ending in 0xff the scan runs on into the keys '
                  'of other script hashes (their UTXOs and balances are reported for this one)')
    return n


def rule_state_moves_with_commit(ctx, prop='C04'):
    '''DB.state is the height the UTXO store has committed.  (1) In flush_utxo_db the new state is assigned BEFORE
    write_utxo_state(batch) serialises it, so the batch carries the state record that matches its rows.  (2) In flush_dbs the
    state is re-written after the flush only when UTXOs were flushed: on a history-only flush the block processor's state is
    ahead of the UTXO store, and a direct state put would make the DB report a height whose UTXOs were never written.'''
    rule = f'{prop}.STATEMOVE'
    n = 0
    fu = ctx.func('db', 'DB.flush_utxo_db')
    ws = ctx.func('db', 'DB.write_utxo_state')
    cfg = ctx.cfg(fu)
    calls = [q.stmt(c) for c in q.calls_resolving_to(ctx, fu, ws)]
    assigns = [s_ for s_ in fu.own_nodes() if isinstance(s_, ast.Assign) and any(isinstance(t, ast.Attribute) and ctx.res.canon(t, fu) == 'self.state'
                                                                              for t in s_.targets)]
    ok = bool(calls) and bool(assigns)
    wit = None
    if ok:
        for c in calls:
            p = pr.path_avoiding(cfg, [cfg.entry], [cfg.node(c)], {cfg.node(a) for a in assigns})
            if p is not None:
                ok, wit = False, cfg.describe_path(p)
    ctx.check(ok, rule, ctx.key(fu, calls[0] if calls else None, 'batch carries the new state'),
              'self.state takes the flushed state before write_utxo_state(batch) serialises it',
              'write_utxo_state(batch) can run before self.state was updated: the UTXO batch then commits the new rows under the OLD state '
              'record; a crash before the later direct put leaves a DB that reports the old height over the new UTXO set',
              witness=wit, loc=ctx.loc(fu, calls[0] if calls else fu.node))
    n += 1
    fd = ctx.func('db', 'DB.flush_dbs')
    fup = fd.params[2]
    moves = [s_ for s_ in fd.own_nodes() if isinstance(s_, ast.Assign) and any(isinstance(t, ast.Attribute) and ctx.res.canon(t, fd) == 'self.state'
                                                                             for t in s_.targets)]
    moves += [q.stmt(c) for c in q.calls_resolving_to(ctx, fd, ws)]
    bad = []
    for m in moves:
        conds = pr.control_conditions(m, fd.node)
        if not any(b and isinstance(t, ast.Name) and t.id == fup for t, b, _p in conds):
            bad.append(f'line {int(round(m.lineno))} `{norm(m)[:50]}`')
    ctx.check(not bad and bool(moves), rule, ctx.key(fd, None, 'state re-written only with a UTXO flush'),
              f'in flush_dbs DB.state is moved / re-written only under `if {fup}`',
              f'{"; ".join(bad)} is not conditional on `{fup}`: a history-only flush then stores the block processor\'s state, which is ahead of '
              'the UTXO store - after a crash the DB reports a height whose UTXO changes were never committed',
              loc=ctx.loc(fd, fd.node))
    return n + 1
