'''C19 - only verified, public, recently good peers are advertised, spread over networks.

Decided: FILTER (recent = last_good > now - STALE_SECS and not bad and is_public), PROV (everything on_peers_subscribe
returns comes from that list through a per-bucket slice of constant bound <= 2, the onion slice bounded by max_onion, or
from the server's own identities under the same recency test), PORT (0 < port < 65536), PUBLIC (is_valid in both branches;
not private / not localhost), CACHED (a cachedproperty of Peer never reads an attribute that is re-assigned after
construction), FEATURES (peers built from announced features only for string hosts of a dict; Peer's accessors type-check),
BAD (bad is only ever set, and nothing but the filter decides on it).
Not decided: bucket arithmetic of `ipaddress`; the ESC clause of announced features is decided by C16's interpreter.
'''
import ast

from ..model import AnalysisError, norm, walk_own, const_value
from .. import q, pathrules as pr, dataflow as df

EXPLANATION = ('static necessary conditions of C19 on PeerManager._get_recent_good_peers / on_peers_subscribe and lib/peer.py: filter '
               'conjunction, provenance and constant slice bounds of the returned peers, port range, public test, cachedproperty purity, '
               'feature type checks. Does NOT decide the bucket arithmetic of the ipaddress module.')
ASSUMPTIONS = ['list slicing [:k] returns at most k elements', 'util.cachedproperty caches the first computed value on the instance']


def run(ctx):
    ctx.rule('C19.FILTER', lambda: rule_filter(ctx), 2)
    ctx.rule('C19.PROV', lambda: rule_prov(ctx), 5)
    ctx.rule('C19.PORT', lambda: rule_port(ctx), 2)
    ctx.rule('C19.PUBLIC', lambda: rule_public(ctx), 2)
    ctx.rule('C19.CACHED', lambda: rule_cached(ctx), 8)
    ctx.rule('C19.FEATURES', lambda: rule_features(ctx), 3)
    ctx.rule('C19.BUCKET', lambda: rule_bucket(ctx), 2)
    ctx.rule('C19.TASKRESULT', lambda: rule_task_results(ctx), 1)
    ctx.rule('C19.VERIFIED', lambda: rule_verified(ctx), 1)


def rule_filter(ctx):
    f = ctx.func('peers', 'PeerManager._get_recent_good_peers')
    n = 0
    comps = [x for x in f.own_nodes() if isinstance(x, ast.ListComp)]
    ok, why = False, 'filtering comprehension not found'
    if len(comps) == 1:
        c = comps[0]
        g = c.generators[0]
        pv = norm(g.target)
        conj = set()
        cjs = []
        for t in g.ifs:
            cjs += pr.conjuncts(t)
        conj = {norm(x) for x in cjs}
        d = df.defs(f)
        cut_ok = recency_test(ctx, f, cjs, pv, d)
        need = {f'not {pv}.bad', f'{pv}.is_public'}
        ok = need <= conj and cut_ok and len(conj) == 3 and ctx.res.canon(g.iter, f) == 'self.peers' and norm(c.elt) == pv
        why = f'conjuncts {sorted(conj)}, cutoff ok={cut_ok}'
    ctx.check(ok, 'C19.FILTER', ctx.key(f, None, 'conjunction'),
              'recent good peers = last_good > now - STALE_SECS and not bad and is_public, over all known peers',
              'the recent-good filter is not the conjunction (recent, not bad, public): ' + why, loc=ctx.loc(f, f.node))
    n += 1
    rets = [r for r in f.own_nodes() if isinstance(r, ast.Return)]
    okr = False
    if len(rets) == 1 and comps:
        v = rets[0].value
        okr = v is comps[0] or (isinstance(v, ast.Name) and any(rhs is comps[0] for _s, rhs in df.defs(f).get(v.id, []))
                                and len(df.defs(f).get(v.id, [])) == 1)
    ctx.check(bool(okr), 'C19.FILTER', ctx.key(f, None, 'returns the filtered list'), 'the filtered list is what is returned',
              'the function does not return the filtered list', loc=ctx.loc(f, f.node))
    return n + 1


def recency_test(ctx, f, conjuncts, pv, d):
    '''One of the conjuncts is `<pv>.last_good > <cutoff>` with cutoff = time.time() - STALE_SECS.'''
    for cj in conjuncts:
        if not (isinstance(cj, ast.Compare) and len(cj.ops) == 1):
            continue
        for cand in (cj.left, cj.comparators[0]):
            if isinstance(cand, ast.Name) and len(d.get(cand.id, [])) == 1 and norm(d[cand.id][0][1]) == 'time.time() - STALE_SECS':
                if q.cmp_matches(ctx, f, cj, f'{pv}.last_good > {cand.id}'):
                    return True
    return False


def rule_prov(ctx):
    f = ctx.func('peers', 'PeerManager.on_peers_subscribe')
    d = df.defs(f)
    n = 0
    rg = ctx.func('peers', 'PeerManager._get_recent_good_peers')
    rc = q.calls_resolving_to(ctx, f, rg)
    if len(rc) != 1 or not isinstance(q.stmt(rc[0]), ast.Assign):
        raise AnalysisError(f'{f.key}: recent good peers not obtained')
    recent = norm(q.stmt(rc[0]).targets[0])
    # the result set
    rets = [r for r in f.own_nodes() if isinstance(r, ast.Return)]
    ok = len(rets) == 1 and isinstance(rets[0].value, ast.ListComp) and norm(rets[0].value.elt).endswith('.to_tuple()') \
        and not rets[0].value.generators[0].ifs
    rs = norm(rets[0].value.generators[0].iter) if ok else None
    ctx.check(ok, 'C19.PROV', ctx.key(f, None, 'result'), 'the reply lists exactly the selected peer set',
              'the reply is not the unfiltered image of the selected peer set', loc=ctx.loc(f, f.node))
    n += 1
    if not ok:
        return n
    # every way something enters the result set
    adds = []
    for s in f.own_nodes():
        if isinstance(s, ast.Assign) and norm(s.targets[0]) == rs:
            adds.append(('init', s, s.value))
        if isinstance(s, ast.Call) and isinstance(s.func, ast.Attribute) and norm(s.func.value) == rs and s.func.attr in ('update', 'add', 'extend', 'append'):
            adds.append((s.func.attr, q.stmt(s), s.args[0]))
        if isinstance(s, ast.AugAssign) and norm(s.target) == rs:
            adds.append(('aug', s, s.value))
    bucket_var = onion_var = None
    for lp in [s for s in f.own_nodes() if isinstance(s, ast.For) and norm(s.iter) == recent]:
        for c in walk_own(lp):
            if isinstance(c, ast.Call) and isinstance(c.func, ast.Attribute) and c.func.attr == 'append' and norm(c.args[0]) == norm(lp.target):
                base = c.func.value
                conds = [norm(t) for t, b, _p in pr.control_conditions(q.stmt(c), lp) if b] + \
                        ['not ' + norm(t) for t, b, _p in pr.control_conditions(q.stmt(c), lp) if not b]
                if isinstance(base, ast.Subscript):
                    bucket_var = (norm(base.value), norm(base.slice), conds)
                elif isinstance(base, ast.Call) and isinstance(base.func, ast.Attribute) and base.func.attr == 'setdefault' and len(base.args) == 2 \
                        and isinstance(base.args[1], ast.List) and not base.args[1].elts:
                    # buckets.setdefault(k, []).append(peer): the defaultdict spelt out
                    bucket_var = (norm(base.func.value), norm(base.args[0]), conds)
                else:
                    onion_var = (norm(base), conds)
    for kind, st, val in adds:
        n += 1
        okk, why = False, f'`{norm(st)}`'
        if kind == 'init':
            # own identities under the recency test
            comp = val.args[0] if isinstance(val, ast.Call) and norm(val.func) == 'set' and val.args and isinstance(val.args[0], ast.GeneratorExp) \
                else (val if isinstance(val, ast.SetComp) else None)
            if comp is not None and len(comp.generators) == 1 and norm(comp.elt) == norm(comp.generators[0].target):
                g = comp.generators[0]
                pv = norm(g.target)
                cjs = [x for t in g.ifs for x in pr.conjuncts(t)]
                okk = ctx.res.canon(g.iter, f) == 'self.myselves' and len(cjs) == 1 and recency_test(ctx, f, cjs, pv, d)
            elif isinstance(val, ast.Call) and norm(val.func) == 'set' and not val.args:
                okk = True
            why = 'own identities must pass the same recency test'
        elif kind == 'update' and isinstance(val, ast.Subscript) and isinstance(val.slice, ast.Slice) and val.slice.lower is None:
            src = norm(val.value)
            bound = val.slice.upper
            loopv = [p for p, _f in q.enclosing_chain(st, f.node) if isinstance(p, ast.For)]
            if loopv and bucket_var and norm(loopv[0].target) == src and norm(loopv[0].iter) == f'{bucket_var[0]}.values()':
                b = const_value(bound)
                okk = isinstance(b, int) and 0 <= b <= 2
                why = f'per-bucket slice bound {norm(bound)} must be a constant <= 2'
            elif onion_var and src == onion_var[0]:
                bd = d.get(norm(bound), []) if isinstance(bound, ast.Name) else []
                bexpr = bd[0][1] if len(bd) == 1 else (bound if not isinstance(bound, ast.Name) else None)
                okk = isinstance(bexpr, ast.IfExp) and const_value(bexpr.body) is not None and \
                    isinstance(bexpr.orelse, ast.Call) and norm(bexpr.orelse.func) == 'max'
                if okk:
                    mx = bexpr.orelse
                    consts = [const_value(a) for a in mx.args if const_value(a) is not None]
                    okk = len(consts) == 1 and isinstance(const_value(bexpr.body), int)
                    # the variable share is a share of what was already selected (own identities + <= 2 per clearnet bucket),
                    # never of a list whose size the onion peers themselves determine
                    for a in mx.args:
                        if const_value(a) is None:
                            used = {x.id for x in ast.walk(a) if isinstance(x, ast.Name)} - {'len', 'int', 'min'}
                            if used != {rs}:
                                okk = False
                why = ('onion slice must be bounded by max_onion: a constant for tor clients, max(const, share of the peers already '
                       f'selected into `{rs}`) otherwise - a share of any other list grows with the number of onion peers announced')
            else:
                why = f'slice of `{src}` which is not a bucket of the recent good peers nor their onion list'
        ctx.check(okk, 'C19.PROV', ctx.key(f, st, 'source of advertised peers'),
                  'peers enter the reply only from the recent-good list through a bounded slice, or as own recently verified identities',
                  f'peers enter the reply through {norm(st)}: {why}', loc=ctx.loc(f, st))
    # bucketing of the recent list
    okb = bucket_var is not None and onion_var is not None and bucket_var[1].endswith('.bucket_for_external_interface()') and \
        any('is_tor' in c for c in onion_var[1]) and any('is_tor' in c for c in bucket_var[2])
    ctx.check(okb, 'C19.PROV', ctx.key(f, None, 'bucketing'),
              'recent peers are split into onion peers and clearnet buckets keyed by bucket_for_external_interface()',
              'recent peers are not split into onion / clearnet buckets by bucket_for_external_interface()', loc=ctx.loc(f, f.node))
    return n + 1


BUCKET_PREFIX = {'IPv4Network': (32, 16), 'IPv6Network': (128, 56)}     # (address bits, external bucket prefix) - C19 anchors: (/16, /56)


def rule_bucket(ctx):
    '''The external bucket of a clearnet peer is its /16 (IPv4) or /56 (IPv6) network: supernet(prefixlen_diff=d) of the host
    network must have prefix length bits - d equal to that.'''
    f = ctx.func('peer', 'Peer.bucket_for_external_interface')
    n = 0
    # per return path, locals expressed in the inputs: the class and the width may come from literals in place, from named
    # constants or from a table row selected by the address version
    from .. import paths as P
    sites, seen = [], set()
    for pth in P.returns(f.node):
        for c in ast.walk(pth.value) if pth.value is not None else []:
            if isinstance(c, ast.Call) and isinstance(c.func, ast.Attribute) and c.func.attr == 'supernet' and isinstance(c.func.value, ast.Call):
                if norm(c) not in seen:
                    seen.add(norm(c))
                    sites.append(c)
    for c in sites:
        cls = norm(c.func.value.func).split('.')[-1]
        if cls not in BUCKET_PREFIX:
            continue
        n += 1
        bits, want = BUCKET_PREFIX[cls]
        kw = {k.arg: k.value for k in c.keywords}
        got = None
        try:
            if 'prefixlen_diff' in kw:
                lin = q.linear(ctx, f, kw['prefixlen_diff'])
                if set(k for k, v in lin.items() if v) <= {''}:
                    got = bits - lin.get('', 0)
            elif 'new_prefix' in kw:
                lin = q.linear(ctx, f, kw['new_prefix'])
                if set(k for k, v in lin.items() if v) <= {''}:
                    got = lin.get('', 0)
        except q.NotLinear:
            pass
        ctx.check(got == want, 'C19.BUCKET', ctx.key(f, None, cls),
                  f'{cls} hosts are bucketed by their /{want} network',
                  f'{cls} hosts are bucketed by their /{got} network, not /{want}: ' +
                  ('many more peers of one operator fit into the reply' if (got or 0) > want else 'unrelated networks share a bucket'),
                  loc=ctx.loc(f, f.node))
    # each address family uses its own network class
    return n


def rule_port(ctx):
    f = ctx.func('peer', 'Peer._port')
    n = 0
    # per return path: a value other than None is returned only under 0 < port < 65536, however the test is spelt (nested
    # ifs, guard clauses, a conditional expression, a named flag)
    from .. import paths as P
    rets = [p_ for p_ in P.returns(f.node) if not (p_.value is None or (isinstance(p_.value, ast.Constant) and p_.value.value is None))]
    ok, why = bool(rets), 'no value-returning path'
    for p_ in rets:
        parts = []
        for t, pol in p_.decisions():
            for cj in (pr.conjuncts(t) if pol else [ast.UnaryOp(op=ast.Not(), operand=t)]):
                parts += q.split_compare(cj) if not (isinstance(cj, ast.UnaryOp)) else [cj]
        lo = hi = False
        pv = norm(p_.value)
        for pc in parts:
            cn = q.comparison_normal(ctx, None, pc)
            if cn is None:
                continue
            dd, op = cn
            if op == '>' and q.lin_eq(dd, {pv: 1, '': 0}):
                lo = True
            if op == '>' and q.lin_eq(dd, {pv: -1, '': 65536}):
                hi = True
            if op == '>=' and q.lin_eq(dd, {pv: 1, '': -1}):
                lo = True
            if op == '>=' and q.lin_eq(dd, {pv: -1, '': 65535}):
                hi = True
        ok = ok and lo and hi
        if not (lo and hi):
            why = f'`return {pv}` under {p_.cond_texts()}: lower bound ok={lo}, upper bound ok={hi}'
    ctx.check(ok, 'C19.PORT', ctx.key(f, None, 'range'),
              'a port is returned only under 0 < port < 65536', 'a port can be returned outside 0 < port < 65536: ' + why, loc=ctx.loc(f, f.node))
    n += 1
    g = ctx.func('peer', 'Peer._integer')
    # per return path: None, or a value the path has established to be an int
    from .. import paths as P
    rps = P.returns(g.node)
    oki = bool(rps) and any(not (isinstance(p_.value, ast.Constant) and p_.value.value is None) for p_ in rps)
    okb = oki
    for p_ in rps:
        if isinstance(p_.value, ast.Constant) and p_.value.value is None:
            continue
        # ... or int(...) itself
        v_ = norm(p_.value)
        is_int = any(pol and isinstance(t, ast.expr) and norm(t) in (f'isinstance({v_}, int)', f'type({v_}) is int') for t, pol, _n in p_.conds)
        oki = oki and (is_int or (isinstance(p_.value, ast.Call) and norm(p_.value.func) == 'int'))
        # bool is a subclass of int: JSON true / false pass isinstance(x, int); the path must have excluded them (or the
        # value is the result of int(...) on a string, or the test was on the exact type)
        exact = any(pol and isinstance(t, ast.expr) and norm(t) == f'type({v_}) is int' for t, pol, _n in p_.conds) or \
            any((not pol) and isinstance(t, ast.expr) and norm(t) in (f'isinstance({v_}, bool)', f'type({v_}) is bool') for t, pol, _n in p_.conds) or \
            (isinstance(p_.value, ast.Call) and norm(p_.value.func) == 'int')
        okb = okb and exact
    ctx.check(oki, 'C19.PORT', ctx.key(g, None, 'integers only'), '_integer returns an int or None',
              '_integer can return a non-integer', loc=ctx.loc(g, g.node))
    ctx.check(okb, 'C19.PORT', ctx.key(g, None, 'booleans are not integers'),
              'no path of _integer returns a value that may be a JSON boolean',
              '_integer returns a value established only by isinstance(x, int): JSON true / false pass (bool is a subclass of int) - a peer '
              'announced with "tcp_port": true carries the port True and is advertised as "tTrue"', loc=ctx.loc(g, g.node))
    return n + 2


def rule_public(ctx):
    # decided per return path and up to propositional equivalence: which branch is tested first, early return or else,
    # `not (a or b)` or `not a and not b` make no difference
    from .. import paths as P
    f = ctx.func('peer', 'Peer.is_public')

    def truth_formula(fn_node, on_ip_wanted):
        """the condition under which the property returns a true value on the IP / named-host side: the disjunction over the
        return paths of (the path's decisions and the returned expression) - as source text for bool_equiv"""
        terms = []
        for pth in P.returns(fn_node):
            on_ip = P.truthy(pth, 'self.ip_address')
            if on_ip is not None and on_ip != on_ip_wanted:
                continue          # (a path that does not look at the address kind belongs to both sides)
            parts = []
            for t, pol in pth.decisions():
                if norm(t) == 'self.ip_address':
                    continue
                parts.append(f'({norm(t)})' if pol else f'(not ({norm(t)}))')
            parts.append(f'({norm(pth.value)})')
            terms.append('(' + ' and '.join(parts) + ')')
        return ' or '.join(terms) if terms else None
    fi, fn_ = truth_formula(f.node, True), truth_formula(f.node, False)
    ip_branch = fi is not None and q.bool_equiv(fi, 'self.is_valid and not self.ip_address.is_private')
    name_branch = fn_ is not None and q.bool_equiv(fn_, "self.is_valid and self.host != 'localhost'")
    ctx.check(bool(ip_branch) and bool(name_branch), 'C19.PUBLIC', ctx.key(f, None, 'both branches'),
              'an IP host is public iff valid and not private; a named host iff valid and not localhost',
              f'is_public does not require validity plus not-private (IP: {ip_branch}) / not-localhost (name: {name_branch})', loc=ctx.loc(f, f.node))
    g = ctx.func('peer', 'Peer.is_valid')
    okip = okv = None
    for pth in P.returns(g.node):
        on_ip = P.truthy(pth, 'self.ip_address')
        if on_ip is None:
            okip = okv = False
            break
        if on_ip:
            okip = (okip is not False) and q.bool_equiv(
                pth.value, '(self.ip_address.is_global or self.ip_address.is_private) and not (self.ip_address.is_multicast or self.ip_address.is_unspecified)')
        else:
            okv = (okv is not False) and norm(pth.value) == 'is_valid_hostname(self.host)'
    ctx.check(bool(okv) and bool(okip), 'C19.PUBLIC', ctx.key(g, None, 'validity'),
              'a named host is valid iff it is a syntactically valid hostname; an IP iff global-or-private and neither multicast nor unspecified',
              'is_valid does not test hostname syntax / address class as required', loc=ctx.loc(g, g.node))
    return 2


def rule_verified(ctx):
    """A peer is marked good only when _verify_peer ran to completion.  Between the awaited verification and the statement
    that records success nothing may absorb an abnormal end of the verification: a context manager that swallows a timeout
    or a cancellation (ignore_after / ignore_at / move_on_after / suppress) lets control fall through to `is_good = True`
    although no check was finished - an unverified (possibly hostile) peer becomes "recently good" and is advertised."""
    SWALLOW = ('ignore_after', 'ignore_at', 'move_on_after', 'move_on_at', 'suppress')
    vp = ctx.func('peers', 'PeerManager._verify_peer')
    n = 0
    for f in ctx.repo.funcs.values():
        for c in q.own_calls(f):
            t = ctx.res.resolve_ref(c.func, f)
            if t is None or t.key != vp.key:
                continue
            n += 1
            st = q.stmt(c)
            bad = []
            for p, _f in q.enclosing_chain(st, f.node):
                if isinstance(p, (ast.With, ast.AsyncWith)):
                    for it in p.items:
                        ce = it.context_expr
                        if isinstance(ce, ast.Call) and norm(ce.func).split('.')[-1] in SWALLOW:
                            bad.append(norm(ce))
                if isinstance(p, ast.Try):
                    if any(x is st or any(y is st for y in ast.walk(x)) for x in p.body):
                        for h in p.handlers:
                            names = [norm(x).split('.')[-1] for x in ((h.type.elts if isinstance(h.type, ast.Tuple) else [h.type]) if h.type else ['*'])]
                            # a handler that neither re-raises nor leaves the success path
                            leaves = any(isinstance(x, (ast.Raise, ast.Return, ast.Continue, ast.Break)) for x in walk_own(h))
                            sets_bad = any(isinstance(x, ast.Assign) and norm(x.targets[0]) in ('is_good',) and norm(x.value) == 'False' for x in walk_own(h))
                            if not leaves and not sets_bad and any(nm in ('*', 'BaseException', 'Exception', 'CancelledError', 'TimeoutError', 'TaskTimeout') for nm in names):
                                pass      # decided by the success flag below
            awaited = isinstance(getattr(c, '_parent', None), ast.Await)
            ctx.check(awaited and not bad, 'C19.VERIFIED', ctx.key(f, st, 'verification runs to completion'),
                      'the verification is awaited with nothing around it that swallows a timeout or cancellation',
                      f'the verification runs under {bad or "no await"}: when it is cut short control falls through to the code that '
                      'records the peer as good', loc=ctx.loc(f, c))
    return n


def peer_mutable_attrs(ctx):
    '''Attributes assigned on Peer objects outside Peer.__init__ (anywhere in the tree).'''
    out = {}
    for f in ctx.repo.funcs.values():
        if f.qual == 'Peer.__init__':
            continue
        for s in f.own_nodes():
            tg = []
            if isinstance(s, ast.Assign):
                tg = s.targets
            elif isinstance(s, ast.AugAssign):
                tg = [s.target]
            for t in tg:
                if isinstance(t, ast.Attribute):
                    bt = ctx.res.type_of(t.value, f)
                    if bt == ('inst', 'Peer'):
                        out.setdefault(t.attr, []).append(f'{ctx.loc(f, s)} {f.qual}')
    return out


def rule_cached(ctx):
    mut = peer_mutable_attrs(ctx)
    # `features` is replaced only together with all cached FEATURES values (update_features_from_peer)
    mut.pop('features', None)
    if not {'ip_addr', 'last_good', 'bad'} <= set(mut):
        raise AnalysisError(f'mutable Peer attributes not recognised: {sorted(mut)}')
    n = 0
    rel = ctx.repo.path('peer')
    methods = ctx.repo.methods_of('Peer')
    for f in ctx.repo.funcs.values():
        if f.unit.relpath != rel or f.cls != 'Peer' or f.parent is not None:
            continue
        if not any(d.split('.')[-1] == 'cachedproperty' for d in f.decorators):
            continue
        n += 1
        # attributes read, following calls to other Peer methods / properties one level deep
        reads = set()
        todo, seen = [f], set()
        while todo:
            g = todo.pop()
            if g.key in seen:
                continue
            seen.add(g.key)
            for x in g.own_nodes():
                if isinstance(x, ast.Attribute) and isinstance(x.value, ast.Name) and x.value.id == 'self' and isinstance(x.ctx, ast.Load):
                    reads.add(x.attr)
                    m = methods.get(x.attr)
                    if m is not None and m.key != g.key:
                        todo.append(m)
        bad = sorted(reads & set(mut))
        ctx.check(not bad, 'C19.CACHED', ctx.key(f, None, 'cachedproperty is pure'),
                  'the cached value depends only on attributes fixed at construction',
                  f'cachedproperty {f.name} reads {bad}, re-assigned after construction (e.g. {mut[bad[0]][0] if bad else ""}): the first value '
                  'computed is served for ever (peers are bucketed / filtered by stale data)', loc=ctx.loc(f, f.node))
    return n


def rule_features(ctx):
    f = ctx.func('peer', 'Peer.peers_from_features')
    n = 0
    # per return path, locals expressed in the inputs: peers are built only on a path that established
    # isinstance(features, dict) and isinstance(features.get('hosts'), dict), one per *string* host; other paths return []
    from .. import paths as P
    rps = P.returns(f.node)
    ok = bool(rps)
    built = 0
    for p_ in rps:
        comps = [x for x in ast.walk(p_.value) if isinstance(x, ast.ListComp)]
        ctors = [x for x in ast.walk(p_.value) if isinstance(x, ast.Call) and norm(x.func) in ('Peer', 'cls')]
        if not comps and not ctors:
            ok = ok and norm(p_.value) == '[]'
            continue
        built += 1
        if len(comps) != 1 or p_.value is not comps[0]:
            ok = False
            continue
        c = comps[0]
        g = c.generators[0]
        held = {norm(t) for t, pol, _n in p_.conds if pol and isinstance(t, ast.expr)}
        ok = ok and len(c.generators) == 1 and f'isinstance({f.params[1]}, dict)' in held and f'isinstance({norm(g.iter)}, dict)' in held \
            and norm(g.iter) == f"{f.params[1]}.get('hosts')" and [norm(x) for x in g.ifs] == [f'isinstance({norm(g.target)}, str)'] \
            and isinstance(c.elt, ast.Call) and c.elt.args and norm(c.elt.args[0]) == norm(g.target)
    ok = ok and built >= 1
    ctx.check(ok, 'C19.FEATURES', ctx.key(f, None, 'type checks'),
              'peers are built only for string hosts of a dict `hosts` inside a dict of features',
              'peers can be built from announced features without the dict / dict / str checks', loc=ctx.loc(f, f.node))
    n += 1
    g = ctx.func('peer', 'Peer._string')
    rets = [r for r in g.own_nodes() if isinstance(r, ast.Return)]
    oks = len(rets) == 1 and isinstance(rets[0].value, ast.IfExp) and isinstance(rets[0].value.body, ast.Name) and \
        norm(rets[0].value.test) == f'isinstance({rets[0].value.body.id}, str)' and norm(rets[0].value.orelse) == 'None'
    ctx.check(oks, 'C19.FEATURES', ctx.key(g, None, 'strings only'), '_string returns a str or None', '_string can return a non-string',
              loc=ctx.loc(g, g.node))
    n += 1
    # bad is only ever set to True outside __init__, and read only by the filter / status code
    sets = []
    for h in ctx.repo.funcs.values():
        for s in h.own_nodes():
            if isinstance(s, ast.Assign):
                for t in s.targets:
                    if isinstance(t, ast.Attribute) and t.attr == 'bad' and ctx.res.type_of(t.value, h) == ('inst', 'Peer') and h.qual != 'Peer.__init__':
                        sets.append((h, s))
    okb = bool(sets) and all(norm(s.value) == 'True' for _h, s in sets)
    ctx.check(okb, 'C19.FEATURES', 'electrumx/lib/peer.py :: Peer :: bad only set', 'a peer marked bad is never un-marked',
              f'`bad` is cleared at {[ctx.loc(h, s) for h, s in sets if norm(s.value) != "True"]}')
    return n + 1


def rule_task_results(ctx):
    '''_verify_peer runs its three checks as tasks of one TaskGroup.  aiorpcX's TaskGroup does not re-raise a task's exception
    on exit: the BadPeerError of a failed check reaches _should_drop_peer only if the results are collected
    (`async for task in g: task.result()`).  Without that the peer is recorded as good and advertised.'''
    f = ctx.func('peers', 'PeerManager._verify_peer')
    groups = [w for w in f.own_nodes() if isinstance(w, ast.AsyncWith) and any(
        isinstance(i.context_expr, ast.Call) and norm(i.context_expr.func).endswith('TaskGroup') and i.optional_vars is not None for i in w.items)]
    n = 0
    for w in groups:
        gv = norm([i.optional_vars for i in w.items if i.optional_vars is not None][0])
        spawns = [c for c in walk_own(w) if isinstance(c, ast.Call) and norm(c.func) == f'{gv}.spawn']
        if not spawns:
            continue
        n += 1
        collects = [lp for lp in walk_own(w) if isinstance(lp, ast.AsyncFor) and norm(lp.iter) == gv and any(
            isinstance(c, ast.Call) and isinstance(c.func, ast.Attribute) and c.func.attr == 'result' and norm(c.func.value) == norm(lp.target)
            for c in walk_own(lp))]
        ctx.check(bool(collects), 'C19.TASKRESULT', ctx.key(f, w, 'check results collected'),
                  f'the results of the {len(spawns)} verification tasks are collected inside the group, so a failed check raises',
                  f'the {len(spawns)} verification tasks are spawned but their results are never collected: a BadPeerError raised by the '
                  'header / features check is lost, the peer gets last_good = now, is never marked bad and is advertised',
                  loc=ctx.loc(f, w))
    return n
