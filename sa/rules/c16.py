'''C16 - malformed client requests are refused cleanly and change nothing.

Decided: TABLE (every entry of the request-handler table, both protocol versions, resolves to a method that is analysed),
ESC (for each handler with all parameters at TOP-JSON - including Infinity / NaN / 1e999 / huge integers / nested
containers - the exception classes that can escape are within the set aiorpcX turns into protocol replies; decided by
abstract interpretation of the session layer with a frozen effect table; the DB / mempool / merkle / daemon layers are
boundaries with declared raise sets), HASHLEN (a script hash / tx hash is accepted only if the *decoded* value is 32
bytes), NOCHANGE (subscription state is written only after every call that can refuse the request).
Not decided: "never affects what other clients are told".
'''
import ast
import glob
import os

from ..model import AnalysisError, norm, walk_own, const_value
from .. import q, pathrules as pr, dataflow as df
from ..esc import Interp, Obj, AV, K_ALL

EXPLANATION = ('static necessary conditions of C16: exhaustive handler table, exception-escape analysis of every handler on TOP-JSON '
               'arguments by abstract interpretation (JSON shape sets with guard refinement, effect table, interprocedural over the '
               'session layer), decoded-length validation of hashes, state written only after validation. '
               'Does NOT decide that other clients are unaffected.')
ASSUMPTIONS = ['the exception-effect table of DESIGN.md appendix A (confirmed on CPython 3.12)',
               'boundary raise sets of sa/esc.py BOUNDARY (DB / mempool / merkle / daemon layers are not interpreted; '
               'DB.header_branch_and_root raises nothing under the range guard decided by C11.RANGE)',
               'exceptions turned into protocol replies are those handled before `except Exception` in aiorpcx RPCSession._throttled_request']


def allowed_escapes():
    paths = glob.glob('/venv/lib/python3*/site-packages/aiorpcx/session.py')
    if not paths:
        raise AnalysisError('aiorpcx/session.py not found: cannot derive the set of exceptions that become protocol replies')
    tree = ast.parse(open(paths[0]).read())
    out = set()
    for n in ast.walk(tree):
        if isinstance(n, ast.AsyncFunctionDef) and n.name == '_throttled_request':
            for t in [x for x in ast.walk(n) if isinstance(x, ast.Try)]:
                for h in t.handlers:
                    names = [norm(x) for x in (h.type.elts if isinstance(h.type, ast.Tuple) else [h.type])] if h.type else []
                    if 'Exception' in names:
                        continue
                    out |= set(names)
    if not {'RPCError', 'ReplyAndDisconnect'} <= out:
        raise AnalysisError(f'allowed escape set not recognised in aiorpcx: {out}')
    return out | {'CancelledError'}


def handler_table(ctx):
    f = ctx.func('sess', 'ElectrumX.set_request_handlers')
    entries = {}
    for s in f.own_nodes():
        if isinstance(s, ast.Assign) and isinstance(s.value, ast.Dict):
            for k, v in zip(s.value.keys, s.value.values):
                entries[const_value(k)] = v
        if isinstance(s, ast.Assign) and isinstance(s.targets[0], ast.Subscript) and isinstance(const_value(s.targets[0].slice), str):
            entries[const_value(s.targets[0].slice)] = s.value
    out = {}
    for name, v in entries.items():
        m = ctx.res.resolve_ref(v, f)
        out[name] = m
    return f, out


def run(ctx):
    ctx.rule('C16.TABLE', lambda: rule_table(ctx), 24)
    ctx.rule('C16.ESC', lambda: rule_esc(ctx), 24)
    ctx.rule('C16.HASHLEN', lambda: rule_hashlen(ctx), 2)
    ctx.rule('C16.NOCHANGE', lambda: rule_nochange(ctx), 3)
    # arguments that pass validation must still be inside the range the proof code can serve
    from . import c11 as _c11
    ctx.rule('C16.RANGE', lambda: _c11.rule_range(ctx), 4)
    from . import c19 as _c19p
    ctx.rule('C16.PORT', lambda: _c19p.rule_port(ctx), 2)
    from . import c10 as _c10b, c17 as _c17b
    ctx.rule('C16.BYHEIGHT', lambda: _c10b.rule_byheight(ctx, 'C16.BYHEIGHT'), 2)
    ctx.rule('C16.CLIP', lambda: _c17b.rule_clip(ctx), 5)
    from .unbound import rule_unbound
    ctx.rule('C16.UNBOUND', lambda: rule_unbound(ctx, 'C16.UNBOUND', ('sess', 'util')), 50)


def rule_table(ctx):
    f, table = handler_table(ctx)
    n = 0
    for name, m in sorted(table.items()):
        n += 1
        ctx.check(m is not None and m.is_async, 'C16.TABLE', ctx.key(f, None, name),
                  f'{name} -> {m.qual if m else "?"}', f'handler of {name} does not resolve to a coroutine method', loc=ctx.loc(f, f.node))
    return n


def rule_esc(ctx):
    allowed = allowed_escapes()
    f, table = handler_table(ctx)
    interp = Interp(ctx)
    n = 0
    seen = set()
    for name, m in sorted(table.items()):
        if m is None:
            continue
        n += 1
        escs = interp.run_entry(m, bind_self=Obj('ElectrumX'))
        bad = [e for e in escs if e.cls.split('.')[-1] not in allowed]
        if not bad:
            ctx.ok('C16.ESC', ctx.key(m, None, 'escape set'),
                   f'{name}: only {sorted({e.cls for e in escs}) or "nothing"} can escape on arbitrary JSON arguments', ctx.loc(m, m.node))
            continue
        # one obligation per raising construct (shared helpers are reported once)
        for e in bad:
            k = ('C16.ESC', e.func.key, norm(q.stmt(e.node))[:120] if isinstance(e.node, ast.AST) and q.parent_stmt(e.node) is not None else e.note, e.cls)
            if k in seen:
                continue
            seen.add(k)
            st = q.parent_stmt(e.node) if isinstance(e.node, ast.AST) else None
            ctx.bad('C16.ESC', ctx.key(e.func, st, e.cls),
                    f'{e.cls} can escape {name} (and possibly other handlers) as an internal error: {e.note}',
                    witness={'handler': name, 'entry': m.key, 'raised_at': e.text()}, loc=ctx.loc(e.func, e.node))
    ctx.note(f'C16.ESC: {len(interp.funcs_seen)} functions interpreted, {interp.ops} abstract operations, allowed escapes {sorted(allowed)}')
    if interp.unmodelled:
        ctx.note('C16.ESC unmodelled sinks (client data passed to callees outside the model, treated as safe): ' + '; '.join(sorted(interp.unmodelled)[:12]))
    # LocalRPC handlers are operator-only and out of the property's scope (clients of the Electrum protocol)
    return n


def rule_hashlen(ctx):
    n = 0
    for name in ('scripthash_to_hashX', 'assert_tx_hash'):
        f = ctx.func('sess', name)
        # per return path, locals expressed in the input: a value is returned only on a path that decided
        # len(hex_str_to_hash(<argument>)) == 32, and the value is made of those decoded bytes
        from .. import paths as P
        dtxt = f'hex_str_to_hash({f.params[0]})'
        rps = [p_ for p_ in P.returns(f.node) if not (isinstance(p_.value, ast.Constant) and p_.value.value is None)]
        ok, why = bool(rps), 'no value is returned'
        for p_ in rps:
            tested = P.decided(ctx, f, p_, f'len({dtxt}) == 32')
            uses = dtxt in norm(p_.value)
            if tested is not True or not uses:
                ok = False
                why = f'returns `{norm(p_.value)}` under {p_.cond_texts()}'
        ctx.check(ok, 'C16.HASHLEN', ctx.key(f, None, 'decoded length'),
                  'the value is accepted only if the decoded bytes are exactly 32 long',
                  f'{name} does not test the length of the *decoded* bytes ({why}): hex text with embedded whitespace decodes to a shorter '
                  'value that is accepted as a hash', loc=ctx.loc(f, f.node))
        n += 1
    return n


def rule_nochange(ctx):
    '''Per-session subscription state is written only after every call that can refuse the request.'''
    rel = ctx.repo.path('sess')
    n = 0
    _f, table = handler_table(ctx)
    interp = Interp(ctx)
    handlers = {m.key for m in table.values() if m is not None}
    state = ('self.hashX_subs', 'self.mempool_statuses')
    for f in ctx.repo.funcs.values():
        if f.unit.relpath != rel or f.cls != 'ElectrumX' or f.parent is not None:
            continue
        if f.name in ('__init__', 'unsubscribe_hashX', 'address_status'):
            continue
        cfg = None
        for s in f.own_nodes():
            if isinstance(s, ast.Assign) and isinstance(s.targets[0], ast.Subscript) and ctx.res.canon(s.targets[0].value, f) in state:
                cfg = cfg or ctx.cfg(f)
                n += 1
                # every awaited repo call in the function that can raise RPCError must dominate the write
                late = []
                for c in q.own_calls(f):
                    callee = ctx.res.resolve_ref(c.func, f)
                    if callee is None or q.stmt(c) is s:
                        continue
                    if cfg.find_path([cfg.node(s)], {cfg.node(q.stmt(c))}) is not None and callee.name in ('address_status', 'limited_history') :
                        late.append(norm(c))
                ctx.check(not late, 'C16.NOCHANGE', ctx.key(f, s),
                          'the subscription is recorded only after the calls that can refuse the request',
                          f'subscription state is written before {late} which can still refuse the request: a refused request leaves a subscription behind',
                          loc=ctx.loc(f, s))
    # address_status writes mempool_statuses only after the history was obtained
    a = ctx.func('sess', 'ElectrumX.address_status')
    acfg = ctx.cfg(a)
    lh = [c for c in q.own_calls(a) if q.callee_name(ctx, a, c) == 'self.session_mgr.limited_history']
    ws = [s for s in a.own_nodes() if (isinstance(s, ast.Assign) and isinstance(s.targets[0], ast.Subscript) and ctx.res.canon(s.targets[0].value, a) == 'self.mempool_statuses')
          or (isinstance(s, ast.Expr) and isinstance(s.value, ast.Call) and q.callee_name(ctx, a, s.value) == 'self.mempool_statuses.pop')]
    ok = len(lh) == 1 and bool(ws) and all(acfg.dominates(acfg.node(q.stmt(lh[0])), acfg.node(w)) for w in ws)
    ctx.check(ok, 'C16.NOCHANGE', ctx.key(a, None, 'status recorded after the history'),
              'the mempool status of a script hash is recorded only after its (possibly refused) history was obtained',
              'mempool_statuses is written before the history read that can refuse the request', loc=ctx.loc(a, a.node))
    n += 1
    # header subscription flag: set by a handler without parameters (nothing to refuse)
    hs = ctx.func('sess', 'ElectrumX.headers_subscribe')
    ctx.check(len(hs.params) == 1, 'C16.NOCHANGE', ctx.key(hs, None, 'no client arguments'), 'headers_subscribe takes no client arguments',
              'headers_subscribe takes client arguments but sets the flag unconditionally', loc=ctx.loc(hs, hs.node))
    return n + 1
