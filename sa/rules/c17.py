'''C17 - replies stay within the advertised size limits.

Decided: CLIP (the header count reaching the DB is min(count, MAX_CHUNK_SIZE); the reply's count is the number the DB
returned, its max the same constant; read_headers reads exactly the number of headers it reports), LIMIT (history limit
max_send // 99 passed to the DB; len >= limit converted to the error before the result is cached; the error is raised on
hit and miss paths alike; the DB generator stops after `limit` entries), UNSUB (a subscription whose status cannot be
computed is dropped; a subscribe records the subscription only after the status succeeded), STATUSSRC (sessions obtain
confirmed history only through the limit-enforcing wrapper).
Not decided: byte size of replies.
'''
import ast

from ..model import AnalysisError, norm, walk_own, const_value
from .. import q, pathrules as pr, dataflow as df

EXPLANATION = ('static necessary conditions of C17 on ElectrumX.block_headers, DB.read_headers, SessionManager.limited_history, '
               'History.get_txnums and the subscription paths: count clipping and reporting, history limit derivation, error-before-cache '
               'order, raise on every path, generator limit discipline, unsubscribe on error, who-may-call the unbounded DB reader. '
               'Does NOT decide byte sizes.')
ASSUMPTIONS = ['pylru cache get/set are synchronous']


def run(ctx):
    ctx.rule('C17.CLIP', lambda: rule_clip(ctx), 5)
    ctx.rule('C17.LIMIT', lambda: rule_limit(ctx), 6)
    ctx.rule('C17.UNSUB', lambda: rule_unsub(ctx), 3)
    ctx.rule('C17.STATUSSRC', lambda: rule_statussrc(ctx), 1)
    # a headers reply is as long as what LogicalFile.read hands back for the clipped count: a size of 0 must read nothing
    from . import c04 as _c04f
    ctx.rule('C17.LOGICALFILE', lambda: _c04f.rule_logical_file(ctx, 'C17'), 2)
    # 'consistently, also from cache and for subscriptions': the cache discipline and the subscribe snapshot (C10, C07)
    from . import c10 as _c10, c07 as _c07
    from .fresh import Fresh, rule_epoch_bumped, rule_fill
    got = ctx.rule('C17.INVALIDATE', lambda: _c10.rule_invalidate(ctx, 'C17.INVALIDATE'))
    if isinstance(got, tuple):
        _n, f_, cfg_, _ln, spawns_ = got
        ctx.rule('C17.EPOCH', lambda: rule_epoch_bumped(ctx, f_, 'self._touched_count', 'C17.EPOCH',
                                                        must_precede=[cfg_.node(q.stmt(s_)) for s_ in spawns_] + [cfg_.exit]), 1)
    fr = Fresh(ctx, _c10.EPOCHS)
    ctx.rule('C17.FILL', lambda: rule_fill(ctx, fr, ctx.func('sess', 'SessionManager.limited_history'), 'self._history_cache', 'C17.FILL'), 1)
    ctx.rule('C17.SUBSCRIBE', lambda: _c07.rule_subscribe(ctx) + _c07.rule_status(ctx), 5)


def rule_clip(ctx):
    f = ctx.func('sess', 'ElectrumX.block_headers')
    cfg = ctx.cfg(f)
    n = 0
    reads = [c for c in q.own_calls(f) if q.callee_name(ctx, f, c) == 'self.db.read_headers']
    if len(reads) != 1:
        raise AnalysisError(f'{f.key}: read_headers call not found')
    rd = reads[0]
    cnt = rd.args[1]
    ok, why = False, f'count argument `{norm(cnt)}`'

    def is_clip(e):
        if isinstance(e, ast.Call) and norm(e.func) == 'min' and len(e.args) == 2:
            names = {norm(a) for a in e.args}
            mx = [a for a in e.args if ctx.res.canon(a, f) == 'self.MAX_CHUNK_SIZE' or
                  (isinstance(a, ast.Name) and any(ctx.res.canon(s.value, f) == 'self.MAX_CHUNK_SIZE' for s in q.assigns(ctx, f, a.id)))]
            return bool(mx)
        return False
    if is_clip(cnt):
        ok = True
    elif isinstance(cnt, ast.Name):
        d = df.last_def_before(f, cnt.id, rd)
        ok = d is not None and is_clip(d[1])
        why = f'{cnt.id} last defined by `{norm(d[0]) if d else "?"}`'
    ctx.check(ok, 'C17.CLIP', ctx.key(f, q.stmt(rd), 'count clipped'),
              'the count handed to the DB is min(requested, MAX_CHUNK_SIZE)',
              'the count handed to the DB is not clipped to MAX_CHUNK_SIZE (' + why + '): more headers than advertised are returned',
              loc=ctx.loc(f, rd))
    n += 1
    st = q.stmt(rd)
    okr = isinstance(st, ast.Assign) and isinstance(st.targets[0], ast.Tuple) and len(st.targets[0].elts) == 2
    res = None
    if okr:
        hv, cv = [norm(e) for e in st.targets[0].elts]
        dicts = [s for s in f.own_nodes() if isinstance(s, ast.Assign) and isinstance(s.value, ast.Dict) and s.lineno > st.lineno]
        if len(dicts) == 1:
            m = {const_value(k): v for k, v in zip(dicts[0].value.keys, dicts[0].value.values)}
            mx_ok = 'max' in m and (ctx.res.canon(m['max'], f) == 'self.MAX_CHUNK_SIZE' or (
                isinstance(m['max'], ast.Name) and any(ctx.res.canon(s.value, f) == 'self.MAX_CHUNK_SIZE' for s in q.assigns(ctx, f, m['max'].id))))
            okr = norm(m.get('count')) == cv and norm(m.get('hex')) == f'{hv}.hex()' and mx_ok
            # count not rebound between the read and the reply
            okr = okr and not [s for s in q.assigns(ctx, f, cv) if s.lineno > st.lineno]
        else:
            okr = False
    ctx.check(okr, 'C17.CLIP', ctx.key(f, None, 'reply reports what was returned'),
              "the reply's count is the number of headers the DB returned, hex those headers, max the advertised constant",
              "the reply's count / hex / max are not (returned count, returned headers, MAX_CHUNK_SIZE)", loc=ctx.loc(f, f.node))
    n += 1
    # validators first
    vals = [c for c in q.own_calls(f) if norm(c.func) == 'non_negative_integer']
    okv = len(vals) == 3 and all(cfg.dominates(cfg.node(q.stmt(v)), cfg.node(st)) for v in vals)
    ctx.check(okv, 'C17.CLIP', ctx.key(f, None, 'arguments validated'), 'start, count and cp_height are validated before use',
              'start / count / cp_height are not all validated before the read', loc=ctx.loc(f, f.node))
    n += 1
    # DB side
    g = ctx.func('db', 'DB.read_headers')
    inners = [x for x in g.nested.values() if any(isinstance(c, ast.Call) and q.callee_name(ctx, x, c) == 'self.headers_file.read' for c in x.own_nodes())]
    if len(inners) != 1:
        raise AnalysisError(f'{g.key}: nested reader not found')
    inner = inners[0]
    # per return path of the reader, locals expressed in its inputs: either (b'', 0), or
    # (headers_file.read(start * 80, N * 80), N) with N = max(0, min(count, state.height + 1 - start))
    from .. import paths as P
    want = f'max(0, min({g.params[2]}, self.state.height + 1 - {g.params[1]}))'
    ok1 = ok2 = True
    n_read = 0
    for pth in P.returns(inner.node):
        v = pth.value
        if not (isinstance(v, ast.Tuple) and len(v.elts) == 2):
            ok1 = ok2 = False
            break
        a_, b_ = v.elts
        if isinstance(a_, ast.Call) and norm(a_.func) == 'self.headers_file.read' and len(a_.args) == 2:
            n_read += 1
            off, size = a_.args
            ok1 = ok1 and norm(b_) == want
            ok2 = ok2 and norm(size) in (f'{norm(b_)} * 80', f'80 * {norm(b_)}') and norm(off) in (f'{g.params[1]} * 80', f'80 * {g.params[1]}')
        else:
            ok2 = ok2 and const_value(a_) == b'' and const_value(b_) == 0
            # the empty answer is given only when nothing is available
            ok1 = ok1 and P.truthy(pth, want) is False
    ok1 = ok1 and n_read >= 1
    ok2 = ok2 and n_read >= 1
    ctx.check(ok1, 'C17.CLIP', ctx.key(g, None, 'available count'),
              'the number of headers read is min(count, headers up to the flushed height), never negative',
              'the number of headers read is not max(0, min(count, state.height + 1 - start))', loc=ctx.loc(g, g.node))
    n += 1
    ctx.check(ok2, 'C17.CLIP', ctx.key(g, None, 'reads what it reports'),
              'exactly count-reported * 80 bytes are read at start * 80',
              'the bytes read do not correspond to the count reported (size must be reported_count * 80 at start * 80): '
              'stale headers beyond the flushed height can be returned', loc=ctx.loc(g, g.node))
    return n + 1


def rule_limit(ctx):
    f = ctx.func('sess', 'SessionManager.limited_history')
    cfg = ctx.cfg(f)
    n = 0
    ld = [s for s in f.own_nodes() if isinstance(s, ast.Assign) and norm(s.value) == 'self.env.max_send // 99']
    ok = len(ld) == 1 and isinstance(ld[0].targets[0], ast.Name)
    ctx.check(ok, 'C17.LIMIT', ctx.key(f, None, 'limit derivation'), 'the history limit is max_send // 99',
              'the history limit is not max_send // 99', loc=ctx.loc(f, f.node))
    n += 1
    if not ok:
        return n
    lv = ld[0].targets[0].id
    reads = [c for c in q.own_calls(f) if q.callee_name(ctx, f, c) == 'self.db.limited_history']
    okr = len(reads) >= 1 and all(any(kw.arg == 'limit' and norm(kw.value) == lv for kw in c.keywords) for c in reads)
    ctx.check(okr, 'C17.LIMIT', ctx.key(f, None, 'limit passed to the DB'), 'the DB read is bounded by the same limit',
              'the DB read is not bounded by the derived limit', loc=ctx.loc(f, f.node))
    n += 1
    # the rest is decided per path through the function, locals expressed in what the path read:
    #   miss (KeyError) paths: X = what the DB read loop left; len(X) >= limit decides; the cache receives the RPCError when it
    #   is too large and X otherwise; too large => the error is raised, otherwise (X, cost) is returned
    #   hit paths: R = the cached entry; isinstance(R, Exception) decides between `raise R` and `return (R, cost)`
    from .. import paths as P
    LIM = norm(ld[0].value)

    def too_large(pth):
        for t, pol, _n in pth.conds:
            if isinstance(t, ast.Compare) and len(t.ops) == 1:
                l_, r_, op = norm(t.left), norm(t.comparators[0]), type(t.ops[0])
                for a_, b_, o_, val in ((l_, r_, ast.GtE, True), (r_, l_, ast.LtE, True), (l_, r_, ast.Lt, False), (r_, l_, ast.Gt, False)):
                    if op is o_ and a_.startswith('len(') and b_ == LIM:
                        return a_[4:-1], pol == val
        return None

    def is_error(e):
        return isinstance(e, ast.Call) and norm(e.func) == 'RPCError' and any(const_value(a_) == 'history too large' for a_ in e.args)
    okc = oks = okx = True
    miss = hit = 0
    for pth in P.paths(f.node.body):
        hs = [nd for _t, _pol, nd in pth.conds if isinstance(nd, ast.ExceptHandler)]
        stores_ = [(st_, env_) for st_, env_ in pth.events if isinstance(st_, ast.Assign) and isinstance(st_.targets[0], ast.Subscript)
                   and ctx.res.canon(st_.targets[0].value, f) == 'self._history_cache']
        if hs:
            miss += 1
            tl = too_large(pth)
            if tl is None or len(stores_) != 1:
                okc = okc and tl is not None
                oks = oks and len(stores_) == 1
                continue
            x, big = tl
            v = P.subst(stores_[0][0].value, stores_[0][1])
            # the value written is the one current *after* the conversion: substitute with the environment at the store
            oks = oks and (is_error(v) if big else norm(v) == x)
            # what the path decided about isinstance(<current result>, Exception)
            ie = next((pol for t, pol, _n in pth.conds if isinstance(t, ast.Call) and norm(t.func) == 'isinstance' and len(t.args) == 2
                       and norm(t.args[1]) == 'Exception' and (is_error(t.args[0]) if big else norm(t.args[0]) == x)), None)
            if big:
                if ie is False:
                    continue          # infeasible: the RPCError just built is an Exception
                okx = okx and ie is True and pth.exit == 'raise' and pth.value is not None and is_error(pth.value)
            elif ie is True:
                okx = okx and pth.exit == 'raise'
            else:
                okx = okx and pth.exit == 'return' and isinstance(pth.value, ast.Tuple) and norm(pth.value.elts[0]) == x
        else:
            hit += 1
            r_ = next((norm(t.args[0]) for t, _pol, _n in pth.conds if isinstance(t, ast.Call) and norm(t.func) == 'isinstance'
                       and len(t.args) == 2 and norm(t.args[1]) == 'Exception'), None)
            isexc = P.truthy(pth, f'isinstance({r_}, Exception)') if r_ else None
            cached = r_ is not None and ctx.res.canon(ast.parse(r_, mode='eval').body.value, f) == 'self._history_cache' \
                if r_ and isinstance(ast.parse(r_, mode='eval').body, ast.Subscript) else False
            if isexc is None or not cached or stores_:
                okx = False
            elif isexc:
                okx = okx and pth.exit == 'raise' and norm(pth.value) == r_
            else:
                okx = okx and pth.exit == 'return' and isinstance(pth.value, ast.Tuple) and norm(pth.value.elts[0]) == r_
    okc = okc and miss >= 2
    oks = oks and miss >= 2
    okx = okx and hit >= 2 and miss >= 2
    ctx.check(okc, 'C17.LIMIT', ctx.key(f, None, 'too-large test'),
              'a history of length >= limit (non-strict, the same limit) becomes the "history too large" error',
              'the conversion to "history too large" is not under len(result) >= limit: a truncated history is served as complete',
              loc=ctx.loc(f, f.node))
    n += 1
    ctx.check(oks, 'C17.LIMIT', ctx.key(f, None, 'cached after conversion'),
              'the result is cached only after the too-large conversion, so the cache holds the error',
              'the result can be cached before the too-large conversion: later requests are served the truncated history from the cache',
              loc=ctx.loc(f, f.node))
    n += 1
    ctx.check(okx, 'C17.LIMIT', ctx.key(f, None, 'raised on every path'),
              'a cached or fresh error is raised on every path before anything is returned',
              'a path returns the result without the error test: the error is not raised consistently from the cache', loc=ctx.loc(f, f.node))
    n += 1
    return n + rule_generator_limit(ctx, 'C17.LIMIT')


def rule_generator_limit(ctx, rule):
    '''History.get_txnums stops after exactly `limit` entries, counted across rows.'''
    n = 0
    g = ctx.func('hist', 'History.get_txnums')
    gcfg = ctx.cfg(g)
    ys = [s for s in g.own_nodes() if isinstance(s, ast.Expr) and isinstance(s.value, ast.Yield)]
    decs = [s for s in g.own_nodes() if isinstance(s, ast.AugAssign) and isinstance(s.op, ast.Sub) and norm(s.target) == g.params[2] and const_value(s.value) == 1]
    stops = [s for s in g.own_nodes() if isinstance(s, ast.If) and norm(s.test) == f'{g.params[2]} == 0' and any(isinstance(x, ast.Return) for x in s.body)]
    okg = len(ys) == 1 and len(decs) == 1 and len(stops) == 1
    if okg:
        inner = [p for p, _f in q.enclosing_chain(ys[0], g.node) if isinstance(p, ast.For)]
        okg = bool(inner)
        if okg:
            lp = inner[0]
            o1, _ = pr.once_per_iteration(gcfg, lp, [gcfg.node(decs[0])])
            o2 = pr.path_avoiding(gcfg, pr.body_entries(gcfg, lp), [gcfg.node(ys[0])], {gcfg.node(stops[0])} | pr.outside_loop(gcfg, lp)) is None
            rl = [s for s in g.node.body if isinstance(s, ast.Assign) and norm(s.targets[0]) == g.params[2] and 'resolve_limit' in norm(s.value)]
            rebinds = [s for s in q.assigns(ctx, g, g.params[2]) if s not in decs and s not in rl]
            # order within one iteration: test, yield, then decrement (decrementing first stops one entry early)
            o3 = gcfg.find_path([gcfg.node(decs[0])], {gcfg.node(stops[0]), gcfg.node(ys[0])},
                                avoiding={gcfg.node(lp)} | pr.outside_loop(gcfg, lp)) is None
            okg = o1 and o2 and o3 and len(rl) == 1 and not rebinds
    ctx.check(okg, rule, ctx.key(g, None, 'generator stops at limit'),
              'the tx-number generator tests the remaining limit before each yield and decrements it once per yielded entry, across rows',
              'the tx-number generator does not stop after exactly `limit` entries across rows (limit applied per row or not at all)',
              loc=ctx.loc(g, g.node))
    return n + 1


def rule_unsub(ctx):
    f = ctx.func('sess', 'ElectrumX.subscription_address_status')
    n = 0
    # per return path: the normal path returns the awaited address_status(hashX); the RPCError path unsubscribes the script
    # hash and returns None (one return or two, a result variable or not)
    from .. import paths as P
    normal = handled = 0
    ok = True
    for pth in P.returns(f.node):
        hnd = [nd for _t, _pol, nd in pth.conds if isinstance(nd, ast.ExceptHandler)]
        unsub = [st_ for st_, _e in pth.events if isinstance(st_, (ast.Expr, ast.Assign)) for c in ast.walk(st_) if isinstance(c, ast.Call)
                 and q.callee_name(ctx, f, c) == 'self.unsubscribe_hashX' and c.args and norm(c.args[0]) == f.params[1]]
        if not hnd:
            normal += 1
            ok = ok and norm(pth.value) == f'await self.address_status({f.params[1]})' and not unsub
        else:
            handled += 1
            names = [norm(x).split('.')[-1] for h_ in hnd for x in ((h_.type.elts if isinstance(h_.type, ast.Tuple) else [h_.type]) if h_.type else [])]
            ok = ok and names == ['RPCError'] and len(unsub) == 1 and isinstance(pth.value, ast.Constant) and pth.value.value is None
    ok = ok and normal >= 1 and handled >= 1
    ctx.check(ok, 'C17.UNSUB', ctx.key(f, None, 'dropped on error'),
              'a subscription whose status raises RPCError is unsubscribed and reported as None',
              'a subscription whose status cannot be computed is not dropped (unsubscribe_hashX + return None under except RPCError)',
              loc=ctx.loc(f, f.node))
    n += 1
    u = ctx.func('sess', 'ElectrumX.unsubscribe_hashX')
    pops = sorted(ctx.res.canon(c.func.value, u) for c in q.own_calls(u) if isinstance(c.func, ast.Attribute) and c.func.attr == 'pop'
                  and norm(c.args[0]) == u.params[1])
    ctx.check(pops == ['self.hashX_subs', 'self.mempool_statuses'], 'C17.UNSUB', ctx.key(u, None, 'both maps'),
              'unsubscribing removes the script hash from the subscriptions and the mempool statuses',
              f'unsubscribing does not clear both maps ({pops})', loc=ctx.loc(u, u.node))
    n += 1
    from . import c07
    hs = c07.subscribe_site(ctx)
    cfg = ctx.cfg(hs)
    stores = [s for s in hs.own_nodes() if isinstance(s, ast.Assign) and isinstance(s.targets[0], ast.Subscript)
              and ctx.res.canon(s.targets[0].value, hs) == 'self.hashX_subs']
    calls = [c for c in q.own_calls(hs) if q.callee_name(ctx, hs, c) == 'self.address_status']
    ok = len(stores) == 1 and len(calls) == 1 and cfg.dominates(cfg.node(q.stmt(calls[0])), cfg.node(stores[0]))
    ctx.check(ok, 'C17.UNSUB', ctx.key(hs, stores[0] if stores else None, 'after the status'),
              'a subscribe records the subscription only after address_status returned',
              'a subscribe records the subscription before address_status ran: a refused subscribe stays subscribed', loc=ctx.loc(hs, hs.node))
    return n + 1


def rule_statussrc(ctx):
    target = ctx.func('db', 'DB.limited_history')
    allowed = {'SessionManager.limited_history', 'SessionManager.rpc_query'}
    callers = sorted({c[0].qual for c in ctx.cg.callers(target)})
    bad = [c for c in callers if c not in allowed]
    ctx.check(not bad and 'SessionManager.limited_history' in callers, 'C17.STATUSSRC',
              'electrumx/server/db.py :: DB.limited_history :: callers',
              'client-facing code reaches the unbounded DB history only through SessionManager.limited_history',
              f'DB.limited_history is called directly by {bad}: the history limit and error are bypassed')
    return 1
