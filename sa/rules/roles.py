'''Role finders: locate nested functions and local variables by what they do, not by what they are called
(so that renaming a local or a nested helper does not disturb the rules).'''
import ast

from ..model import AnalysisError, norm, walk_own
from .. import q


def all_nested(func):
    for g in func.nested.values():
        yield g
        yield from all_nested(g)


def nested_where(func, pred, what):
    got = [g for g in all_nested(func) if pred(g)]
    if len(got) != 1:
        raise AnalysisError(f'{func.key}: expected exactly one nested function that {what}, found {[g.qual for g in got]}')
    return got[0]


def has_store_iter(ctx, g, store):
    for c in g.own_nodes():
        if isinstance(c, ast.Call) and isinstance(c.func, ast.Attribute) and c.func.attr == 'iterator' and \
                ctx.res.type_of(c.func.value, g) == ('store', store):
            return True
    return False


def has_store_get(ctx, g, store):
    for c in g.own_nodes():
        if isinstance(c, ast.Call) and isinstance(c.func, ast.Attribute) and c.func.attr == 'get' and \
                ctx.res.type_of(c.func.value, g) == ('store', store):
            return True
    return False


def lookup_parts(ctx):
    '''DB.lookup_utxos: (outer, phase-1 row finder, phase-2 value reader, phase-1 wrapper, phase-2 wrapper).'''
    lu = ctx.func('db', 'DB.lookup_utxos')
    lh = nested_where(lu, lambda g: has_store_iter(ctx, g, 'UTXO'), 'iterates the UTXO store (phase one)')
    lo = nested_where(lu, lambda g: has_store_get(ctx, g, 'UTXO'), 'gets a UTXO row (phase two)')
    def wrapper(inner):
        # the function that applies `inner` to every element: normally its parent; when the row finder was lifted out of the
        # wrapper (a closure made a method and put back by the normaliser one level up), the sibling that calls it
        callers = [g for g in ctx.repo.funcs.values() if g.unit is lu.unit and g is not inner and (g is lu or _under(g, lu))
                   and any(isinstance(c.func, ast.Name) and c.func.id == inner.name for c in q.own_calls(g))]
        if inner.parent in callers or not callers:
            return inner.parent
        return callers[0]
    return lu, lh, lo, wrapper(lh), wrapper(lo)


def _under(g, top):
    p = g.parent
    while p is not None:
        if p is top:
            return True
        p = p.parent
    return False


def calls_func(ctx, g, target):
    return [c for c in q.own_calls(g) if ctx.res.resolve_ref(c.func, g) is not None and ctx.res.resolve_ref(c.func, g).key == target.key]


class AdvanceNames:
    '''Local variable roles inside BlockProcessor.advance_block.'''

    def __init__(self, ctx, f=None):
        self.ctx = ctx
        f = f or ctx.func('bp', 'BlockProcessor.advance_block')
        self.f = f

        def one(calls, what):
            if len(calls) != 1:
                raise AnalysisError(f'{f.key}: expected one call that {what}, found {len(calls)}')
            return calls[0]
        cn = lambda name: [c for c in q.own_calls(f) if q.callee_name(ctx, f, c) == name]
        ui = one(cn('self.undo_infos.append'), 'queues the undo info')
        a = ui.args[0]
        self.undo_list = norm(a.elts[0]) if isinstance(a, ast.Tuple) and a.elts else None
        self.undo_queue_call = ui
        au = one(cn('self.db.history.add_unflushed'), 'hands the per-tx hashX lists to the history')
        self.by_tx = norm(au.args[0])
        self.add_unflushed_call = au
        bt = one(cn(f'{self.by_tx}.append'), 'records the per-tx hashX list')
        self.per_tx = norm(bt.args[0])
        th = one(cn('self.tx_hashes.append'), 'queues the block tx hashes')
        j = th.args[0]
        self.block_hashes = norm(j.args[0]) if isinstance(j, ast.Call) and norm(j.func) == "b''.join" and j.args else None
        self.block_hashes_call = th
        tc = one(cn('self.db.tx_counts.append'), 'records the cumulative tx count')
        self.tx_num = norm(tc.args[0])
        self.tx_counts_call = tc
