'''C07 - subscribers converge on the true status and tip: no change is ever lost.

Decided: FLUSHNOTIFY (a height is announced only after its flush), RESET (touched sets are reset only after they
were handed over; the mempool set is retained on DBSyncError), INVALIDATE / EPOCH (shared with C10), SUBSCRIBE
(a subscription is registered only after its status was computed, with no unvalidated suspension between the
validated history read and the registration), FANOUT (every session is notified; every touched subscribed
script hash has its status recomputed and sent; on a height change every mempool status is re-examined; the
header result is refreshed before the fan-out), TOUCHED (advance and backup feed BlockProcessor.touched),
plus all C20 rules (no-drop join at agreed heights).
Not decided: convergence of last-held statuses at quiescence; the status string; the header notification after a
tip change that keeps the height.
'''
import ast

from ..model import AnalysisError, norm, walk_own
from .. import q, pathrules as pr, dataflow as df
from .fresh import Fresh
from . import c10, c20, c03

EXPLANATION = ('static necessary conditions of C07: flush-before-notify, hand-over/reset discipline of both touched sets, '
               'unconditional history invalidation with epoch, subscription registered after a validated status, complete session '
               'fan-out on all CFG paths, touched propagation from advance/backup, and the C20 join rules. Does NOT decide '
               'convergence of last-held statuses.')
ASSUMPTIONS = c10.ASSUMPTIONS + c20.ASSUMPTIONS


def rule_flushnotify(ctx):
    f = ctx.func('bp', 'BlockProcessor.on_caught_up')
    cfg = ctx.cfg(f)
    fl = ctx.func('bp', 'BlockProcessor.flush')
    flushes = [c for c in q.own_calls(f) if ctx.res.resolve_ref(c.func, f) is not None and ctx.res.resolve_ref(c.func, f).key == fl.key]
    obs = [c for c in q.own_calls(f) if q.callee_name(ctx, f, c) == 'self.notifications.on_block']
    if len(obs) != 1:
        raise AnalysisError(f'{f.key}: expected one notifications.on_block call')
    ob = obs[0]
    ok = bool(flushes) and all(norm(x.args[0]) == 'True' for x in flushes if x.args)
    p = pr.path_avoiding(cfg, [cfg.entry], [cfg.node(q.stmt(ob))], {cfg.node(q.stmt(x)) for x in flushes}) if flushes else [cfg.entry]
    ctx.check(ok and p is None, 'C07.FLUSHNOTIFY', ctx.key(f, q.stmt(ob), 'after the flush'),
              'the block report (touched, height) is made only after a full flush',
              'a height can be announced before its block is flushed and queryable', witness=cfg.describe_path(p) if p else None,
              loc=ctx.loc(f, ob))
    okargs = [norm(a) for a in ob.args] == ['self.touched', 'self.state.height'] and isinstance(getattr(ob, '_parent', None), ast.Await)
    ctx.check(okargs, 'C07.FLUSHNOTIFY', ctx.key(f, q.stmt(ob), 'arguments'),
              'the report carries the accumulated touched set and the flushed height',
              f'the report does not carry (self.touched, self.state.height): {norm(ob)}', loc=ctx.loc(f, ob))
    # reported exactly when caught up (clients exist)
    conds = pr.control_conditions(q.stmt(ob), f.node)
    okc = len(conds) == 1 and conds[0][1] and ctx.res.canon(conds[0][0], f) == 'self.caught_up'
    ctx.check(okc, 'C07.FLUSHNOTIFY', ctx.key(f, q.stmt(ob), 'whenever caught up'),
              'every caught-up pass reports', f'the report is made under {[norm(c[0]) for c in conds]}', loc=ctx.loc(f, ob))
    # reset after report
    resets = q.assigns(ctx, f, 'self.touched')
    okr = len(resets) == 1 and cfg.dominates(cfg.node(q.stmt(ob)), cfg.node(resets[0])) and norm(resets[0].value) == 'set()'
    ctx.check(okr, 'C07.RESET', ctx.key(f, None, 'block touched reset after report'),
              'the block touched set is replaced by a fresh set only after it was reported',
              'the block touched set is not reset exactly after being reported (lost or reported twice)', loc=ctx.loc(f, f.node))
    return 4


def rule_mempool_handover(ctx):
    f = ctx.func('mp', 'MemPool._refresh_hashes')
    cfg = ctx.cfg(f)
    oms = [c for c in q.own_calls(f) if q.callee_name(ctx, f, c) == 'self.api.on_mempool']
    pms = [c for c in q.own_calls(f) if q.callee_name(ctx, f, c) == 'self._process_mempool']
    if len(oms) != 1 or len(pms) != 1:
        raise AnalysisError(f'{f.key}: expected one _process_mempool and one api.on_mempool call')
    om, pm = oms[0], pms[0]
    tv = norm(om.args[0])
    n = 0
    loops = [s for s in f.node.body if isinstance(s, ast.While)]
    if len(loops) != 1:
        raise AnalysisError(f'{f.key}: refresh loop not found')
    loop = loops[0]
    resets = [s for s in q.assigns(ctx, f, tv) if q.in_body(s, loop.body)]
    inits = [s for s in q.assigns(ctx, f, tv) if not q.in_body(s, loop.body)]
    okr = len(resets) == 1 and len(inits) == 1 and norm(resets[0].value) == 'set()' and \
        pr.path_avoiding(cfg, pr.body_entries(cfg, loop), [cfg.node(resets[0])], {cfg.node(q.stmt(om))} | pr.outside_loop(cfg, loop)) is None
    ctx.check(okr, 'C07.RESET', ctx.key(f, None, 'mempool touched reset after hand-over'),
              'the mempool touched set is replaced only after on_mempool received it (kept across DBSyncError and retries)',
              'the mempool touched set can be reset without having been handed to on_mempool: touched script hashes are lost',
              loc=ctx.loc(f, f.node))
    n += 1
    # the same set accumulates through _process_mempool and is handed over with the listing height
    okp = len(pm.args) == 3 and norm(pm.args[1]) == tv and norm(pm.args[2]) == norm(om.args[1])
    hdefs = q.assigns(ctx, f, norm(om.args[1])) if isinstance(om.args[1], ast.Name) else []
    okh = len(hdefs) == 1 and q.callee_name(ctx, f, hdefs[0].value) == 'self.api.cached_height' if hdefs and isinstance(hdefs[0].value, ast.Call) else False
    ctx.check(okp and okh, 'C07.HANDOVER', ctx.key(f, q.stmt(om), 'set and height'),
              'on_mempool receives the set _process_mempool accumulated and the height the listing was taken at',
              f'on_mempool does not receive the accumulated set and listing height: {norm(om)} / {norm(pm)}', loc=ctx.loc(f, om))
    n += 1
    # handed over only when the refresh succeeded (else-branch of the try), every time it did
    trs = [s for s in walk_own(loop) if isinstance(s, ast.Try) and q.in_body(pm, s.body)]
    oke = len(trs) == 1 and q.in_body(om, trs[0].orelse)
    caught = []
    if trs:
        for h in trs[0].handlers:
            caught += [norm(x) for x in (h.type.elts if isinstance(h.type, ast.Tuple) else [h.type])] if h.type else ['*']
    ctx.check(oke and caught == ['DBSyncError'], 'C07.HANDOVER', ctx.key(f, q.stmt(om), 'after every successful refresh'),
              'every refresh that completes hands its touched set over; only DBSyncError defers it',
              f'hand-over is not exactly "after each refresh that did not raise DBSyncError" (handlers: {caught})', loc=ctx.loc(f, om))
    n += 1
    # the height is re-checked around the listing (listing and height belong together)
    from . import c09
    lists = [c for c in q.own_calls(f) if q.callee_name(ctx, f, c) == 'self.api.mempool_hashes']
    okc = len(hdefs) == 1 and len(lists) == 1 and c09.bracketed_listing(ctx, f, hdefs[0], lists[0], pm)
    ctx.check(okc, 'C07.HANDOVER', ctx.key(f, None, 'height stable across the listing'),
              'a listing is used only if the daemon height was the same before and after it',
              'the mempool listing is not bracketed by an unchanged daemon height', loc=ctx.loc(f, f.node))
    return n + 1


def subscribe_site(ctx):
    """the method that records a script-hash subscription: hashX_subscribe, or - when that one-caller helper was merged into
    its caller - the one ElectrumX method that stores into self.hashX_subs"""
    f = ctx.func('sess', 'ElectrumX.hashX_subscribe', required=False)
    if f is not None:
        return f
    rel = ctx.repo.path('sess')
    cands = [g for g in ctx.repo.funcs.values() if g.unit.relpath == rel and g.cls == 'ElectrumX'
             and any(isinstance(s, ast.Assign) and isinstance(s.targets[0], ast.Subscript) and ctx.res.canon(s.targets[0].value, g) == 'self.hashX_subs'
                     for s in g.own_nodes())]
    if len(cands) != 1:
        raise AnalysisError('anchor missing: function electrumx/server/session.py::ElectrumX.hashX_subscribe (and no single method records '
                            'subscriptions in its place)')
    ctx.consulted.add(rel)
    return cands[0]


def rule_subscribe(ctx):
    fr = Fresh(ctx, c10.EPOCHS)
    f = subscribe_site(ctx)
    cfg = ctx.cfg(f)
    stores = [s for s in f.own_nodes() if isinstance(s, ast.Assign) and isinstance(s.targets[0], ast.Subscript)
              and ctx.res.canon(s.targets[0].value, f) == 'self.hashX_subs']
    ast_calls = [c for c in q.own_calls(f) if ctx.res.resolve_ref(c.func, f) is not None and
                 ctx.res.resolve_ref(c.func, f).name == 'address_status']
    if len(stores) != 1 or len(ast_calls) != 1:
        raise AnalysisError(f'{f.key}: expected one registration and one address_status call')
    s, c = stores[0], ast_calls[0]
    dom = cfg.dominates(cfg.node(q.stmt(c)), cfg.node(s))
    ctx.check(dom, 'C07.SUBSCRIBE', ctx.key(f, s, 'after the status'),
              'the subscription is recorded only after its status was computed successfully',
              'the subscription is recorded before the status is computed: a refused subscribe (history too large) leaves a live '
              'subscription, and the reply is not the acknowledged status', loc=ctx.loc(f, s))
    bad = fr.unvalidated_before(f, s)
    ctx.check(not bad, 'C07.SUBSCRIBE', ctx.key(f, s, 'atomic with the status snapshot'),
              'no unvalidated suspension separates the status snapshot from the registration',
              'a block can be flushed and notified between the history read behind the status and the registration: the client holds a '
              'stale status and is never notified (' + '; '.join(f'{cfg.label(x)}: {r}' for x, r in bad[:2]) + ')', loc=ctx.loc(f, s))
    rets = [r for r in f.own_nodes() if isinstance(r, ast.Return)]
    okr = len(rets) == 1 and isinstance(q.stmt(c), ast.Assign) and norm(rets[0].value) == norm(q.stmt(c).targets[0])
    ctx.check(okr, 'C07.SUBSCRIBE', ctx.key(f, None, 'reply is that status'),
              'the reply is the status that was computed', 'the reply is not the computed status', loc=ctx.loc(f, f.node))
    return 3


def rule_status(ctx):
    '''address_status: (a) the mempool part is the last thing read - no suspension separates it from the return, because
    the freshness loop of the history read validates the history only; (b) the script hash is tracked in
    mempool_statuses exactly when its mempool part is non-empty (height changes re-examine the tracked ones only).'''
    from ..suspend import Suspension
    sus = Suspension(ctx)
    f = ctx.func('sess', 'ElectrumX.address_status')
    cfg = ctx.cfg(f)
    mp_cls = 'MemPool'
    reads = []
    for c in q.own_calls(f):
        t = ctx.res.resolve_ref(c.func, f)
        if t is not None and t.cls == mp_cls:
            reads.append(c)
    if len(reads) != 1 or not isinstance(q.stmt(reads[0]), ast.Assign) or not isinstance(q.stmt(reads[0]).targets[0], ast.Name):
        raise AnalysisError(f'{f.key}: expected one `x = await self.mempool.<summaries>(hashX)` read')
    rs = q.stmt(reads[0])
    mv = rs.targets[0].id
    rn = cfg.node(rs)
    later = []
    for m in cfg.reachable_from(rn):
        if m == rn:
            continue
        a = cfg.ast(m)
        if a is not None and cfg.kind(m) not in ('with_exit',):
            r = sus.stmt_suspends(a, f)
            if r:
                later.append(f'{cfg.label(m)}: {r}')
    own = sus.stmt_suspends(rs, f)
    ctx.check(not later and not own, 'C07.SNAPSHOT', ctx.key(f, rs, 'mempool part read last'),
              'no suspension point follows the mempool read: the status is computed from a mempool snapshot taken at the moment the '
              '(validated) history read completed',
              'a suspension point follows the mempool read (' + '; '.join(later[:2] or [str(own)]) + '): a refresh notified during it is '
              'lost - the session is not registered yet - and the returned status is built from the older mempool snapshot',
              loc=ctx.loc(f, rs))
    # (b)
    hx = f.params[1]
    stores = [s_ for s_ in f.own_nodes() if isinstance(s_, ast.Assign) and isinstance(s_.targets[0], ast.Subscript)
              and ctx.res.canon(s_.targets[0].value, f) == 'self.mempool_statuses' and norm(s_.targets[0].slice) == hx]
    ok, why = False, 'no `self.mempool_statuses[hashX] = status` store'
    if len(stores) == 1:
        conds = pr.control_conditions(stores[0], f.node)
        extra = [norm(t) for t, b, _p in conds if not (b and isinstance(t, ast.Name) and t.id == mv)]
        ok = not extra
        why = f'the store is conditioned on {extra}'
        if ok:
            # every path on which the mempool part may be non-empty passes the store: the only way round it is the false edge of `if <mv>`
            ifs = [p_ for t, b, p_ in conds]
            avoid = {cfg.node(stores[0])}
            p = None
            if ifs:
                ifn = cfg.node(ifs[-1])
                te = [m for m in cfg.g.successors(ifn) if 'true' in cfg.g[ifn][m]['kinds']]
                p = pr.path_avoiding(cfg, te, [cfg.exit], avoid)
                pre = pr.path_avoiding(cfg, [rn], [cfg.exit], {ifn})
                if pre is not None and not any(cfg.kind(x) == 'raise' for x in pre):
                    p = pre
            else:
                p = pr.path_avoiding(cfg, [rn], [cfg.exit], avoid)
            ok = p is None
            why = 'a normal path from the mempool read to the return skips the store'
    ctx.check(ok, 'C07.MPSTATUS', ctx.key(f, stores[0] if stores else None, 'tracked iff mempool part non-empty'),
              'the script hash is tracked in mempool_statuses whenever its mempool part is non-empty',
              f'{why}: a script hash with unconfirmed transactions is not tracked, so the flip of has-unconfirmed-inputs when the '
              'parent confirms is never re-examined on the height change', loc=ctx.loc(f, stores[0] if stores else f.node))
    return 2


def rule_fanout(ctx):
    n = 0
    ns = ctx.func('sess', 'SessionManager._notify_sessions')
    cfg = ctx.cfg(ns)
    hp, tp = ns.params[1], ns.params[2]
    # height_changed computed before the refresh; refresh precedes the fan-out when the height changed
    hc = [s for s in ns.node.body if isinstance(s, ast.Assign) and isinstance(s.value, ast.Compare)
          and isinstance(s.value.ops[0], ast.NotEq) and {norm(s.value.left), norm(s.value.comparators[0])} == {hp, 'self.notified_height'}]
    refr = [c for c in q.own_calls(ns) if q.callee_name(ctx, ns, c) == 'self._refresh_hsub_results']
    spawns = [c for c in q.own_calls(ns) if isinstance(c.func, ast.Attribute) and c.func.attr == 'spawn']
    if len(hc) != 1 or len(refr) != 1 or len(spawns) != 1:
        raise AnalysisError(f'{ns.key}: height_changed / refresh / spawn not recognised')
    hcv = norm(hc[0].targets[0])
    rstmt = q.stmt(refr[0])
    conds = pr.control_conditions(rstmt, ns.node)
    okr = len(conds) == 1 and conds[0][1] and norm(conds[0][0]) == hcv and norm(refr[0].args[0]) == hp and hc[0].lineno < rstmt.lineno
    # on the changed branch the refresh is passed before the spawn
    ifn = cfg.node(conds[0][2]) if conds else None
    if okr:
        te = [m for m in cfg.g.successors(ifn) if 'true' in cfg.g[ifn][m]['kinds']]
        okr = pr.path_avoiding(cfg, te, [cfg.node(q.stmt(spawns[0]))], {cfg.node(rstmt)}) is None
    ctx.check(okr, 'C07.FANOUT', ctx.key(ns, rstmt, 'header refreshed first'),
              'when the height changed the cached header result is refreshed for that height before any session is told',
              'sessions can be told about a new height before the header result for it was refreshed', loc=ctx.loc(ns, rstmt))
    n += 1
    sp = spawns[0]
    loops = [p for p, _f in q.enclosing_chain(q.stmt(sp), ns.node) if isinstance(p, ast.For)]
    okl = len(loops) == 1 and ctx.res.canon(loops[0].iter, ns) == 'self.sessions' and \
        [norm(a) for a in sp.args] == [f'{norm(loops[0].target)}.notify', tp, hcv]
    if okl:
        okl, _w = pr.once_per_iteration(cfg, loops[0], [cfg.node(q.stmt(sp))])
        okl = okl and pr.path_avoiding(cfg, [cfg.entry], [cfg.exit], {cfg.node(loops[0])}) is None
    ctx.check(okl, 'C07.FANOUT', ctx.key(ns, q.stmt(sp), 'every session'),
              'every session is notified with (touched, height_changed) on every notification',
              'not every session is notified with (touched, height_changed)', loc=ctx.loc(ns, sp))
    n += 1
    # refresh records the height it refreshed to
    rf = ctx.func('sess', 'SessionManager._refresh_hsub_results')
    nh = q.assigns(ctx, rf, 'self.notified_height')
    hs = q.assigns(ctx, rf, 'self.hsub_results')
    okh = len(nh) == 1 and len(hs) == 1 and norm(nh[0].value) == rf.params[1] and f"'height': {rf.params[1]}" in norm(hs[0].value)
    ctx.check(okh, 'C07.FANOUT', ctx.key(rf, None, 'records height'),
              'the refreshed header result and notified_height are set together for that height',
              'the header result / notified_height are not set together for the refreshed height', loc=ctx.loc(rf, rf.node))
    n += 1
    # session side
    wr = ctx.func('sess', 'ElectrumX.notify')
    inner = ctx.func('sess', 'ElectrumX._notify_inner')
    cs = q.calls_resolving_to(ctx, wr, inner)
    ctx.check(len(cs) == 1 and [norm(a) for a in cs[0].args] == wr.params[1:3], 'C07.FANOUT', ctx.key(wr, None, 'delegates'),
              'notify passes (touched, height_changed) to _notify_inner', 'notify does not pass its arguments through', loc=ctx.loc(wr, wr.node))
    n += 1
    f = inner
    fcfg = ctx.cfg(f)
    tparam, hparam = f.params[1], f.params[2]
    # header notification
    sends = [c for c in q.own_calls(f) if q.callee_name(ctx, f, c) == 'self.send_notification']
    hsend = [c for c in sends if c.args and isinstance(c.args[0], ast.Constant) and c.args[0].value == 'blockchain.headers.subscribe']
    okh = len(hsend) == 1
    if okh:
        conds = pr.control_conditions(q.stmt(hsend[0]), f.node)
        okh = len(conds) == 1 and conds[0][1] and {norm(x) for x in pr.conjuncts(conds[0][0])} == {hparam, 'self.subscribe_headers'}
    ctx.check(okh, 'C07.FANOUT', ctx.key(f, None, 'header notification'),
              'a header notification is sent exactly when the height changed and the session subscribed to headers',
              'the header notification is not sent exactly under `height_changed and self.subscribe_headers`', loc=ctx.loc(f, f.node))
    n += 1
    # touched restricted to subscriptions, then every one recomputed
    inter = [s for s in f.node.body if isinstance(s, ast.Assign) and norm(s.targets[0]) == tparam]
    oki = len(inter) == 1 and norm(inter[0].value) in (f'{tparam}.intersection(self.hashX_subs)', f'{tparam} & set(self.hashX_subs)',
                                                        f'{tparam} & self.hashX_subs.keys()')
    # the dict of changes: the one whose items are sent as scripthash notifications
    sl = [s for s in f.own_nodes() if isinstance(s, ast.For) and isinstance(s.iter, ast.Call) and isinstance(s.iter.func, ast.Attribute)
          and s.iter.func.attr == 'items' and isinstance(s.iter.func.value, ast.Name)
          and any(isinstance(c, ast.Call) and q.callee_name(ctx, f, c) == 'self.send_notification' for c in walk_own(s))]
    chv = sl[0].iter.func.value.id if len(sl) == 1 else None
    tl = [s for s in f.own_nodes() if isinstance(s, ast.For) and norm(s.iter) == tparam]

    def is_mempool_copy(e):
        if not (isinstance(e, ast.Call) and isinstance(e.func, ast.Attribute) and e.func.attr == 'items'):
            return False
        b = e.func.value
        if isinstance(b, ast.Name):
            dd = df.defs(f).get(b.id, [])
            b = dd[0][1] if len(dd) == 1 else b
        return isinstance(b, ast.Call) and isinstance(b.func, ast.Attribute) and b.func.attr == 'copy' and ctx.res.canon(b.func.value, f) == 'self.mempool_statuses'
    ml = [s for s in f.own_nodes() if isinstance(s, ast.For) and is_mempool_copy(s.iter)]
    if len(tl) != 1 or len(ml) != 1 or len(sl) != 1:
        ctx.bad('C07.FANOUT', ctx.key(f, None, 'loops'), 'the touched loop, the mempool-status loop and the send loop are not all present',
                loc=ctx.loc(f, f.node))
        return n + 1
    tl, ml, sl = tl[0], ml[0], sl[0]
    ctx.check(oki and inter[0].lineno < tl.lineno, 'C07.FANOUT', ctx.key(f, tl, 'touched ∩ subscriptions'),
              'the touched loop ranges over all touched script hashes the session subscribed to',
              'the touched loop does not range over touched ∩ hashX_subs', loc=ctx.loc(f, tl))
    n += 1
    # guards: the touched loop runs whenever touched is non-empty; the mempool loop whenever height changed and statuses exist
    for lp, need, label in ((tl, {tparam}, 'touched loop guard'), (ml, {hparam, 'self.mempool_statuses'}, 'mempool loop guard')):
        conds = pr.guard_conditions(lp, f.node)        # `if not X: return` guards read as "under X"
        # propositionally: NEED implies every governing condition (however the guard is spelt - nested, early return,
        # De Morgan'd): NEED and G is the same function as NEED
        need_src = ' and '.join(f'({x})' for x in sorted(need))
        g_src = ' and '.join((f'({norm(t)})' if b else f'(not ({norm(t)}))') for t, b, _p in conds) or 'True'
        ok = q.bool_equiv(f'({need_src}) and ({g_src})', need_src)
        ctx.check(ok, 'C07.FANOUT', ctx.key(f, lp, label),
                  f'the loop runs whenever {" and ".join(sorted(need))} holds',
                  f'the loop can be skipped although {" and ".join(sorted(need))} holds: {[norm(c[0]) for c in conds]}', loc=ctx.loc(f, lp))
        n += 1
    # inside the touched loop: status recomputed and recorded for every subscribed hashX
    for lp, label, cond_extra in ((tl, 'touched', False), (ml, 'mempool', True)):
        sas = [c for c in walk_own(lp) if isinstance(c, ast.Call) and q.callee_name(ctx, f, c) == 'self.subscription_address_status']
        recs = [s for s in walk_own(lp) if isinstance(s, ast.Assign) and isinstance(s.targets[0], ast.Subscript) and norm(s.targets[0].value) == chv]
        # the status is recorded from a local bound to the awaited call, or straight from the awaited call
        direct = len(sas) == 1 and len(recs) == 1 and isinstance(recs[0].value, ast.Await) and recs[0].value.value is sas[0]
        ok = len(sas) == 1 and len(recs) == 1 and isinstance(q.stmt(sas[0]), ast.Assign) and \
            (direct or norm(recs[0].value) == norm(q.stmt(sas[0]).targets[0]))
        if ok:
            hx = norm(lp.target.elts[0]) if isinstance(lp.target, ast.Tuple) else norm(lp.target)
            ok = norm(sas[0].args[0]) == hx
            conds_s = [norm(t) if b else f'not ({norm(t)})' for t, b, _p in pr.guard_conditions(q.stmt(sas[0]), lp)]
            conds_r = [norm(t) if b else f'not ({norm(t)})' for t, b, _p in pr.guard_conditions(recs[0], lp)]
            alias_defs = [s for s in lp.body if isinstance(s, ast.Assign) and norm(s.value) == f'self.hashX_subs.get({hx})']
            av = norm(alias_defs[0].targets[0]) if alias_defs else None
            ok = ok and av is not None and conds_s == [av] and norm(recs[0].targets[0].slice) == av
            if cond_extra:
                old = norm(lp.target.elts[1]) if isinstance(lp.target, ast.Tuple) else None
                stv = norm(q.stmt(sas[0]).targets[0])
                ok = ok and len(conds_r) == 2 and conds_r[0] in (f'not ({stv} == {old})', f'not ({old} == {stv})') and conds_r[1] == av
            else:
                ok = ok and conds_r == [av]
        ctx.check(ok, 'C07.FANOUT', ctx.key(f, lp, f'{label} statuses recomputed'),
                  f'each subscribed script hash of the {label} loop has its status recomputed and recorded'
                  + (' when it differs from the one last sent' if cond_extra else ''),
                  f'the {label} loop does not recompute and record the status of every subscribed script hash', loc=ctx.loc(f, lp))
        n += 1
    ssend = [c for c in walk_own(sl) if isinstance(c, ast.Call) and q.callee_name(ctx, f, c) == 'self.send_notification']
    ok = len(ssend) == 1 and isinstance(getattr(ssend[0], '_parent', None), ast.Await)
    if ok:
        ok, _w = pr.once_per_iteration(fcfg, sl, [fcfg.node(q.stmt(ssend[0]))])
        a0 = ssend[0].args[0]
        meth = a0.value if isinstance(a0, ast.Constant) else None
        if isinstance(a0, ast.Name):
            d = q.assigns(ctx, f, a0.id)
            meth = d[0].value.value if len(d) == 1 and isinstance(d[0].value, ast.Constant) else None
        ok = ok and meth == 'blockchain.scripthash.subscribe' and norm(ssend[0].args[1]) == f'({norm(sl.target.elts[0])}, {norm(sl.target.elts[1])})'
    ctx.check(ok, 'C07.FANOUT', ctx.key(f, sl, 'every change sent'),
              'every recorded change is sent as a scripthash notification (alias, status)',
              'recorded changes are not all sent as blockchain.scripthash.subscribe (alias, status)', loc=ctx.loc(f, sl))
    return n + 1


def rule_advance_touched(ctx):
    '''advance_block: the per-tx hashX list (spent + created) is merged into self.touched once per tx.'''
    f = ctx.func('bp', 'BlockProcessor.advance_block')
    cfg = ctx.cfg(f)
    txl = c03.tx_loop(ctx, f)
    from .roles import AdvanceNames
    ups = c03.calls_canon(ctx, f, txl, 'self.touched.update')
    hist = c03.calls_canon(ctx, f, txl, f'{AdvanceNames(ctx, f).by_tx}.append')
    ok = len(ups) == 1 and len(hist) == 1 and norm(ups[0].args[0]) == norm(hist[0].args[0])
    if ok:
        ok, _w = pr.once_per_iteration(cfg, txl, [cfg.node(q.stmt(ups[0]))])
    ctx.check(ok, 'C07.TOUCHED', ctx.key(f, txl, 'advance feeds touched'),
              'every transaction merges exactly the script hashes recorded in its history into self.touched',
              'script hashes recorded in history are not all merged into self.touched (subscribers are not notified)', loc=ctx.loc(f, txl))
    return 1


def run(ctx):
    ctx.rule('C07.FLUSHNOTIFY', lambda: rule_flushnotify(ctx), 4)
    ctx.rule('C07.HANDOVER', lambda: rule_mempool_handover(ctx), 4)
    got = ctx.rule('C07.INVALIDATE', lambda: c10.rule_invalidate(ctx, 'C07.INVALIDATE'))
    if isinstance(got, tuple):
        _n, f, cfg, _ln, spawns = got
        from .fresh import rule_epoch_bumped
        ctx.rule('C07.EPOCH', lambda: rule_epoch_bumped(ctx, f, 'self._touched_count', 'C07.EPOCH',
                                                        must_precede=[cfg.node(q.stmt(s)) for s in spawns] + [cfg.exit]), 1)
    ctx.rule('C07.SUBSCRIBE', lambda: rule_subscribe(ctx), 3)
    ctx.rule('C07.STATUS', lambda: rule_status(ctx), 2)
    ctx.rule('C07.CLAMP', lambda: rule_hsub_clamp(ctx), 1)
    ctx.rule('C07.NOTIFYTIMEOUT', lambda: rule_notify_timeout(ctx), 1)
    # the status a subscriber converges on is computed from the mempool view: its exactness rules are necessary here too
    from . import c08 as _c08
    _c08.run(ctx)
    # the status is the hash of the *whole* confirmed history: a history cut off at the limit must be refused, not hashed
    from . import c17 as _c17
    ctx.rule('C17.LIMIT', lambda: _c17.rule_limit(ctx), 6)
    ctx.rule('C07.FANOUT', lambda: rule_fanout(ctx), 11)
    ctx.rule('C07.TOUCHED', lambda: rule_advance_touched(ctx) + c03.rule_touched(ctx, 'C07.TOUCHED'), 5)
    ctx.rule('C20', lambda: c20._run(ctx))
    # the status is a hash over the confirmed history *in order*: the row-key layout / big-endian row id of History is its condition
    from . import c01 as _c01s, c02 as _c02s
    sch = ctx.rule('C07.SCHEMAS', lambda: _c01s.Schemas(ctx))
    if sch is not None:
        ctx.rule('C02.LAYOUT', lambda: _c02s.rule_layout(ctx, sch), 14)


def rule_hsub_clamp(ctx, rule='C07.CLAMP'):
    '''_refresh_hsub_results runs inside the notifier's call chain (mempool task -> on_mempool -> notify): the header it reads
    must exist, so the height is clamped to the index height first - a reorganisation can have lowered it since the
    notification was decided.  Without the clamp raw_header raises and the exception kills the mempool refresh task.'''
    rf = ctx.func('sess', 'SessionManager._refresh_hsub_results')
    cfg = ctx.cfg(rf)
    hp = rf.params[1]
    reads = [c for c in q.own_calls(rf) if q.callee_name(ctx, rf, c) in ('self.raw_header', 'self.db.raw_header')]
    ok, why = False, 'raw_header call not found'
    if len(reads) == 1 and len(reads[0].args) == 1 and isinstance(reads[0].args[0], ast.Name):
        hv = reads[0].args[0].id
        d = df.last_def_before(rf, hv, reads[0])
        why = f'the header is read at `{hv}` which is not clamped to the index height'
        if d is not None and isinstance(d[1], ast.Call) and norm(d[1].func) == 'min':
            args = {ctx.res.canon(a, rf) or norm(a) for a in d[1].args}
            ok = 'self.db.state.height' in args and (hp in args or hv in args) and cfg.dominates(cfg.node(d[0]), cfg.node(q.stmt(reads[0])))
    ctx.check(ok, rule, ctx.key(rf, None, 'height clamped to the index'),
              'the refreshed header height is min(requested height, index height)',
              why + ': when a reorganisation lowered the index after the notification was decided, raw_header raises inside the '
              'notifier and the exception escapes into the task that reported (the mempool refresh / block processing)',
              loc=ctx.loc(rf, rf.node))
    return 1


def rule_notify_timeout(ctx, rule='C07.NOTIFYTIMEOUT'):
    '''A session whose notification round does not finish within the limit is CLOSED (the client reconnects and
    re-subscribes, getting current statuses).  That relies on the limiter raising TaskTimeout: aiorpcX's timeout_after /
    timeout_at raise it, ignore_after / ignore_at swallow the expiry - the round would be abandoned silently and the
    session kept, holding statuses it is never told about again.'''
    f = ctx.func('sess', 'ElectrumX.notify')
    RAISING = {'timeout_after', 'timeout_at'}
    withs = [w for w in f.own_nodes() if isinstance(w, ast.AsyncWith)]
    inner = ctx.func('sess', 'ElectrumX._notify_inner')
    ok, why = False, 'no time-limited block around _notify_inner'
    for w in withs:
        if not any(q.in_body(c, w.body) for c in q.calls_resolving_to(ctx, f, inner)):
            continue
        names = [norm(i.context_expr.func).split('.')[-1] for i in w.items if isinstance(i.context_expr, ast.Call)]
        tries = [t for t, _fld in q.enclosing_chain(w, f.node) if isinstance(t, ast.Try)]
        handled = False
        closes = False
        for t in tries:
            for h in t.handlers:
                hn = [norm(x).split('.')[-1] for x in (h.type.elts if isinstance(h.type, ast.Tuple) else [h.type])] if h.type else []
                if 'TaskTimeout' in hn:
                    handled = True
                    closes = any(isinstance(c, ast.Call) and q.callee_name(ctx, f, c) in ('self.close', 'self.abort') for c in walk_own(h))
        ok = bool(set(names) & RAISING) and handled and closes
        why = f'the round is limited by `{", ".join(names)}`; TaskTimeout handled={handled}, session closed there={closes}'
    ctx.check(ok, rule, ctx.key(f, None, 'expired round closes the session'),
              'the notification round is limited by a raising limiter and TaskTimeout closes the session',
              why + ': a round that expires is dropped without closing the session, which keeps its old statuses and is never told again',
              loc=ctx.loc(f, f.node))
    return 1
