'''UNBOUND - no local is read before it is assigned on some path (UnboundLocalError at run time).

Used by the properties with a "never raises / never fails with an internal exception" clause, over the modules on their
paths.  The analysis is path-insensitive (sa/defassign.py); the sites below are the ones it reports on the reference tree
and that were confirmed infeasible by reading - each is keyed by function and variable, with the reason.'''
from .. import defassign
from ..model import norm

ACCEPTED = {
    ('electrumx/lib/coins.py', 'Coin.pay_to_address_script', 'hash160'):
        'guarded by the sentinel verbyte = -1: the uses are under verbyte == <configured byte>, which implies the branch that bound it',
    ('electrumx/server/block_processor.py', 'OnDiskBlock.iter_txs', 'cursor'):
        'bound by the first statement of the inner loop; the only raise before it would be an attribute load on a Deserializer',
    ('electrumx/server/block_processor.py', 'OnDiskBlock._chunk_offsets', 'cursor'):
        'as in iter_txs',
    ('electrumx/server/peers.py', 'PeerManager._should_drop_peer', 'peer_text'):
        'used under is_good, which is set only inside the loop body after peer_text was bound',
}


def rule_unbound(ctx, rule, mods):
    rels = {ctx.repo.path(m) for m in mods}
    n = 0
    for f in ctx.repo.funcs.values():
        if f.unit.relpath not in rels:
            continue
        n += 1
        bad = {}
        for nm, st in defassign.possibly_unbound(f, ctx.cfg(f)):
            if (f.unit.relpath, f.qual, nm.id) in ACCEPTED:
                continue
            bad.setdefault(nm.id, st)
        for name, st in sorted(bad.items()):
            ctx.bad(rule, ctx.key(f, None, f'local {name} bound before use'),
                    f'`{name}` is read at line {st.lineno} (`{norm(st)[:60]}`) but is not assigned on every path leading there: '
                    'that path raises UnboundLocalError', loc=ctx.loc(f, st))
        if not bad:
            ctx.ok(rule, ctx.key(f, None, 'locals bound before use'), 'every local is assigned on all paths before it is read')
    return n
