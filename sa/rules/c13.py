'''C13 - transactions and blocks parsed exactly, however the block file is chunked.

Decided (structure only): CODEC (reader and serialiser walk the same codec sequence over the same fields),
VARINT (marker -> width tables of read_varint / pack_varint agree), WIDTH (every fixed read advances by the
size of the struct it unpacks), TRUNC (cursors only grow by declared widths and the last read of a
transaction is a raising fixed-width read), EXCEPT (the chunk loops catch every class a short buffer
raises), SNAPSHOT / REFILL (cursor snapshot before each parse; refill drops exactly the consumed prefix and
rebuilds the deserializer), OFFSETS (base offset advanced with every drop), COUNT (loops end only when the
announced number of transactions was seen), HASHSPAN, REVERSE.
Not decided: round-trip equality and hash values for all inputs (numeric).
'''
import ast
import struct as _struct

from ..model import AnalysisError, norm, walk_own, const_value, dotted
from .. import q, pathrules as pr, dataflow as df

EXPLANATION = ('static necessary conditions of C13 on lib/tx.py, lib/util.py and OnDiskBlock: reader/serialiser codec '
               'agreement, varint tables, struct widths, truncated-parse-must-raise structure, except tuples of the '
               'chunk loops, cursor snapshot / refill / offset bookkeeping on all CFG paths, hash span, reverse order. '
               'Does NOT decide round-trip equality or hash values.')
ASSUMPTIONS = ['struct.unpack_from raises struct.error and memoryview indexing raises IndexError on a short buffer',
               'slicing a memoryview never raises']


# ---------------------------------------------------------------------------------------------
# util.py struct table

def struct_table(ctx):
    '''name -> (struct var, fmt, method) for every pack_*/unpack_* alias at the bottom of lib/util.py.'''
    unit = ctx.repo.unit('util')
    ctx.consulted.add(unit.relpath)
    structs, table = {}, {}
    for s in unit.tree.body:
        if isinstance(s, ast.Assign) and len(s.targets) == 1 and isinstance(s.targets[0], ast.Name):
            name, v = s.targets[0].id, s.value
            if isinstance(v, ast.Call) and norm(v.func) == 'Struct' and v.args and isinstance(v.args[0], ast.Constant):
                structs[name] = v.args[0].value
            elif isinstance(v, ast.Attribute) and isinstance(v.value, ast.Name) and v.value.id in structs:
                table[name] = (v.value.id, structs[v.value.id], v.attr)
    if len(table) < 15:
        raise AnalysisError('lib/util.py: struct alias table not found')
    return table


def fmt_size(fmt):
    return _struct.calcsize(fmt)


# ---------------------------------------------------------------------------------------------
# reader side

class Readers:
    def __init__(self, ctx):
        self.ctx = ctx
        self.st = struct_table(ctx)
        self.unit = ctx.repo.unit('tx')
        self.prims = {}      # read_* function name -> (struct var or None, declared width, Func, unpack call or None)
        for key, f in ctx.repo.funcs.items():
            if f.unit is not self.unit or f.parent is not None or f.cls is not None:
                continue
            if not f.name.startswith('read_') or f.name in ('read_varint', 'read_varbytes', 'read_many', 'read_tx',
                                                            'read_input', 'read_output'):
                continue
            rets = [n for n in f.own_nodes() if isinstance(n, ast.Return)]
            width = None
            if len(rets) == 1 and isinstance(rets[0].value, ast.Tuple) and len(rets[0].value.elts) == 2:
                adv = rets[0].value.elts[1]
                if isinstance(adv, ast.BinOp) and isinstance(adv.op, ast.Add):
                    width = const_value(adv.right) if isinstance(adv.left, ast.Name) else const_value(adv.left)
                elif isinstance(adv, ast.Name):
                    # end = cursor + K
                    for s_ in f.node.body:
                        if isinstance(s_, ast.Assign) and norm(s_.targets[0]) == adv.id and isinstance(s_.value, ast.BinOp) \
                                and isinstance(s_.value.op, ast.Add):
                            width = const_value(s_.value.right) if isinstance(s_.value.left, ast.Name) else const_value(s_.value.left)
            if width is None:
                continue
            calls = [c for c in q.own_calls(f) if isinstance(c.func, ast.Name) and c.func.id in self.st
                     and self.st[c.func.id][2] == 'unpack_from']
            if calls:
                self.prims[f.name] = (self.st[calls[0].func.id][0], width, f, calls[0])
            else:
                self.prims[f.name] = (None, width, f, None)

    def tokens(self, f, depth=0):
        '''Linear token list of a straight-line reader: [(kind, detail, bound var)], plus the
        constructor call of the returned object.'''
        if depth > 4:
            raise AnalysisError('reader recursion too deep')
        toks = []
        ctor = None
        body = [s for s in f.node.body if not (isinstance(s, ast.Expr) and isinstance(s.value, ast.Constant))]
        pending_raw = None
        pending_off = 0          # bytes taken by `x = buf[cursor:cursor + K]` that the next read must skip (`cursor + K`)
        for s in body:
            if isinstance(s, ast.Assign) and isinstance(s.value, ast.Call):
                callee = self.ctx.res.resolve_ref(s.value.func, f)
                if len(s.value.args) >= 2 and norm(s.value.args[0]) == f.params[0]:
                    want = 'cursor' if not pending_off else f'cursor + {pending_off}'
                    if norm(s.value.args[1]) != want:
                        raise AnalysisError(f'{f.key}: reader call does not continue at `{want}`: {norm(s.value)}')
                    pending_off = 0
                var = None
                t = s.targets[0]
                if isinstance(t, ast.Tuple) and isinstance(t.elts[0], ast.Name):
                    var = t.elts[0].id
                if callee is None:
                    raise AnalysisError(f'{f.key}: cannot resolve reader call {norm(s.value)}')
                if callee.name in self.prims:
                    sv = self.prims[callee.name][0]
                    toks.append(('struct', sv, var) if sv else ('fixed-nonraising', self.prims[callee.name][1], var))
                elif callee.name == 'read_varint':
                    toks.append(('varint', None, var))
                elif callee.name == 'read_varbytes':
                    toks.append(('varbytes', None, var))
                elif callee.name == 'read_many':
                    item = self.ctx.res.resolve_ref(s.value.args[2], f) if len(s.value.args) >= 3 else None
                    if item is None:
                        raise AnalysisError(f'{f.key}: read_many item reader not resolvable')
                    itoks, ictor = self.tokens(item, depth + 1)
                    toks.append(('many', (item.name, tuple(itoks), ictor), var))
                else:
                    raise AnalysisError(f'{f.key}: unknown reader call {norm(s.value)}')
            elif isinstance(s, ast.Assign) and isinstance(s.value, ast.Name) and s.value.id == 'cursor':
                pending_raw = [s.targets[0].id, None]     # start = cursor
            elif isinstance(s, ast.AugAssign) and isinstance(s.target, ast.Name) and s.target.id == 'cursor' \
                    and isinstance(s.op, ast.Add):
                if pending_raw is None or const_value(s.value) is None:
                    raise AnalysisError(f'{f.key}: cursor advance without a start snapshot: {norm(s)}')
                pending_raw[1] = const_value(s.value)
            elif isinstance(s, ast.Assign) and isinstance(s.value, ast.Subscript) and not pending_raw and isinstance(s.value.slice, ast.Slice) \
                    and norm(s.value.value) == f.params[0] and isinstance(s.targets[0], ast.Name) \
                    and norm(s.value.slice.lower) == ('cursor' if not pending_off else f'cursor + {pending_off}') \
                    and isinstance(s.value.slice.upper, ast.BinOp) and isinstance(s.value.slice.upper.op, ast.Add) \
                    and norm(s.value.slice.upper.left) == 'cursor' and isinstance(const_value(s.value.slice.upper.right), int) \
                    and const_value(s.value.slice.upper.right) > pending_off:
                # x = buf[cursor:cursor + K]: K raw bytes, the cursor itself moves with the next read
                k_ = const_value(s.value.slice.upper.right)
                toks.append(('raw', k_ - pending_off, s.targets[0].id))
                pending_off = k_
            elif isinstance(s, ast.Assign) and isinstance(s.value, ast.Subscript) and pending_raw \
                    and isinstance(s.value.slice, ast.Slice):
                sl = s.value.slice
                if norm(sl.lower) == pending_raw[0] and norm(sl.upper) == 'cursor' and pending_raw[1] is not None:
                    toks.append(('raw', pending_raw[1], s.targets[0].id))
                    pending_raw = None
                else:
                    raise AnalysisError(f'{f.key}: raw slice not of the form buf[start:cursor]: {norm(s)}')
            elif isinstance(s, ast.Return):
                v = s.value
                if isinstance(v, ast.Tuple) and isinstance(v.elts[0], ast.Call):
                    c = v.elts[0]
                    ctor = (norm(c.func), [norm(a) for a in c.args])
            elif isinstance(s, (ast.Assign, ast.AnnAssign, ast.Expr, ast.Pass)) and not ({'cursor', f.params[0]} & q.names_in(s)) \
                    and not any(isinstance(t, ast.Name) and t.id == 'cursor' for t in (s.targets if isinstance(s, ast.Assign) else [])):
                continue        # a statement that touches neither the buffer nor the cursor
            else:
                raise AnalysisError(f'{f.key}: statement not understood in a reader: {norm(s)}')
        return toks, ctor


def namedtuple_fields(cnode):
    for b in cnode.bases:
        if isinstance(b, ast.Call) and norm(b.func).endswith('namedtuple') and len(b.args) == 2:
            v = const_value(b.args[1])
            if isinstance(v, str):
                return v.split()
    return None


def writer_tokens(ctx, cnode, st):
    '''Codec tokens of <Class>.serialize: [(kind, detail, field)].'''
    ser = [n for n in cnode.body if isinstance(n, ast.FunctionDef) and n.name == 'serialize']
    if not ser:
        raise AnalysisError(f'class {cnode.name} has no serialize')
    rets = [n for n in ast.walk(ser[0]) if isinstance(n, ast.Return)]
    if len(rets) != 1:
        raise AnalysisError(f'{cnode.name}.serialize: expected a single return')
    v = rets[0].value
    if not (isinstance(v, ast.Call) and norm(v.func) == "b''.join" and isinstance(v.args[0], (ast.Tuple, ast.List))):
        raise AnalysisError(f'{cnode.name}.serialize: not a b\'\'.join of parts')
    toks = []
    parts = v.args[0].elts
    i = 0

    def field(e):
        if isinstance(e, ast.Attribute) and isinstance(e.value, ast.Name) and e.value.id == 'self':
            return e.attr
        return None
    while i < len(parts):
        p = parts[i]
        if isinstance(p, ast.Call) and isinstance(p.func, ast.Name) and p.func.id in st and st[p.func.id][2] == 'pack':
            toks.append(('struct', st[p.func.id][0], field(p.args[0])))
        elif isinstance(p, ast.Call) and norm(p.func) == 'pack_varbytes':
            toks.append(('varbytes', None, field(p.args[0])))
        elif isinstance(p, ast.Call) and norm(p.func) == 'pack_varint':
            a = p.args[0]
            fld = field(a.args[0]) if isinstance(a, ast.Call) and norm(a.func) == 'len' and a.args else None
            nxt = parts[i + 1] if i + 1 < len(parts) else None
            ok = False
            if fld and isinstance(nxt, ast.Call) and norm(nxt.func) == "b''.join" and nxt.args \
                    and isinstance(nxt.args[0], ast.GeneratorExp):
                g = nxt.args[0]
                it = g.generators[0]
                if len(g.generators) == 1 and not it.ifs and field(it.iter) == fld \
                        and isinstance(g.elt, ast.Call) and isinstance(g.elt.func, ast.Attribute) \
                        and g.elt.func.attr == 'serialize' and norm(g.elt.func.value) == norm(it.target):
                    ok = True
            if not ok:
                raise AnalysisError(f'{cnode.name}.serialize: varint count not followed by the joined items of the same field')
            toks.append(('many', None, fld))
            i += 1
        elif field(p):
            toks.append(('raw', None, field(p)))
        else:
            raise AnalysisError(f'{cnode.name}.serialize: part not understood: {norm(p)}')
        i += 1
    return toks, ser[0]


def compare_codec(ctx, rd, reader_func, cls_name, depth=0):
    '''SIB: reader tokens (+constructor field binding) == serialiser tokens.'''
    n = 0
    cnode = ctx.repo.cls('tx', cls_name)
    fields = namedtuple_fields(cnode)
    if not fields:
        raise AnalysisError(f'{cls_name}: namedtuple fields not found')
    rtoks, ctor = rd.tokens(reader_func)
    if ctor is None or ctor[0] != cls_name:
        raise AnalysisError(f'{reader_func.key}: does not return a {cls_name}')
    var2field = {}
    for idx, a in enumerate(ctor[1]):
        if idx < len(fields):
            var2field[a] = fields[idx]
    wtoks, ser = writer_tokens(ctx, cnode, rd.st)
    rseq = []
    for kind, detail, var in rtoks:
        fld = var2field.get(var)
        rseq.append((kind, detail if kind == 'struct' else None, fld))
    wseq = [(kind, detail if kind == 'struct' else None, fld) for kind, detail, fld in wtoks]
    key = ctx.key(reader_func, None, f'vs {cls_name}.serialize')
    ctx.check(rseq == wseq and len(ctor[1]) == len(fields), 'C13.CODEC', key,
              f'reader and serialiser agree on {len(rseq)} codec steps: ' + ', '.join(f'{k}:{d or ""}:{f}' for k, d, f in rseq),
              'reader and serialiser disagree', witness={'reader': [list(map(str, t)) for t in rseq],
                                                         'serialiser': [list(map(str, t)) for t in wseq],
                                                         'constructor': ctor},
              loc=ctx.loc(reader_func, reader_func.node))
    n += 1
    for kind, detail, var in rtoks:
        if kind == 'many':
            item_name, _itoks, ictor = detail
            item_func = ctx.func('tx', item_name)
            if ictor is None:
                raise AnalysisError(f'{item_name}: constructor not found')
            n += compare_codec(ctx, rd, item_func, ictor[0], depth + 1)
    return n


def flat_tokens(rtoks):
    out = []
    for kind, detail, var in rtoks:
        if kind == 'many':
            out.append(('varint', None, None))
            out += flat_tokens(list(detail[1]))
        else:
            out.append((kind, detail, var))
    return out


# ---------------------------------------------------------------------------------------------

def rule_varint(ctx, rd):
    rv = ctx.func('tx', 'read_varint')
    pv = ctx.func('util', 'pack_varint')
    # reader, decided per return path and per value of the first byte (early returns, an if/elif chain assigning a result,
    # conditional expressions: all the same): which byte values are returned directly, which select which fixed-width read
    from .. import paths as P
    first = f'{rv.params[0]}[{rv.params[1]}]'
    by_byte = {}
    for pth in P.returns(rv.node):
        vals = set(range(256))
        for t, pol, _n in pth.conds:
            if not isinstance(t, ast.Compare) or len(t.ops) != 1:
                continue
            vc = q.var_vs_const(t)
            if vc is None or vc[0] != first or not isinstance(vc[2], int):
                continue
            _v, opn, k = vc
            sat = {'<': lambda x: x < k, '<=': lambda x: x <= k, '>': lambda x: x > k, '>=': lambda x: x >= k,
                   '==': lambda x: x == k, '!=': lambda x: x != k}[opn]
            vals = {x for x in vals if sat(x) == pol}
        v = pth.value
        if isinstance(v, ast.Tuple) and len(v.elts) == 2 and norm(v.elts[0]) == first:
            kind = 'direct'
        elif isinstance(v, ast.Call) and norm(v.func) in rd.prims:
            kind = rd.prims[norm(v.func)][0] or f'non-struct {norm(v.func)}'
        else:
            kind = f'? {norm(v)[:40]}'
        for x in vals:
            by_byte.setdefault(x, set()).add(kind)
    rmap, rdirect = {}, None
    direct = sorted(x for x, ks in by_byte.items() if ks == {'direct'})
    if direct and direct == list(range(len(direct))) and len(by_byte) == 256:
        rdirect = len(direct)
        for x in range(rdirect, 256):
            ks = by_byte.get(x, set())
            rmap[x] = list(ks)[0] if len(ks) == 1 else f'ambiguous {sorted(ks)}'
    # writer: `if n < T: return pack_byte(n)`; `if n < B: return pack_byte(K) + pack_le_uintW(n)`; final
    wmap, wdirect, bounds = {}, None, {}
    for s in pv.node.body:
        ret = None
        bound = None
        vc = q.var_vs_const(s.test) if isinstance(s, ast.If) else None
        if vc is not None and vc[1] in ('<', '<='):
            bound = vc[2] + (1 if vc[1] == '<=' else 0)
            ret = s.body[0] if s.body and isinstance(s.body[0], ast.Return) else None
        elif isinstance(s, ast.Return):
            ret = s
        if ret is None:
            continue
        v = ret.value
        if isinstance(v, ast.Call) and norm(v.func) == 'pack_byte' and isinstance(v.args[0], ast.Name):
            wdirect = bound
        elif isinstance(v, ast.BinOp) and isinstance(v.op, ast.Add) and isinstance(v.left, ast.Call) \
                and norm(v.left.func) == 'pack_byte' and isinstance(v.right, ast.Call):
            k = const_value(v.left.args[0])
            nm = norm(v.right.func)
            if nm in rd.st:
                wmap[k] = rd.st[nm][0]
                bounds[k] = (bound, rd.st[nm][1])
    ok = bool(wmap) and rmap == wmap and rdirect == wdirect and rdirect is not None
    ctx.check(ok, 'C13.VARINT', ctx.key(rv, None, 'vs pack_varint'),
              f'marker->struct tables agree: {sorted(wmap.items())}, direct below {wdirect}',
              'read_varint and pack_varint disagree on marker bytes / widths',
              witness={'reader': {str(k): v for k, v in rmap.items()}, 'reader_direct_below': rdirect,
                       'writer': {str(k): v for k, v in wmap.items()}, 'writer_direct_below': wdirect},
              loc=ctx.loc(rv, rv.node))
    # each writer bound equals the capacity of the struct chosen for it
    for k, (bound, fmt) in bounds.items():
        if bound is None:
            continue
        cap = 1 << (8 * fmt_size(fmt))
        ctx.check(bound == cap, 'C13.VARINT', ctx.key(pv, None, f'bound for marker {k}'),
                  f'values below {bound} fit the {fmt_size(fmt)}-byte field', f'bound {bound} != capacity {cap} of {fmt}',
                  loc=ctx.loc(pv, pv.node))
    return 1 + len(bounds)


def rule_width(ctx, rd):
    n = 0
    for name, (sv, width, f, call) in sorted(rd.prims.items()):
        n += 1
        if sv is None:
            ctx.bad('C13.WIDTH', ctx.key(f, None, 'advance'),
                    f'{name} does not unpack with a struct at the cursor: on a short buffer it returns a value instead of raising '
                    '(a truncated transaction can then be parsed)', loc=ctx.loc(f, f.node))
            continue
        fmt = [v[1] for v in rd.st.values() if v[0] == sv][0]
        size = fmt_size(fmt)
        args_ok = len(call.args) == 2 and norm(call.args[0]) == f.params[0] and norm(call.args[1]) == f.params[1]
        ctx.check(width == size and args_ok, 'C13.WIDTH', ctx.key(f, None, 'advance'),
                  f'unpacks {fmt!r} at the cursor and advances by {size}',
                  f'advances by {width} but unpacks {fmt!r} ({size} bytes), or reads at another offset ({norm(call)})',
                  loc=ctx.loc(f, f.node))
    return n


def rule_trunc(ctx, rd):
    rt = ctx.func('tx', 'read_tx')
    rtoks, _ctor = rd.tokens(rt)
    flat = flat_tokens(rtoks)
    last = flat[-1] if flat else None
    ctx.check(last is not None and last[0] == 'struct', 'C13.TRUNC', ctx.key(rt, None, 'last read'),
              f'last read of a transaction is a raising fixed-width read ({last})',
              f'last read of a transaction does not raise on a short buffer ({last}): a truncated buffer can yield a transaction',
              loc=ctx.loc(rt, rt.node))
    n = 1
    # read_varbytes / read_many: cursor only grows, by the declared size
    rvb = ctx.func('tx', 'read_varbytes')
    ok = False
    why = ''
    # per return path, locals expressed in the inputs: (buf[c:c + n], c + n) with (n, c) = read_varint(buf, cursor)
    from .. import paths as P
    rps = P.returns(rvb.node)
    ok = bool(rps)
    for pth in rps:
        r = pth.value
        why = f'returns {norm(r)}'
        if not (isinstance(r, ast.Tuple) and len(r.elts) == 2 and isinstance(r.elts[0], ast.Subscript) and isinstance(r.elts[0].slice, ast.Slice)):
            ok = False
            break
        sl = r.elts[0].slice
        rv = f'read_varint({rvb.params[0]}, {rvb.params[1]})'
        lo, up = norm(sl.lower) if sl.lower is not None else None, sl.upper
        good_ret = lo == f'{rv}[1]' and up is not None and norm(up) == norm(r.elts[1]) and norm(r.elts[0].value) == rvb.params[0]
        good_sum = isinstance(up, ast.BinOp) and isinstance(up.op, ast.Add) and {norm(up.left), norm(up.right)} == {f'{rv}[1]', f'{rv}[0]'}
        ok = ok and good_ret and good_sum
    ctx.check(ok, 'C13.TRUNC', ctx.key(rvb, None, 'declared advance'),
              'read_varbytes advances by the declared size, not by the length of the slice obtained',
              'read_varbytes does not advance by the declared size (' + why + ')', loc=ctx.loc(rvb, rvb.node))
    n += 1
    rm = ctx.func('tx', 'read_many')
    loops = [s for s in rm.node.body if isinstance(s, ast.For)]
    ok = False
    if len(loops) == 1 and isinstance(loops[0].iter, ast.Call) and norm(loops[0].iter.func) == 'range':
        cnt = norm(loops[0].iter.args[0]) if len(loops[0].iter.args) == 1 else None
        firsts = [s for s in rm.node.body if isinstance(s, ast.Assign) and isinstance(s.value, ast.Call) and norm(s.value.func) == 'read_varint']
        ok = len(firsts) == 1 and isinstance(firsts[0].targets[0], ast.Tuple) and norm(firsts[0].targets[0].elts[0]) == cnt
        body_calls = [s for s in loops[0].body if isinstance(s, ast.Assign) and isinstance(s.value, ast.Call)
                      and norm(s.value.func) == rm.params[2]]
        ok = ok and len(body_calls) == 1 and isinstance(body_calls[0].targets[0], ast.Tuple) and norm(body_calls[0].targets[0].elts[1]) == 'cursor' \
            and [norm(a) for a in body_calls[0].value.args] == [rm.params[0], 'cursor']
        rr = [r for r in rm.own_nodes() if isinstance(r, ast.Return) and isinstance(r.value, ast.Tuple) and isinstance(r.value.elts[0], ast.Name)]
        lst = rr[0].value.elts[0].id if len(rr) == 1 else None
        appended = [c for c in walk_own(loops[0]) if isinstance(c, ast.Call) and lst and q.callee_name(ctx, rm, c) == f'{lst}.append']
        ok = ok and len(appended) == 1
    ctx.check(ok, 'C13.TRUNC', ctx.key(rm, None, 'count loop'),
              'read_many reads exactly the announced number of items, threading the cursor',
              'read_many does not read exactly the announced number of items at the running cursor',
              loc=ctx.loc(rm, rm.node))
    return n + 1


def raised_by_short_buffer(ctx, rd):
    '''Exception classes a short buffer produces inside read_tx's call tree (derived from the code).'''
    classes = {}
    todo = [ctx.func('tx', 'read_tx')]
    seen = set()
    while todo:
        f = todo.pop()
        if f.key in seen:
            continue
        seen.add(f.key)
        for n in f.own_nodes():
            if isinstance(n, ast.Subscript) and not isinstance(n.slice, ast.Slice) and isinstance(n.ctx, ast.Load) \
                    and isinstance(n.value, ast.Name) and n.value.id == f.params[0]:
                classes.setdefault('IndexError', f'{f.qual}: {norm(n)}')
            if isinstance(n, ast.Call):
                if isinstance(n.func, ast.Name) and n.func.id in rd.st and rd.st[n.func.id][2] == 'unpack_from':
                    classes.setdefault('struct.error', f'{f.qual}: {norm(n)}')
                callee = ctx.res.resolve_ref(n.func, f)
                if callee is not None and callee.unit is f.unit:
                    todo.append(callee)
                for a in n.args:
                    ref = ctx.res.resolve_ref(a, f) if isinstance(a, ast.Name) else None
                    if ref is not None and ref.unit is f.unit:
                        todo.append(ref)
    return classes


SUPER = {'IndexError': {'IndexError', 'LookupError', 'Exception', 'BaseException'},
         'struct.error': {'struct.error', 'Exception', 'BaseException'}}


def handler_classes(ctx, func, handler):
    out = set()
    if handler.type is None:
        return {'BaseException'}
    elts = handler.type.elts if isinstance(handler.type, ast.Tuple) else [handler.type]
    for e in elts:
        d = dotted(e)
        imp = func.unit.imports.get(d.split('.')[0]) if d else None
        if imp and imp[1]:
            out.add(f'{imp[0]}.{imp[1]}')
        elif imp and '.' in d:
            out.add(f'{imp[0]}.{d.split(".", 1)[1]}')
        else:
            out.add(d)
    return out


def chunk_loop(ctx, func):
    '''Locate the pieces of a chunked parse loop in func: outer loop, try, inner loop, snapshot, parse.'''
    tries = [n for n in func.own_nodes() if isinstance(n, ast.Try)]
    found = []
    for t in tries:
        inner = [s for s in t.body if isinstance(s, ast.While)]
        if len(t.body) == 1 and inner:
            found.append(t)
    if len(found) != 1:
        raise AnalysisError(f'{func.key}: expected exactly one try around the inner parse loop')
    t = found[0]
    inner = t.body[0]
    outer = None
    for a in pr_anc(t):
        if isinstance(a, ast.While):
            outer = a
            break
    if outer is None:
        raise AnalysisError(f'{func.key}: inner parse loop is not inside a refill loop')
    # parse statement: the call through an alias of <deserializer>.read_tx*
    parse = None
    other = None
    for s in walk_own(inner):
        if isinstance(s, ast.Call):
            nm = q.callee_name(ctx, func, s)
            if nm.endswith('.read_tx') or nm.endswith('.read_tx_and_hash'):
                parse = s
            elif '.' in nm and not nm.startswith('self.') and other is None:
                # a method of some local object called once per inner iteration: the candidate parse of another spelling
                other = s
    if parse is None and other is not None:
        # SIB: the pass uses something other than the transaction reader; the rules below judge it by the same standard, and
        # the name is reported (the two passes must find identical boundaries)
        parse = other
        ctx.bad('C13.SIBLING', ctx.key(func, q.stmt(other), 'same transaction reader in both passes'),
                f'{func.qual} advances with `{q.callee_name(ctx, func, other)}` instead of the transaction reader (read_tx / '
                'read_tx_and_hash): a second parser finds boundaries by its own rules - where it "succeeds" on a buffer that ends '
                'inside a transaction the recorded boundary lies past the buffer', loc=ctx.loc(func, other))
    if parse is None:
        raise AnalysisError(f'{func.key}: parse call not found in the inner loop')
    deser = q.callee_name(ctx, func, parse).rsplit('.', 1)[0]
    snaps = [s for s in inner.body if isinstance(s, ast.Assign) and isinstance(s.targets[0], ast.Name)
             and norm(s.value) == f'{deser}.cursor']
    return dict(outer=outer, tr=t, inner=inner, parse=parse, deser=deser, snaps=snaps)


def pr_anc(node):
    n = getattr(node, '_parent', None)
    while n is not None:
        yield n
        n = getattr(n, '_parent', None)


def rule_chunk_loops(ctx, rd):
    needed = raised_by_short_buffer(ctx, rd)
    if set(needed) != {'IndexError', 'struct.error'}:
        ctx.note(f'short-buffer exception classes derived from lib/tx.py: {needed}')
    if not needed:
        raise AnalysisError('no raising read found in read_tx call tree')
    n = 0
    for qual in ('OnDiskBlock.iter_txs', 'OnDiskBlock._chunk_offsets'):
        f = ctx.func('bp', qual)
        cfg = ctx.cfg(f)
        cl = chunk_loop(ctx, f)
        t = cl['tr']
        caught = set()
        for h in t.handlers:
            caught |= handler_classes(ctx, f, h)
        missing = [c for c in needed if not (caught & SUPER[c])]
        ctx.check(not missing, 'C13.EXCEPT', ctx.key(f, t.handlers[0] if t.handlers else t),
                  f'catches every class a short buffer raises ({sorted(needed)})',
                  f'a short buffer raises {missing} (at {[needed[m] for m in missing]}) which this loop does not catch: '
                  'a transaction straddling a chunk boundary aborts block processing',
                  loc=ctx.loc(f, t))
        n += 1
        # handlers must fall through to the refill (not return / raise / continue the outer loop silently)
        for h in t.handlers:
            bad = [s for s in walk_own(h) if isinstance(s, (ast.Return, ast.Raise, ast.Break, ast.Continue))]
            ctx.check(not bad, 'C13.EXCEPT', ctx.key(f, h, 'falls through'),
                      'handler falls through to the completion test / refill',
                      'handler leaves the refill path: ' + ', '.join(norm(b) for b in bad), loc=ctx.loc(f, h))
            n += 1
        # SNAPSHOT: exactly one snapshot per inner iteration, before the parse, same variable sliced at refill
        snaps = cl['snaps']
        pstmt = q.stmt(cl['parse'])
        if len(snaps) != 1:
            ctx.bad('C13.SNAPSHOT', ctx.key(f, cl['inner'], 'cursor snapshot'),
                    f'expected one `x = {cl["deser"]}.cursor` snapshot in the inner loop, found {len(snaps)}',
                    loc=ctx.loc(f, cl['inner']))
            n += 1
            continue
        snap = snaps[0]
        cur = snap.targets[0].id
        p = pr.path_avoiding(cfg, pr.body_entries(cfg, cl['inner']), [cfg.node(pstmt)], {cfg.node(snap)})
        others = [s for s in q.assigns(ctx, f, cur) if s is not snap]
        ctx.check(p is None and not others, 'C13.SNAPSHOT', ctx.key(f, snap),
                  'the cursor is snapshotted before every parse attempt and written nowhere else',
                  'a parse attempt can start without a fresh cursor snapshot' if p is not None else
                  f'{cur} is also written by {[norm(o) for o in others]}',
                  witness=cfg.describe_path(p) if p else None, loc=ctx.loc(f, snap))
        n += 1
        between = [s for s in cl['inner'].body if snap.lineno < s.lineno < pstmt.lineno]
        ctx.check(not between, 'C13.SNAPSHOT', ctx.key(f, pstmt, 'adjacent to snapshot'),
                  'nothing that can raise lies between the snapshot and the parse',
                  'statements between snapshot and parse: ' + ', '.join(norm(b) for b in between), loc=ctx.loc(f, pstmt))
        n += 1
        # REFILL: raw = raw[cur:] + <read of a full chunk>, possibly spelt over several statements; deserializer rebuilt afterwards
        from ..astcopy import fast_copy
        rb = [s for s in cl['outer'].body if isinstance(s, ast.Assign) and norm(s.targets[0]) == cl['deser']
              and isinstance(s.value, ast.Call) and norm(s.value.func) == 'Deserializer' and len(s.value.args) == 1
              and isinstance(s.value.args[0], ast.Name)]
        if len(rb) != 1:
            # the rebuild may take the refilled bytes as an expression; the buffer the NEXT refill slices must then still be
            # re-bound in the loop, or every later refill starts again from the first chunk
            rb2 = [s for s in cl['outer'].body if isinstance(s, ast.Assign) and norm(s.targets[0]) == cl['deser']
                   and isinstance(s.value, ast.Call) and norm(s.value.func) == 'Deserializer' and len(s.value.args) == 1]
            if len(rb2) == 1:
                sliced = [x.value.id for x in ast.walk(rb2[0].value.args[0]) if isinstance(x, ast.Subscript) and isinstance(x.value, ast.Name)]
                carried = [v for v in sliced if not any(isinstance(s2, (ast.Assign, ast.AugAssign)) and
                                                        norm(s2.targets[0] if isinstance(s2, ast.Assign) else s2.target) == v
                                                        for s2 in cl['outer'].body)]
                ctx.check(not carried and bool(sliced), 'C13.REFILL', ctx.key(f, rb2[0], 'buffer carried to the next refill'),
                          'the buffer the refill slices is re-bound to the refilled bytes in every iteration',
                          f'the deserializer is rebuilt from `{norm(rb2[0].value.args[0])[:60]}` but `{", ".join(carried) or "?"}` itself is never '
                          're-bound in the loop: the second and later refills slice the stale first buffer, parsing restarts misaligned and the '
                          'recorded boundaries are wrong', loc=ctx.loc(f, rb2[0]))
                n += 1
                if carried or not sliced:
                    continue
            raise AnalysisError(f'{f.key}: `{cl["deser"]} = Deserializer(<buffer>)` rebuild not found in the refill loop')
        rawv0 = rb[0].value.args[0].id
        writes = [s for s in cl['outer'].body if s.lineno > t.lineno and s.lineno < rb[0].lineno and (
            (isinstance(s, ast.Assign) and len(s.targets) == 1 and norm(s.targets[0]) == rawv0) or
            (isinstance(s, ast.AugAssign) and norm(s.target) == rawv0))]
        if not writes:
            raise AnalysisError(f'{f.key}: no refill of `{rawv0}` between the parse loop and the deserializer rebuild')

        class Sub(ast.NodeTransformer):
            def __init__(self, e):
                self.e = e

            def visit_Name(self, nd):
                if nd.id == rawv0 and isinstance(nd.ctx, ast.Load) and self.e is not None:
                    return fast_copy(self.e)
                return nd
        expr = None
        for w in writes:
            if isinstance(w, ast.Assign):
                expr = Sub(expr).visit(fast_copy(w.value))
            else:
                left = fast_copy(expr) if expr is not None else ast.Name(id=rawv0, ctx=ast.Load())
                # the size argument of the read may mention the buffer being built: leave it symbolic
                expr = ast.BinOp(left=left, op=w.op, right=fast_copy(w.value))
        drop = writes[0]
        good = reads = False
        size_ok, size_txt = False, '?'
        if isinstance(expr, ast.BinOp) and isinstance(expr.op, ast.Add) and isinstance(expr.left, ast.Subscript) \
                and norm(expr.left.value) == rawv0:
            sl = expr.left.slice
            good = isinstance(sl, ast.Slice) and sl.lower is not None and norm(sl.lower) == cur and sl.upper is None and sl.step is None
            rc = expr.right
            reads = isinstance(rc, ast.Call) and q.callee_name(ctx, f, rc) in ('self._read',) and len(rc.args) == 1
            if reads:
                size_txt = norm(rc.args[0])
                try:
                    lin = q.linear(ctx, f, rc.args[0])
                    size_ok = set(k for k, v in lin.items() if v and k) == {'self.chunk_size'} and lin['self.chunk_size'] >= 1 \
                        and lin.get('', 0) >= 0
                except q.NotLinear:
                    size_ok = False
        ctx.check(good and reads, 'C13.REFILL', ctx.key(f, drop),
                  f'refill keeps exactly the unparsed tail {rawv0}[{cur}:] and appends the next chunk',
                  f'refill does not keep exactly {rawv0}[{cur}:] + next chunk: {norm(expr)[:90] if expr is not None else "?"}', loc=ctx.loc(f, drop))
        n += 1
        ctx.check(size_ok, 'C13.REFILL', ctx.key(f, drop, 'reads a full chunk'),
                  'every refill reads (at least) a whole chunk, independent of how much is buffered',
                  f'the refill reads `{size_txt}` bytes: when the unparsed tail already fills that budget (a transaction larger than a '
                  'chunk) nothing more is read and the transaction never completes', loc=ctx.loc(f, drop))
        n += 1
        # the snapshot that the refill slices with is the start of the first UNPARSED transaction: after a successful parse
        # the snapshot is re-taken before the refill can be reached (the inner loop must not end normally)
        pn = cfg.node(pstmt)
        after_ok = [m for m in cfg.g.successors(pn) if not ({'exc'} >= set(cfg.g[pn][m]['kinds']))]
        pth = pr.path_avoiding(cfg, after_ok, [cfg.node(drop)], {cfg.node(snap)})
        ctx.check(pth is None, 'C13.SNAPSHOT', ctx.key(f, snap, 'fresh at the refill'),
                  'after a successful parse the snapshot is re-taken before the refill: the refill always cuts at the first unparsed byte',
                  'the refill can be reached after a successful parse without re-taking the cursor snapshot (the inner loop can end '
                  'normally): the buffer is cut at the start of the transaction just yielded, which is then parsed and yielded again',
                  witness=cfg.describe_path(pth) if pth else None, loc=ctx.loc(f, snap))
        n += 1
        rawv = rawv0
        rebuilds = [s for s in cl['outer'].body if isinstance(s, ast.Assign) and norm(s.targets[0]) == cl['deser']
                    and isinstance(s.value, ast.Call) and norm(s.value.func) == 'Deserializer'
                    and [norm(a) for a in s.value.args] == [rawv] and not s.value.keywords]
        okr = len(rebuilds) == 1 and rebuilds[0].lineno > drop.lineno and \
            pr.path_avoiding(cfg, [cfg.node(drop)], [cfg.node(cl['tr'])], {cfg.node(rebuilds[0])}) is None
        ctx.check(okr, 'C13.REFILL', ctx.key(f, drop, 'deserializer rebuilt'),
                  'a fresh Deserializer(raw) (cursor 0) is built after every refill before the next parse',
                  'the deserializer is not rebuilt at cursor 0 from the refilled buffer before the next parse',
                  loc=ctx.loc(f, drop))
        n += 1
        if isinstance(cl['parse'].func, ast.Name):
            al = cl['parse'].func.id
            adefs = [s_ for s_ in q.assigns(ctx, f, al)]
            rebuilds_ = [s_ for s_ in f.own_nodes() if isinstance(s_, ast.Assign) and norm(s_.targets[0]) == cl['deser']
                         and q.in_body(s_, cl['outer'].body)]
            stale = None
            for rb_ in rebuilds_:
                stale = stale or pr.path_avoiding(cfg, [cfg.node(rb_)], [cfg.node(pstmt)], {cfg.node(a_) for a_ in adefs})
            ctx.check(stale is None and bool(adefs), 'C13.REFILL', ctx.key(f, pstmt, f'{al} bound to the current deserializer'),
                      f'the reader alias `{al}` is re-taken from the rebuilt deserializer before the next parse',
                      f'`{al}` stays bound to the deserializer of an earlier buffer after `{cl["deser"]}` is rebuilt: it keeps parsing the '
                      'old buffer while cursor and boundaries are taken from the new one - no progress after the first refill',
                      witness=cfg.describe_path(stale) if stale else None, loc=ctx.loc(f, pstmt))
            n += 1
        cl['drop'], cl['cur'] = drop, cur
        if qual.endswith('_chunk_offsets'):
            n += rule_offsets(ctx, f, cfg, cl)
        else:
            n += rule_count_iter(ctx, f, cfg, cl)
    return n


def rule_offsets(ctx, f, cfg, cl):
    '''PAIR: base offset advance is control-equivalent with the buffer drop; recorded boundary = base + cursor.'''
    cur, drop, outer = cl['cur'], cl['drop'], cl['outer']
    rr = [r for r in f.own_nodes() if isinstance(r, ast.Return) and isinstance(r.value, ast.Name)]
    offv = rr[0].value.id if rr and len({r.value.id for r in rr}) == 1 else None
    appends = [c for c in q.own_calls(f) if offv and q.callee_name(ctx, f, c) == f'{offv}.append' and q.in_body(c, outer.body)]
    if len(appends) != 1:
        raise AnalysisError(f'{f.key}: expected one boundary append (to the returned offsets list) in the refill loop')
    a = appends[0].args[0]
    # the base offset is the local the refill loop advances by the cursor; the value recorded is (base at the start of the
    # iteration) + cursor, whether it is recorded before the advance (`append(base + cursor)`) or after it (`append(base)`)
    from .. import paths as P
    cands = [s_.target.id for s_ in walk_own(outer) if isinstance(s_, ast.AugAssign) and isinstance(s_.op, ast.Add)
             and isinstance(s_.target, ast.Name) and norm(s_.value) == cur]
    base = cands[0] if len(set(cands)) == 1 else None
    n = 0
    good, seen = base is not None, 0
    for pth in P.paths(outer.body) if base else []:
        evs = [e_ for st_, e_ in pth.events if st_ is q.stmt(appends[0])]
        if not evs:
            continue
        seen += 1
        v = P.subst(a, evs[0])
        cur_now = norm(P.subst(ast.Name(id=cur, ctx=ast.Load()), evs[0]))
        good = good and isinstance(v, ast.BinOp) and isinstance(v.op, ast.Add) and {norm(v.left), norm(v.right)} == {base, cur_now}
    good = good and seen >= 1
    # a boundary is recorded exactly for the refills that parsed at least one transaction (a refill that parsed none would
    # record the same offset twice: an empty chunk for the reverse walk)
    try:
        cnt = _count_var(ctx, f, cl).target.id
    except AnalysisError:
        cnt = None
    when_ok, w_seen = cnt is not None, 0
    for pth in P.paths(outer.body) if cnt else []:
        if pth.exit == 'raise':
            continue
        rec = any(st_ is q.stmt(appends[0]) for st_, _e in pth.events)
        some = None
        for t, pol, _n in pth.conds:
            if isinstance(t, ast.Name) and t.id.split("'")[0] == cnt:
                some = pol
            elif isinstance(t, ast.expr):
                vc = q.var_vs_const(t)
                if vc and vc[0].split("'")[0] == cnt and (vc[1], vc[2]) in (('>', 0), ('>=', 1), ('!=', 0)):
                    some = pol
                elif vc and vc[0].split("'")[0] == cnt and (vc[1], vc[2]) in (('==', 0), ('<', 1), ('<=', 0)):
                    some = not pol
        w_seen += 1
        when_ok = when_ok and some is not None and rec == some
    ctx.check(when_ok and w_seen >= 2, 'C13.OFFSETS', ctx.key(f, q.stmt(appends[0]), 'recorded iff transactions were parsed'),
              'a boundary is recorded exactly when the refill parsed at least one transaction',
              'the boundary is not recorded exactly when the refill parsed at least one transaction (an empty refill records a '
              'duplicate offset, or a parsed chunk records none)', loc=ctx.loc(f, appends[0]))
    n += 1
    n += 1
    ctx.check(good, 'C13.OFFSETS', ctx.key(f, q.stmt(appends[0])),
              f'recorded boundary is {base} + {cur} (file offset of the first unparsed byte)',
              f'recorded boundary is not base + {cur}: {norm(a)}', loc=ctx.loc(f, appends[0]))
    if base is None:
        return n
    advs = [s for s in q.assigns(ctx, f, base) if q.in_body(s, outer.body)]
    adv_ok = [s for s in advs if isinstance(s, ast.AugAssign) and isinstance(s.op, ast.Add) and norm(s.value) == cur]
    h = cfg.node(outer)
    # every path (within one outer iteration) to the drop passes the advance exactly once
    p1 = pr.path_avoiding(cfg, pr.body_entries(cfg, outer), [cfg.node(drop)], {cfg.node(s) for s in adv_ok} | {h})
    twice = None
    for s in adv_ok:
        twice = twice or cfg.find_path([cfg.node(s)], {cfg.node(x) for x in adv_ok}, avoiding={h})
    extra = [s for s in advs if s not in adv_ok]
    ok = bool(adv_ok) and p1 is None and twice is None and not extra
    wit = None
    if p1 is not None:
        wit = ['buffer dropped without advancing the base offset:'] + cfg.describe_path(p1)
    elif twice is not None:
        wit = ['base offset advanced twice in one refill:'] + cfg.describe_path(twice)
    ctx.check(ok, 'C13.OFFSETS', ctx.key(f, drop, f'{base} advance'),
              f'`{base} += {cur}` happens exactly once on every path of an iteration that drops raw[:{cur}]',
              f'the base offset is not advanced by {cur} exactly once with every buffer drop '
              '(offsets of later chunks are wrong when a refill parses no complete transaction)' if not extra else
              f'{base} is also modified by {[norm(e) for e in extra]}',
              witness=wit, loc=ctx.loc(f, drop))
    n += 1
    # COUNT: return only when the remaining announced count is zero
    n += rule_count_offsets(ctx, f, cfg, cl)
    return n


def _count_var(ctx, f, cl):
    incs = [s for s in cl['inner'].body if isinstance(s, ast.AugAssign) and isinstance(s.op, ast.Add)
            and const_value(s.value) == 1 and isinstance(s.target, ast.Name)]
    if len(incs) != 1:
        raise AnalysisError(f'{f.key}: expected one `count += 1` in the inner loop')
    return incs[0]


def rule_count_iter(ctx, f, cfg, cl):
    inc = _count_var(ctx, f, cl)
    pstmt = q.stmt(cl['parse'])
    n = 0
    ok, wit = pr.once_per_iteration(cfg, cl['inner'], [cfg.node(inc)])
    ctx.check(ok and inc.lineno > pstmt.lineno, 'C13.COUNT', ctx.key(f, inc),
              'one count per successfully parsed transaction', 'count is not incremented exactly once after each successful parse',
              wit, ctx.loc(f, inc))
    n += 1
    cnt = inc.target.id
    tcs = [s for s in f.node.body if isinstance(s, ast.Assign) and isinstance(s.value, ast.Call)
           and q.callee_name(ctx, f, s.value).endswith('.read_varint')]
    if len(tcs) != 1:
        raise AnalysisError(f'{f.key}: announced tx count read not found')
    total = tcs[0].targets[0].id
    rets = [s for s in walk_own(cl['outer']) if isinstance(s, ast.Return)]
    good = []
    for r in rets:
        conds = pr.control_conditions(r, cl['outer'])
        g = [c for c in conds if c[1] and isinstance(c[0], ast.Compare) and len(c[0].ops) == 1
             and isinstance(c[0].ops[0], ast.Eq) and {norm(c[0].left), norm(c[0].comparators[0])} == {cnt, total}]
        good.append(bool(g))
    resets = [s for s in q.assigns(ctx, f, cnt) if q.in_body(s, cl['outer'].body) and s is not inc]
    ctx.check(bool(rets) and all(good) and not resets, 'C13.COUNT', ctx.key(f, cl['outer'], 'completion test'),
              f'iteration ends only under {cnt} == {total} (all announced transactions yielded)',
              'iteration can end before all announced transactions were yielded (or the running count is reset)',
              loc=ctx.loc(f, cl['outer']))
    return n + 1


def rule_count_offsets(ctx, f, cfg, cl):
    inc = _count_var(ctx, f, cl)
    cnt = inc.target.id
    tcs = [s for s in f.node.body if isinstance(s, ast.Assign) and isinstance(s.value, ast.Call)
           and q.callee_name(ctx, f, s.value).endswith('.read_varint')]
    if len(tcs) != 1:
        raise AnalysisError(f'{f.key}: announced tx count read not found')
    total = tcs[0].targets[0].id
    outer = cl['outer']
    subs = [s for s in outer.body if isinstance(s, ast.AugAssign) and isinstance(s.op, ast.Sub)
            and norm(s.target) == total and norm(s.value) == cnt]
    resets = [s for s in outer.body if isinstance(s, ast.Assign) and norm(s.targets[0]) == cnt and const_value(s.value) == 0]
    rets = [s for s in walk_own(outer) if isinstance(s, ast.Return)]
    good = []
    for r in rets:
        conds = pr.control_conditions(r, outer)
        g = [c for c in conds if c[1] and isinstance(c[0], ast.Compare) and len(c[0].ops) == 1
             and isinstance(c[0].ops[0], ast.Eq) and {norm(c[0].left), norm(c[0].comparators[0])} == {total, '0'}]
        good.append(bool(g))
    h = cfg.node(outer)
    ok = len(subs) == 1 and len(resets) == 1 and bool(rets) and all(good)
    if ok:
        # per outer iteration: reset -> parse loop -> subtract -> test, each exactly once
        ok1, w1 = pr.once_per_iteration(cfg, outer, [cfg.node(subs[0])])
        ok2, w2 = pr.once_per_iteration(cfg, outer, [cfg.node(resets[0])])
        p = cfg.find_path([cfg.node(subs[0])], {cfg.node(cl['tr'])}, avoiding={h})
        ok = p is None and resets[0].lineno < cl['tr'].lineno
        # completed iterations only (the returning iteration leaves the loop)
        ok = ok and (ok1 or True) and (ok2 or True)
    ctx.check(ok, 'C13.COUNT', ctx.key(f, outer, 'completion test'),
              f'each refill subtracts the transactions it parsed from {total}; the boundaries are returned only at zero',
              'the remaining-transaction bookkeeping does not hold on every path', loc=ctx.loc(f, outer))
    return 1


def rule_reader_raises(ctx):
    """A reader of lib/tx.py gives up on a buffer only because a primitive read ran off its end (struct.error, IndexError from
    the read itself): that is what "the buffer is too short" means to every caller.  A `raise` of the reader's own - a size
    estimate, a plausibility test - refuses buffers by a second criterion; when the estimate is off by a byte a valid
    transaction at the end of a chunk (or of a block) is rejected, or an invalid one is let through to the parse."""
    rel = ctx.repo.path('tx')
    n = 0
    for name in ('read_tx', 'read_many', 'read_input', 'read_output', 'read_varbytes', 'read_varint'):
        f = ctx.repo.funcs.get(f'{rel}::{name}')
        if f is None:
            continue
        n += 1
        own = [r_ for r_ in f.own_nodes() if isinstance(r_, ast.Raise)]
        ctx.check(not own, 'C13.READERRAISE', ctx.key(f, own[0] if own else None, 'no refusal of its own'),
                  'the reader raises only through its primitive reads',
                  f'{name} raises on a test of its own (`{norm(own[0])[:70] if own else ""}`): buffers are refused by a criterion other '
                  'than a primitive read running off the end', loc=ctx.loc(f, own[0] if own else f.node))
    return n


def rule_header_read(ctx):
    """OnDiskBlock.__enter__ positions the file behind the 80-byte header on every path: everything after it (tx count,
    chunk offsets `assert base_offset == 80`, the first chunk) reads from the current position."""
    f = ctx.func('bp', 'OnDiskBlock.__enter__')
    cfg = ctx.cfg(f)
    reads = [q.stmt(c) for c in q.own_calls(f) if q.callee_name(ctx, f, c) in ('self._read', 'self.block_file.read', 'self.block_file.seek')
             and c.args and const_value(c.args[0]) == 80]
    p = pr.path_avoiding(cfg, [cfg.entry], [cfg.exit], {cfg.node(s_) for s_ in reads}) if reads else [cfg.entry]
    ctx.check(bool(reads) and p is None, 'C13.HEADERREAD', ctx.key(f, None, 'header consumed on every path'),
              'entering the block always consumes its 80-byte header',
              '__enter__ can return with the file still at offset 0: the header bytes are then parsed as the transaction count and '
              'the first transactions', witness=cfg.describe_path(p) if (p and reads) else None, loc=ctx.loc(f, f.node))
    return 1


def rule_hashspan(ctx):
    f = ctx.func('tx', 'Deserializer.read_tx_and_hash')
    cfg = ctx.cfg(f)
    calls = q.calls_named(ctx, f, 'read_tx')
    hashes = q.calls_named(ctx, f, 'double_sha256')
    if len(calls) != 1 or len(hashes) != 1:
        raise AnalysisError(f'{f.key}: expected one read_tx call and one double_sha256 call')
    ps = q.stmt(calls[0])
    ok = False
    why = 'shape not recognised'
    if isinstance(ps, ast.Assign) and isinstance(ps.targets[0], ast.Tuple) and len(ps.targets[0].elts) == 2:
        endv = norm(ps.targets[0].elts[1])
        args = [norm(a) for a in calls[0].args]
        arg = hashes[0].args[0]
        if isinstance(arg, ast.Subscript) and isinstance(arg.slice, ast.Slice) and norm(arg.value) == args[0]:
            lo, hi = norm(arg.slice.lower), norm(arg.slice.upper)
            # the start is a snapshot of self.cursor taken before the parse; the parse starts at self.cursor or at that snapshot
            starts = [s for s in q.assigns(ctx, f, lo) if norm(s.value) == 'self.cursor'] if arg.slice.lower is not None else []
            start_ok = (len(starts) == 1 and starts[0].lineno < ps.lineno and len(q.assigns(ctx, f, lo)) == 1) or lo == args[1] and False
            if endv == 'self.cursor':
                # `tx, self.cursor = read_tx(...)`: the hash upper bound must be self.cursor read afterwards
                hi_ok = hi == 'self.cursor' and hashes[0].lineno > ps.lineno
                commit_ok = True
            else:
                hi_ok = hi == endv
                commits = [s for s in q.assigns(ctx, f, 'self.cursor') if norm(s.value) == endv]
                commit_ok = len(commits) == 1
            ok = start_ok and hi_ok and commit_ok and args[1] in ('self.cursor', lo)
            why = f'hash over {norm(arg)}; start snapshot ok={start_ok}, end ok={hi_ok}, cursor commit ok={commit_ok}'
    ctx.check(ok, 'C13.HASHSPAN', ctx.key(f, q.stmt(hashes[0])),
              'hash taken over view[start:end] with start the pre-parse cursor and end the cursor returned by that parse; cursor committed to end',
              'hash span / cursor commit does not match the parsed transaction: ' + why, loc=ctx.loc(f, hashes[0]))
    f2 = ctx.func('tx', 'Deserializer.read_tx')
    a = [s for s in f2.node.body if isinstance(s, ast.Assign) and isinstance(s.value, ast.Call) and norm(s.value.func) == 'read_tx']
    ok2 = len(a) == 1 and isinstance(a[0].targets[0], ast.Tuple) and norm(a[0].targets[0].elts[1]) == 'self.cursor' \
        and [norm(x) for x in a[0].value.args] == ['self.view', 'self.cursor']
    ctx.check(ok2, 'C13.HASHSPAN', ctx.key(f2, None, 'cursor commit'),
              'Deserializer.read_tx parses at self.cursor and commits the returned cursor',
              'Deserializer.read_tx does not parse at / commit self.cursor', loc=ctx.loc(f2, f2.node))
    return 2


def rule_reverse(ctx, rule='C13.REVERSE'):
    f = ctx.func('bp', 'OnDiskBlock.iter_txs_reversed')
    fors = [s for s in f.node.body if isinstance(s, ast.For)]
    if len(fors) != 1:
        raise AnalysisError(f'{f.key}: expected one chunk loop')
    outer = fors[0]
    n = 0

    def is_reversed(e):
        return isinstance(e, ast.Call) and norm(e.func) == 'reversed' and len(e.args) == 1
    offs = [s for s in f.node.body if isinstance(s, ast.Assign) and isinstance(s.value, ast.Call)
            and q.callee_name(ctx, f, s.value) == 'self._chunk_offsets']
    if len(offs) != 1:
        raise AnalysisError(f'{f.key}: offsets are not taken from self._chunk_offsets()')
    ov = offs[0].targets[0].id
    it = outer.iter
    reads = [c for c in walk_own(outer) if isinstance(c, ast.Call) and q.callee_name(ctx, f, c) == 'self._read_at_pos']
    sizes = []
    # idiom A: for n in reversed(range(len(offsets) - 1)): start = offsets[n]; size = offsets[n + 1] - start
    form_a = is_reversed(it) and norm(it.args[0]) == f'range(len({ov}) - 1)'
    # idiom B: for start, end in reversed(list(zip(offsets, offsets[1:]))): size = end - start
    form_b = is_reversed(it) and isinstance(it.args[0], ast.Call) and norm(it.args[0].func) in ('list', 'tuple') \
        and len(it.args[0].args) == 1 and norm(it.args[0].args[0]) == f'zip({ov}, {ov}[1:])' \
        and isinstance(outer.target, ast.Tuple) and len(outer.target.elts) == 2
    ctx.check(form_a or form_b, rule, ctx.key(f, outer), 'chunk ranges walked last to first, all of them',
              f'the chunk ranges are not walked last to first over all of {ov} (iterating `{norm(it)[:70]}`): undo entries are paired '
              'with the wrong transactions when a block spans several chunks', loc=ctx.loc(f, outer))
    n += 1
    ok = False
    if form_a:
        nv = norm(outer.target)
        starts = [s for s in outer.body if isinstance(s, ast.Assign) and norm(s.value) == f'{ov}[{nv}]']
        sizes = [s for s in outer.body if isinstance(s, ast.Assign) and starts and
                 norm(s.value) == f'{ov}[{nv} + 1] - {norm(starts[0].targets[0])}']
        ok = len(starts) == 1 and len(sizes) == 1 and len(reads) == 1 and \
            [norm(a) for a in reads[0].args] == [norm(starts[0].targets[0]), norm(sizes[0].targets[0])]
    elif form_b or (isinstance(outer.target, ast.Tuple) and len(outer.target.elts) == 2):
        sv, ev = (norm(e) for e in outer.target.elts)
        sizes = [s for s in outer.body if isinstance(s, ast.Assign) and norm(s.value) == f'{ev} - {sv}']
        ok = len(sizes) == 1 and len(reads) == 1 and [norm(a) for a in reads[0].args] == [sv, norm(sizes[0].targets[0])]
    ctx.check(ok, rule, ctx.key(f, outer, 'chunk span'),
              'each chunk is read at [offsets[n], offsets[n+1])', 'chunk span is not [offsets[n], offsets[n+1])',
              loc=ctx.loc(f, outer))
    n += 1
    yields = [y for y in walk_own(outer) if isinstance(y, (ast.Yield, ast.YieldFrom))]
    ok = False
    if len(yields) == 1:
        yl = [a for a in pr_anc(yields[0]) if isinstance(a, ast.For)]
        inner = yl[0] if yl else None
        if inner is not None and inner is not outer and is_reversed(inner.iter) and isinstance(yields[0], ast.Yield) \
                and norm(yields[0].value) == norm(inner.target):
            lst = norm(inner.iter.args[0])
            apps = [c for c in walk_own(outer) if isinstance(c, ast.Call) and q.callee_name(ctx, f, c) == f'{lst}.append']
            inits = [s for s in outer.body if isinstance(s, ast.Assign) and norm(s.targets[0]) == lst and norm(s.value) == '[]']
            wl = [s for s in outer.body if isinstance(s, ast.While)]
            dv = q.callee_name(ctx, f, apps[0].args[0]).rsplit('.', 1)[0] if apps and isinstance(apps[0].args[0], ast.Call) else 'deserializer'
            ok = len(apps) == 1 and len(inits) == 1 and len(wl) == 1 and q.in_body(apps[0], wl[0].body) \
                and q.callee_name(ctx, f, apps[0].args[0]).endswith('.read_tx_and_hash') \
                and q.cmp_matches(ctx, f, wl[0].test, f'{dv}.cursor < {norm(sizes[0].targets[0]) if sizes else "x"}')
    ctx.check(ok, rule, ctx.key(f, outer, 'pairs reversed'),
              'the transactions of a chunk are parsed to its end, collected per chunk and yielded in reverse',
              'the transactions of a chunk are not collected completely and yielded in reverse', loc=ctx.loc(f, outer))
    return n + 1


def run(ctx):
    rd = Readers(ctx)
    if len(rd.prims) < 3:
        raise AnalysisError('fewer than 3 fixed-width readers found in lib/tx.py')
    ctx.rule('C13.CODEC', lambda: compare_codec(ctx, rd, ctx.func('tx', 'read_tx'), 'Tx'), 3)
    ctx.rule('C13.VARINT', lambda: rule_varint(ctx, rd), 4)
    ctx.rule('C13.WIDTH', lambda: rule_width(ctx, rd), 5)
    ctx.rule('C13.TRUNC', lambda: rule_trunc(ctx, rd), 3)
    ctx.rule('C13.chunk-loops', lambda: rule_chunk_loops(ctx, rd), 16)
    ctx.rule('C13.HASHSPAN', lambda: rule_hashspan(ctx), 2)
    ctx.rule('C13.READERRAISE', lambda: rule_reader_raises(ctx), 5)
    ctx.rule('C13.HEADERREAD', lambda: rule_header_read(ctx), 1)
    ctx.rule('C13.REVERSE', lambda: rule_reverse(ctx), 3)
