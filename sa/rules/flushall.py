'''FLUSHALL - a requested flush really flushes (shared by C01, C04, C06).

A flush request may return without committing only when nothing is pending, and the only test in the code that
establishes "nothing pending" is that the in-memory height equals the height of the committed UTXO state
(DB.state.height).  Every other way out of BlockProcessor.flush / DB.flush_dbs before the commit points leaves
cached blocks, UTXO adds or deletes in memory while the caller (catch-up, shutdown, reorg) goes on as if they were
durable.

Decided on the CFGs of the two functions:
  * every normal path through BlockProcessor.flush passes the worker-thread call of DB.flush_dbs;
  * every normal path through DB.flush_dbs passes the history flush, unless it lies inside the True branch of the
    canonical nothing-pending test `flush_data.state.height == self.state.height`;
  * the UTXO flush in DB.flush_dbs is controlled by nothing but the flush_utxos parameter (and the test above).
'''
import ast

from ..model import AnalysisError, norm
from .. import q, pathrules as pr


def _guard_body_nodes(ctx, f, cfg, accepted):
    '''CFG nodes of statements inside the True branch of an `if` whose test is one of the accepted comparisons.'''
    out, guards = set(), []
    for n in f.own_nodes():
        if isinstance(n, ast.If) and any(q.cmp_matches(ctx, f, n.test, a) for a in accepted):
            guards.append(n)
            for s in n.body:
                for sub in ast.walk(s):
                    if isinstance(sub, ast.stmt):
                        try:
                            out.add(cfg.node(sub))
                        except Exception:
                            pass
    return out, guards


def stmts_reaching(ctx, f, target, kinds=('CALL', 'AWAIT')):
    '''Statements of f holding a call that reaches `target` through plain calls (transitively).'''
    memo = {}

    def reaches(g, depth=0):
        if g.key == target.key:
            return True
        if g.key in memo:
            return memo[g.key]
        memo[g.key] = False
        if depth < 6:
            memo[g.key] = any(reaches(e[1], depth + 1) for e in ctx.cg.callees(g, kinds))
        return memo[g.key]
    out = []
    for e in ctx.cg.callees(f, kinds):
        if reaches(e[1]):
            s = q.stmt(e[3])
            if s not in out:
                out.append(s)
    return out


def rule_flushall(ctx, prop):
    rule = f'{prop}.FLUSHALL'
    n = 0
    # ---- BlockProcessor.flush: every way through starts the DB flush
    bf = ctx.func('bp', 'BlockProcessor.flush')
    dbf = ctx.func('db', 'DB.flush_dbs')
    cfg = ctx.cfg(bf)
    starts = []
    for c in q.own_calls(bf):
        for a in c.args:
            r = ctx.res.resolve_ref(a, bf) if isinstance(a, (ast.Attribute, ast.Name)) else None
            if r is not None and r.key == dbf.key:
                starts.append(q.stmt(c))
        r = ctx.res.resolve_ref(c.func, bf)
        if r is not None and r.key == dbf.key:
            starts.append(q.stmt(c))
    if not starts:
        raise AnalysisError('BlockProcessor.flush: no hand-over of DB.flush_dbs found')
    hparam = 'self.state.height'
    accepted_bp = [f'{hparam} == self.db.state.height']
    gb, _ = _guard_body_nodes(ctx, bf, cfg, accepted_bp)
    p = pr.path_avoiding(cfg, [cfg.entry], [cfg.exit], {cfg.node(s) for s in starts} | gb)
    ctx.check(p is None, rule, ctx.key(bf, starts[0], 'always handed over'),
              'every normal path through BlockProcessor.flush runs DB.flush_dbs',
              'BlockProcessor.flush can return without running DB.flush_dbs although UTXO adds/deletes, undo infos or '
              'history may still be pending (headers are emptied by history-only flushes too)',
              witness=cfg.describe_path(p) if p else None, loc=ctx.loc(bf, starts[0]))
    n += 1

    # ---- DB.flush_dbs
    dcfg = ctx.cfg(dbf)
    fd = dbf.params[1]
    fu = dbf.params[2]
    hist_flush = ctx.func('hist', 'History.flush')
    utxo_flush = ctx.func('db', 'DB.flush_utxo_db')
    hcalls = stmts_reaching(ctx, dbf, hist_flush)
    ucalls = stmts_reaching(ctx, dbf, utxo_flush)
    if not hcalls or not ucalls:
        raise AnalysisError('DB.flush_dbs: history flush / UTXO flush call not found')
    accepted = [f'{fd}.state.height == self.state.height']
    gb, guards = _guard_body_nodes(ctx, dbf, dcfg, accepted)
    p = pr.path_avoiding(dcfg, [dcfg.entry], [dcfg.exit], {dcfg.node(s) for s in hcalls} | gb)
    ctx.check(p is None, rule, ctx.key(dbf, hcalls[0], 'no-op only when nothing is pending'),
              'DB.flush_dbs returns without flushing only under `flush_data.state.height == self.state.height` '
              '(the committed UTXO state already is at the in-memory height)',
              'DB.flush_dbs can return without flushing under a test other than "the committed UTXO height equals the '
              'in-memory height": after a history-only flush that leaves pending UTXO changes unflushed',
              witness=dcfg.describe_path(p) if p else None, loc=ctx.loc(dbf, dbf.node))
    n += 1
    for s in ucalls:
        conds = pr.control_conditions(s, dbf.node)
        # (the accepted equal-height no-op guard, passed on the way, is decided by the clause above)
        conds = [(t, b, p_) for t, b, p_ in conds
                 if not (not b and isinstance(p_, ast.If) and any(q.cmp_matches(ctx, dbf, t, a_) for a_ in accepted))]
        extra = [norm(t) for t, b, _p in conds if not (b and isinstance(t, ast.Name) and t.id == fu)]
        ctx.check(any(b and isinstance(t, ast.Name) and t.id == fu for t, b, _p in conds) and not extra, rule, ctx.key(dbf, s),
                  f'the UTXO flush is controlled by the `{fu}` parameter alone',
                  f'the UTXO flush is additionally conditioned on {extra}' if extra else f'the UTXO flush is not controlled by `{fu}`',
                  loc=ctx.loc(dbf, s))
        n += 1
    return n
