'''C02 - confirmed history of every script hash is complete, ordered and duplicate-free.

Decided: LAYOUT (history rows hashX + be16(flush id) -> 5-byte LE tx numbers: every reader / co-writer agrees; the tx-number
slice in the UTXO cache value is the same 5 bytes), ORDERKEY (row id big-endian), DEDUP (script hashes of one tx made
unique before their tx number is appended), LOCKSTEP (tx hash, per-tx hashX list and tx number advance once per tx),
PRIORSTATE (history and tx numbering use the tx count before it is updated; tx_counts gets the final value), BOTHSIDES
(the per-tx list receives the script hash of every spent value and every created output), BISECT (tx number -> height by
right-bisection of the cumulative counts), FLUSHID / CONSUME (flush id incremented before keys are built, rows and state
in one batch, unflushed cleared afterwards, nothing filtered), FSMETA (file offsets, shared with C04), LIMIT (generator
stops after `limit` entries across rows), BYHEIGHT (per-block hash slices), COLLISION (shared with C01: the spent script
hash is the right one).
Not decided: exact content for all chains; retry loop behaviour.
'''
import ast

from ..model import AnalysisError, norm, walk_own, const_value
from .. import q, pathrules as pr, dataflow as df
from ..layout import Lay, Rep, decode_ok
from . import c01, c03, c04, c17
from .roles import AdvanceNames, nested_where

EXPLANATION = ('static necessary conditions of C02: byte-layout agreement of all history row readers / co-writers with History.flush '
               'and add_unflushed, big-endian row ids, per-tx de-duplication, lock-step counters on all CFG paths, prior-state order, '
               'both-sides hashX collection, right bisection, flush id / consume discipline, file offsets, limit discipline, per-block '
               'hash slicing, collision resolution. Does NOT decide exact histories for all chains.')
ASSUMPTIONS = c01.ASSUMPTIONS + ['bisect_right over the cumulative counts returns the first height whose cumulative count exceeds the tx number']


def rule_layout(ctx, sch):
    rule = 'C02.LAYOUT'
    n = 0
    HX = sch.w.HX()
    hk, hrow = sch.s[('store', 'HIST')][None]
    entry = sch.hist_entry
    # the tx number bytes inside the UTXO cache value are the same bytes as a history entry
    adv = ctx.func('bp', 'BlockProcessor.advance_block')
    n += c01.eq_ob(ctx, rule, adv, q.stmt(sch.adv_put), 'tx number bytes', sch.cache_val.slice(len(HX), len(HX) + len(entry)), entry,
                   'the tx number stored with a UTXO is encoded like a history entry')
    # row key = hashX + be16
    want_key = HX + sch.w.packed('pack_be_uint16')
    fl = ctx.func('hist', 'History.flush')
    n += c01.eq_ob(ctx, rule, fl, q.stmt(sch.hist_put), 'row key', hk, want_key, 'history row key')
    ctx.check(all(a[0] == 'I' and a[1] == 'be' for a in hk.atoms[len(HX):]), 'C02.ORDERKEY', ctx.key(fl, q.stmt(sch.hist_put), 'big-endian row id'),
              'the row id after the hashX is big-endian: rows of a script hash iterate in flush order',
              f'the row id is not big-endian ({hk.text()}): after 255 flushes rows iterate out of flush order and histories are mis-ordered',
              loc=ctx.loc(fl, sch.hist_put))
    n += 1
    # readers
    H = lambda name: ctx.func('hist', name)
    sch.s[('iter', H('History.backup').params[1])] = HX       # History.backup(hashXs, ...) iterates script hashes
    for name, binds in (('History.get_txnums', None), ('History.backup', {}), ('History.clear_excess', {}),
                        ('History._compact_prefix', {})):
        f = H(name)
        if binds is None:
            binds = {f.params[1]: HX}
        env = sch.env(f, binds)
        if name != 'History._compact_prefix':
            n += c01.scan_store_reads(ctx, sch, env, f, rule)
        n += c01.scan_decodes(ctx, sch, env, f, rule)
        # stride of every chunks(<row value>, k)
        for c in f.own_nodes():
            if isinstance(c, ast.Call) and q.callee_name(ctx, f, c).split('.')[-1] == 'chunks' and len(c.args) == 2:
                src = env.ev(c.args[0])
                k = env.const_int(c.args[1])
                if isinstance(src, Rep):
                    n += 1
                    ctx.check(src.elem is not None and k == len(src.elem), rule, ctx.key(f, q.stmt(c), f'stride {norm(c.args[1])}'),
                              f'rows are cut into {k}-byte entries, the width History writes',
                              f'WIDTH-CONST: rows are cut into {k}-byte pieces but an entry is {len(src.elem) if src.elem else "?"} bytes',
                              loc=ctx.loc(f, c))
    # backup: kept prefix hist[:5 * idx]
    bk = H('History.backup')
    env = sch.env(bk, {})
    for s in bk.own_nodes():
        if isinstance(s, ast.Assign) and isinstance(s.targets[0], ast.Subscript) and isinstance(s.value, ast.Subscript) and isinstance(s.value.slice, ast.Slice):
            v = env.ev(s.value)
            n += 1
            ctx.check(isinstance(v, Rep) and v == hrow, rule, ctx.key(bk, s, 'kept prefix'),
                      'the kept prefix consists of whole entries', f'WIDTH-CONST: the kept prefix `{norm(s.value)}` does not consist of whole entries',
                      loc=ctx.loc(bk, s))
    # compaction co-writer
    ch = H('History._compact_hashX')
    env = sch.env(ch, {ch.params[1]: HX})
    keys = [s for s in ch.own_nodes() if isinstance(s, ast.Assign) and isinstance(s.targets[0], ast.Name) and 'pack_be_uint16' in norm(s.value)]
    for s in keys:
        n += c01.eq_ob(ctx, rule, ch, s, 'compacted row key', env.ev(s.value), hk, 'compacted rows use the history row key layout')
    mr = [s for s in ch.own_nodes() if isinstance(s, ast.Assign) and 'max_hist_row_entries' in norm(s.value)]
    for s in mr:
        k = None
        if isinstance(s.value, ast.BinOp) and isinstance(s.value.op, ast.Mult):
            k = const_value(s.value.right) if const_value(s.value.right) is not None else const_value(s.value.left)
        n += 1
        ctx.check(k == len(entry), rule, ctx.key(ch, s, 'row size'), f'a compacted row holds whole {len(entry)}-byte entries',
                  f'WIDTH-CONST: compacted row size uses {k} bytes per entry, an entry is {len(entry)}', loc=ctx.loc(ch, s))
    cp = H('History._compact_prefix')
    env = sch.env(cp, {})
    rowloops = [s for s in cp.own_nodes() if isinstance(s, ast.For) and isinstance(s.iter, ast.Call) and isinstance(s.iter.func, ast.Attribute)
                and s.iter.func.attr == 'iterator' and isinstance(s.target, ast.Tuple)]
    klnames = set()
    for lp in rowloops:
        kv = norm(lp.target.elts[0])
        for s in lp.body:
            if isinstance(s, ast.Assign) and isinstance(s.value, ast.Subscript) and isinstance(s.value.slice, ast.Slice) and norm(s.value.value) == kv:
                env2 = sch.env(cp, {kv: hk})
                n += c01.eq_ob(ctx, rule, cp, s, 'hashX of a row key', env2.ev(s.value), HX, 'script hash of a row')
            if isinstance(s, ast.If) and isinstance(s.test, ast.Compare) and f'len({kv})' in norm(s.test):
                klnames |= {x for x in q.names_in(s.test) if x not in (kv, 'len')}
    kl = [s for s in cp.own_nodes() if isinstance(s, ast.Assign) and isinstance(s.targets[0], ast.Name) and s.targets[0].id in klnames]
    for s in kl:
        v = sch.env(cp).const_int(s.value)
        n += 1
        ctx.check(v == len(hk), rule, ctx.key(cp, s, 'row key length'), f'history keys are recognised by their length {len(hk)}',
                  f'WIDTH-CONST: key_len {v} differs from the row key length {len(hk)}', loc=ctx.loc(cp, s))
    return n


def rule_dedup(ctx):
    f = ctx.func('hist', 'History.add_unflushed')
    exts = [c for c in q.own_calls(f) if isinstance(c.func, ast.Attribute) and c.func.attr == 'extend']
    ok, why = False, 'extend not found'
    if len(exts) == 1:
        lp = [p for p, _f in q.enclosing_chain(q.stmt(exts[0]), f.node) if isinstance(p, ast.For)]
        if lp:
            it = lp[0].iter
            if isinstance(it, ast.Call) and norm(it.func) in ('set', 'sorted') and it.args:
                inner = it.args[0]
                ok = norm(it.func) == 'set' or (isinstance(inner, ast.Call) and norm(inner.func) == 'set')
            elif isinstance(it, ast.Name):
                d = df.last_def_before(f, it.id, lp[0])
                ok = d is not None and isinstance(d[1], ast.Call) and norm(d[1].func) in ('set', 'frozenset')
                why = f'{it.id} last defined by `{norm(d[0]) if d else "?"}`'
            # one entry per (tx, hashX): extend once per iteration with the tx number of this tx
            outer = [p for p, _f in q.enclosing_chain(lp[0], f.node) if isinstance(p, ast.For)]
            good_num = False
            if outer and norm(outer[0].iter) == f.params[1]:
                # (the normaliser spells `enumerate(hashXs_by_tx, start=first_tx_num)` as the counter it abbreviates)
                # a counter initialised to first_tx_num before the loop, incremented by one exactly once at the end of each
                # iteration, and the packed number is made from it
                incs = [s_ for s_ in outer[0].body if isinstance(s_, ast.AugAssign) and isinstance(s_.op, ast.Add) and const_value(s_.value) == 1
                        and isinstance(s_.target, ast.Name)]
                argd = df.last_def_before(f, norm(exts[0].args[0]), exts[0]) if isinstance(exts[0].args[0], ast.Name) else None
                for inc_ in incs:
                    numv = inc_.target.id
                    inits = [s_ for s_ in f.node.body if isinstance(s_, ast.Assign) and norm(s_.targets[0]) == numv and s_.lineno <= outer[0].lineno]
                    others = [s_ for s_ in q.assigns(ctx, f, numv) if s_ is not inc_ and s_ not in inits]
                    if len(inits) == 1 and norm(inits[0].value) == f.params[2] and not others and inc_ is outer[0].body[-1] \
                            and argd is not None and numv in q.names_in(argd[1]) \
                            and not any(isinstance(x, ast.Continue) for x in walk_own(outer[0])):
                        good_num = True
            ok = ok and good_num
            why += f'; numbering from first_tx_num over hashXs_by_tx ok={good_num}'
    ctx.check(ok, 'C02.DEDUP', ctx.key(f, None, 'set per tx'),
              'the script hashes of one transaction are made unique before its tx number is appended to each',
              'script hashes of one transaction are not de-duplicated (or mis-numbered): a tx touching a script hash through several '
              'inputs/outputs appears more than once in its history (' + why + ')', loc=ctx.loc(f, f.node))
    return 1


def rule_lockstep(ctx):
    f = ctx.func('bp', 'BlockProcessor.advance_block')
    cfg = ctx.cfg(f)
    txl = c03.tx_loop(ctx, f)
    n = 0
    hv = norm(txl.target.elts[1])
    nm = AdvanceNames(ctx, f)
    parts = {
        'tx hash recorded': [q.stmt(c) for c in c03.calls_canon(ctx, f, txl, f'{nm.block_hashes}.append') if norm(c.args[0]) == hv],
        'per-tx hashX list recorded': [q.stmt(c) for c in c03.calls_canon(ctx, f, txl, f'{nm.by_tx}.append')],
        'tx number advanced': [s for s in txl.body if isinstance(s, ast.AugAssign) and isinstance(s.op, ast.Add) and const_value(s.value) == 1
                               and norm(s.target) == nm.tx_num],
    }
    for label, stmts in parts.items():
        ok = len(stmts) == 1
        wit = None
        if ok:
            ok, wit = pr.once_per_iteration(cfg, txl, [cfg.node(stmts[0])])
        ctx.check(ok, 'C02.LOCKSTEP', ctx.key(f, txl, label), f'{label} exactly once per transaction on every path',
                  f'{label}: not exactly once per transaction (tx numbers, hashes and histories go out of step)', witness=wit, loc=ctx.loc(f, txl))
        n += 1
    # fresh list per tx
    fresh = [s for s in txl.body if isinstance(s, ast.Assign) and norm(s.targets[0]) == nm.per_tx and norm(s.value) == '[]']
    tcfg = cfg
    first_use = [c for c in c03.calls_canon(ctx, f, txl, f'{nm.per_tx}.append')]
    ctx.check(len(fresh) == 1 and all(tcfg.dominates(tcfg.node(fresh[0]), tcfg.node(q.stmt(u))) for u in first_use), 'C02.LOCKSTEP', ctx.key(f, txl, 'fresh list per tx'),
              'each transaction starts with an empty hashX list', 'the per-tx hashX list is not reset at the start of each transaction', loc=ctx.loc(f, txl))
    # tx number bytes of the cache value recomputed per tx from the running number
    tn = [s for s in txl.body if isinstance(s, ast.Assign) and isinstance(s.targets[0], ast.Name) and nm.tx_num in q.names_in(s.value)
          and any(isinstance(c, ast.Call) for c in ast.walk(s.value))]
    ok = len(tn) == 1 and bool(parts['tx number advanced']) and tn[0].lineno < parts['tx number advanced'][0].lineno and \
        norm(tn[0].targets[0]) in q.names_in(c03.calls_canon(ctx, f, txl, 'self.utxo_cache.__setitem__')[0].args[1])
    ctx.check(ok, 'C02.LOCKSTEP', ctx.key(f, txl, 'tx number bytes per tx'), 'the packed tx number is recomputed for each transaction before the number advances',
              'the packed tx number stored with new UTXOs is not recomputed per transaction', loc=ctx.loc(f, txl))
    # the block's hashes are what is queued
    blk = c03.calls_canon(ctx, f, f.node, 'self.tx_hashes.append')
    ctx.check(len(blk) == 1 and norm(blk[0].args[0]) == f"b''.join({nm.block_hashes})" and not q.in_body(blk[0], txl.body), 'C02.LOCKSTEP',
              ctx.key(f, None, 'block hashes queued'), 'the joined tx hashes of the block are queued once', 'the block\'s tx hashes are not queued once, joined in order',
              loc=ctx.loc(f, f.node))
    return n + 3


def rule_priorstate(ctx):
    f = ctx.func('bp', 'BlockProcessor.advance_block')
    cfg = ctx.cfg(f)
    n = 0
    sw = c03.state_writes(ctx, f).get('tx_count', [])
    au = c03.calls_canon(ctx, f, f.node, 'self.db.history.add_unflushed')
    nm = AdvanceNames(ctx, f)
    init = [s for s in q.assigns(ctx, f, nm.tx_num) if isinstance(s, ast.Assign)]
    ok = len(sw) == 1 and len(au) == 1 and len(init) == 1
    if ok:
        ok = ctx.res.canon(au[0].args[1], f) == 'self.state.tx_count' and norm(au[0].args[0]) == nm.by_tx and \
            cfg.find_path([cfg.node(sw[0])], {cfg.node(q.stmt(au[0]))}) is None and \
            ctx.res.canon(init[0].value, f) == 'self.state.tx_count' and cfg.find_path([cfg.node(sw[0])], {cfg.node(init[0])}) is None
    ctx.check(ok, 'C02.PRIORSTATE', ctx.key(f, None, 'numbering from the prior count'),
              'history entries and tx numbering start from the tx count before this block, which is updated afterwards',
              'history numbering does not start from the pre-block tx count (add_unflushed must see state.tx_count before it is updated)',
              loc=ctx.loc(f, f.node))
    n += 1
    tc = c03.calls_canon(ctx, f, f.node, 'self.db.tx_counts.append')
    txl = c03.tx_loop(ctx, f)
    ok2 = len(tc) == 1 and norm(tc[0].args[0]) == nm.tx_num and q.stmt(tc[0]).lineno > txl.end_lineno and len(sw) == 1 and norm(sw[0].value) == nm.tx_num
    ctx.check(ok2, 'C02.PRIORSTATE', ctx.key(f, None, 'cumulative count'),
              'after the transaction loop the final tx number becomes the block\'s cumulative count and the new tx count',
              'tx_counts / state.tx_count do not receive the final tx number after the loop', loc=ctx.loc(f, f.node))
    return n + 1


def rule_bothsides(ctx):
    f = ctx.func('bp', 'BlockProcessor.advance_block')
    cfg = ctx.cfg(f)
    spend = ctx.func('bp', 'BlockProcessor.spend_utxo')
    txl = c03.tx_loop(ctx, f)
    il, txv = c03.input_loop(ctx, f, txl)
    ol = c03.output_loop(ctx, f, txl, txv)
    n = 0
    for lp, partner, label in ((il, c03.calls_to(ctx, f, il, spend.key), 'spent'),
                               (ol, c03.calls_canon(ctx, f, ol, 'self.utxo_cache.__setitem__'), 'created')):
        apps = c03.calls_canon(ctx, f, lp, f'{AdvanceNames(ctx, f).per_tx}.append')
        ok = len(apps) == 1 and len(partner) == 1
        wit = None
        if ok:
            ok, wit = pr.control_equivalent_in_loop(cfg, lp, [cfg.node(q.stmt(apps[0]))], [cfg.node(q.stmt(partner[0]))])
            if label == 'created':
                # the appended hashX is the one stored with the UTXO
                hx = norm(apps[0].args[0])
                ok = ok and norm(partner[0].args[1]).startswith(hx + ' + ')
        ctx.check(ok, 'C02.BOTHSIDES', ctx.key(f, lp, f'{label} side'),
                  f'the script hash of every {label} output joins the transaction\'s history list',
                  f'not every {label} output contributes its script hash to the transaction\'s history list '
                  + ('(spends are missing from the history of the spent script hash)' if label == 'spent' else '(payments are missing from the history of the recipient)'),
                  witness=wit, loc=ctx.loc(f, lp))
        n += 1
    return n


def rule_bisect(ctx):
    f = ctx.func('db', 'DB.fs_tx_hash')
    p = f.params[1]
    n = 0
    calls = [c for c in q.own_calls(f) if norm(c.func).split('.')[-1] in ('bisect_right', 'bisect', 'bisect_left')]
    ok, why = False, f'{len(calls)} bisection calls'
    if len(calls) == 1:
        c = calls[0]
        nm = norm(c.func).split('.')[-1]
        arr_ok = ctx.res.canon(c.args[0], f) == 'self.tx_counts'
        if nm in ('bisect_right', 'bisect'):
            ok = arr_ok and norm(c.args[1]) == p
        else:
            try:
                ok = arr_ok and q.lin_eq(q.linear(ctx, f, c.args[1]), {p: 1, '': 1})
            except q.NotLinear:
                ok = False
        why = norm(c)
    ctx.check(ok, 'C02.BISECT', ctx.key(f, None, 'height of a tx number'),
              'height = number of blocks whose cumulative count is <= tx_num (right bisection)',
              f'tx number -> height is not a right bisection of tx_counts ({why}): the first tx of every block maps to the previous height',
              loc=ctx.loc(f, f.node))
    n += 1
    reads = [c for c in q.own_calls(f) if q.callee_name(ctx, f, c) == 'self.hashes_file.read']
    ok2 = len(reads) == 1 and norm(reads[0].args[0]) in (f'{p} * 32', f'32 * {p}') and const_value(reads[0].args[1]) == 32
    # every way out of the function: (height above the flushed height) <=> (no read, hash None)
    from .. import paths as P
    ok3 = bool(calls) and len(calls) == 1
    if ok3:
        rets = P.returns(f.node)
        ok3 = bool(rets)
        for pth in rets:
            v = pth.value
            above = P.decided(ctx, f, pth, f'{norm(calls[0])} > self.state.height')
            if not (isinstance(v, ast.Tuple) and len(v.elts) == 2) or above is None:
                ok3 = False
                break
            has_read = any(isinstance(x, ast.Call) and norm(x.func) == norm(reads[0].func) for x in ast.walk(v.elts[0])) if reads else False
            if above and not (isinstance(v.elts[0], ast.Constant) and v.elts[0].value is None):
                ok3 = False
            if not above and not (isinstance(v.elts[0], ast.Call) and has_read):
                ok3 = False
    ctx.check(ok2 and ok3, 'C02.BISECT', ctx.key(f, None, 'hash of a tx number'),
              'the hash is read at 32 * tx_num; heights above the flushed height yield None',
              'the tx hash is not read at 32 * tx_num under height <= state.height', loc=ctx.loc(f, f.node))
    return n + 1


def rule_flushid(ctx, sch):
    f = ctx.func('hist', 'History.flush')
    cfg = ctx.cfg(f)
    n = 0
    incs = [s for s in f.own_nodes() if isinstance(s, ast.AugAssign) and ctx.res.canon(s.target, f) == 'self.flush_count']
    ids = [s for s in f.own_nodes() if isinstance(s, ast.Assign) and isinstance(s.value, ast.Call) and norm(s.value.func).startswith('pack_')
           and ctx.res.canon(s.value.args[0], f) == 'self.flush_count']
    ok = len(incs) == 1 and isinstance(incs[0].op, ast.Add) and const_value(incs[0].value) == 1 and len(ids) == 1 and \
        cfg.dominates(cfg.node(incs[0]), cfg.node(ids[0])) and not [p for p, _f in q.enclosing_chain(incs[0], f.node) if isinstance(p, (ast.If, ast.For, ast.While))]
    ctx.check(ok, 'C02.FLUSHID', ctx.key(f, None, 'new id per flush'),
              'every flush takes a new row id (count incremented before the id is packed)',
              'a flush can reuse the previous row id: its rows overwrite the rows of the previous flush', loc=ctx.loc(f, f.node))
    n += 1
    from ..effects import InlineGraph, key_provenance
    ig = InlineGraph(ctx, f, max_depth=2)
    opens = ig.of('BATCH_OPEN', 'HIST')
    puts = ig.of('PUT', 'HIST')
    sput = [e for e in puts if key_provenance(ctx, e)[0] == 'STATE']
    ok2 = len(opens) == 1 and len(sput) == 1 and all(e.batch is opens[0].batch for e in puts) and len(puts) == 2
    ctx.check(ok2, 'C02.FLUSHID', ctx.key(f, None, 'rows and state in one batch'), 'rows and the history state are one batch',
              'history rows and the history state record are not written in one batch', loc=ctx.loc(f, f.node))
    n += 1
    loops = [s for s in f.own_nodes() if isinstance(s, ast.For) and q.in_body(sch.hist_put, s.body)]
    def is_unflushed(e):
        return ctx.res.canon(e, f) == 'self.unflushed'
    ok3 = False
    vals_ok = False
    if len(loops) == 1:
        it = loops[0].iter
        inner = it.args[0] if isinstance(it, ast.Call) and norm(it.func) == 'sorted' and it.args else it
        # ... or over the (hashX, entries) pairs: sorted(unflushed.items())
        pairs = isinstance(inner, ast.Call) and isinstance(inner.func, ast.Attribute) and inner.func.attr == 'items' and not inner.args \
            and is_unflushed(inner.func.value) and isinstance(loops[0].target, ast.Tuple) and len(loops[0].target.elts) == 2
        ok3 = (is_unflushed(inner) or pairs) and not any(isinstance(x, (ast.If, ast.Break, ast.Continue)) for x in walk_own(loops[0]))
        v = sch.hist_put.args[1]
        if pairs:
            vals_ok = isinstance(v, ast.Call) and norm(v.func) == 'bytes' and norm(v.args[0]) == norm(loops[0].target.elts[1])
        else:
            vals_ok = isinstance(v, ast.Call) and norm(v.func) == 'bytes' and isinstance(v.args[0], ast.Subscript) and is_unflushed(v.args[0].value) \
                and norm(v.args[0].slice) == norm(loops[0].target)
    ctx.check(ok3 and vals_ok, 'C02.CONSUME', ctx.key(f, None, 'all unflushed rows written'),
              'every script hash with unflushed entries gets its row, holding exactly those entries',
              'not every unflushed script hash is written with exactly its entries', loc=ctx.loc(f, f.node))
    n += 1
    clears = [q.stmt(c) for c in q.own_calls(f) if q.callee_name(ctx, f, c) == 'self.unflushed.clear']
    wexits = [e.gnode for e in ig.of('COMMIT', 'HIST')]
    ok4 = len(clears) == 1 and bool(wexits)
    if ok4:
        cn = (ig.root.id, ig.root.cfg.node(clears[0]))
        ok4 = ig.find_path([cn], wexits) is None and ig.path_avoiding([ig.entry], [ig.exit], {cn}) is None
    ctx.check(ok4, 'C02.CONSUME', ctx.key(f, None, 'cleared after the batch'),
              'the unflushed entries are cleared after the batch committed, on every path',
              'unflushed entries are not cleared after every flush (they would be written again under the next id: duplicates)',
              loc=ctx.loc(f, f.node))
    return n + 1


def rule_byheight(ctx):
    f = ctx.func('db', 'DB.fs_tx_hashes_at_blockheight')
    p = f.params[1]
    n = 0
    reads = [c for c in q.own_calls(f) if q.callee_name(ctx, f, c) == 'self.hashes_file.read']
    if len(reads) != 1 or len(reads[0].args) != 2:
        raise AnalysisError(f'{f.key}: expected one hashes_file.read(offset, size)')
    off, size = reads[0].args

    def factor32(e):
        if isinstance(e, ast.BinOp) and isinstance(e.op, ast.Mult):
            if const_value(e.right) == 32 and isinstance(e.left, ast.Name):
                return e.left.id
            if const_value(e.left) == 32 and isinstance(e.right, ast.Name):
                return e.right.id
        return None
    fv, cv = factor32(off), factor32(size)
    d = df.defs(f)
    # on every path to the read: offset = 32 * (tx_counts[h - 1] if h > 0 else 0), size = 32 * (tx_counts[h] - that)
    from .. import paths as P

    def factor(e):
        if isinstance(e, ast.BinOp) and isinstance(e.op, ast.Mult):
            if const_value(e.right) == 32:
                return e.left
            if const_value(e.left) == 32:
                return e.right
        return None
    ok = ok2 = True
    seen = 0
    vals = []
    for pth in P.paths(f.node.body):
        if pth.exit == 'raise':
            continue
        rcs = [x for v_ in list(pth.env.values()) + [pth.value] if v_ is not None for x in ast.walk(v_)
               if isinstance(x, ast.Call) and norm(x.func) == norm(reads[0].func)]
        if not rcs:
            ok = False
            continue
        seen += 1
        o_, s_ = factor(rcs[0].args[0]), factor(rcs[0].args[1])
        pos = P.decided(ctx, f, pth, f'{p} > 0')
        vals.append(norm(o_) if o_ is not None else '?')
        if o_ is None or pos is None:
            ok = False
        elif pos:
            ok = ok and norm(o_) == f'self.tx_counts[{p} - 1]'
        else:
            ok = ok and const_value(o_) == 0
        ok2 = ok2 and o_ is not None and s_ is not None and norm(s_) in (f'self.tx_counts[{p}] - {norm(o_)}', f'self.tx_counts[{p}] - ({norm(o_)})')
    ok = ok and seen >= 2
    ok2 = ok2 and seen >= 1
    ctx.check(ok, 'C02.BYHEIGHT', ctx.key(f, None, 'first tx number'), 'the first tx number of a block is the cumulative count of the previous block (0 for genesis)',
              f'first tx number of a block is not tx_counts[height - 1] / 0: {sorted(set(vals))}', loc=ctx.loc(f, f.node))
    n += 1
    ctx.check(ok2, 'C02.BYHEIGHT', ctx.key(f, None, 'span read'), 'exactly the block\'s hashes are read: count * 32 bytes at first * 32',
              'the bytes read are not (tx_counts[h] - first) * 32 at first * 32', loc=ctx.loc(f, f.node))
    n += 1
    rets = [r for r in f.own_nodes() if isinstance(r, ast.Return)]
    ok3 = False
    rs = q.stmt(reads[0])
    if len(rets) == 1 and isinstance(rets[0].value, ast.ListComp) and isinstance(rs, ast.Assign) and cv:
        lc = rets[0].value
        g = lc.generators[0]
        buf, iv = norm(rs.targets[0]), norm(g.target)
        ok3 = not g.ifs and norm(g.iter) == f'range({cv})' and norm(lc.elt).replace(' ', '') == f'{buf}[{iv}*32:({iv}+1)*32]'
        # the same slices over byte offsets: buf[o:o + 32] for o in range(0, n * 32, 32)
        ok3 = ok3 or (not g.ifs and norm(g.iter).replace(' ', '') in (f'range(0,{cv}*32,32)', f'range(0,32*{cv},32)', f'range(0,len({buf}),32)')
                      and norm(lc.elt).replace(' ', '') == f'{buf}[{iv}:{iv}+32]')
    ctx.check(ok3, 'C02.BYHEIGHT', ctx.key(f, None, 'slices'), 'the hashes are the consecutive 32-byte slices, in block order',
              'the returned hashes are not the consecutive 32-byte slices in order', loc=ctx.loc(f, f.node))
    n += 1
    lh = ctx.func('db', 'DB.limited_history')
    g = nested_where(lh, lambda x: any(isinstance(c, ast.Call) and q.callee_name(ctx, x, c) == 'self.history.get_txnums' for c in x.own_nodes()),
                     'reads the tx numbers of the history')
    rets = [r for r in g.own_nodes() if isinstance(r, ast.Return)]
    from .c03 import expand_locals
    okh = len(rets) == 1 and isinstance(rets[0].value, ast.ListComp) and not rets[0].value.generators[0].ifs
    if okh:
        src = expand_locals(g, rets[0].value.generators[0].iter)
        okh = isinstance(src, ast.Call) and norm(src.func) == 'list' and len(src.args) == 1 and isinstance(src.args[0], ast.Call) \
            and q.callee_name(ctx, g, src.args[0]) == 'self.history.get_txnums'
        if okh:
            okh = [norm(a) for a in src.args[0].args] == [lh.params[1], lh.kwonly[0] if lh.kwonly else 'limit']
    ctx.check(okh, 'C02.BYHEIGHT', ctx.key(g, None, 'order preserved'),
              'every tx number of the history is mapped to (hash, height), in order, none dropped',
              'tx numbers are filtered / reordered when mapped to hashes', loc=ctx.loc(g, g.node))
    return n + 1


def run(ctx):
    sch = ctx.rule('C02.SCHEMAS', lambda: c01.Schemas(ctx))
    if sch is not None:
        ctx.rule('C02.LAYOUT', lambda: rule_layout(ctx, sch), 14)
        ctx.rule('C02.FLUSHID', lambda: rule_flushid(ctx, sch), 4)
    ctx.rule('C02.DEDUP', lambda: rule_dedup(ctx), 1)
    ctx.rule('C02.LOCKSTEP', lambda: rule_lockstep(ctx), 6)
    ctx.rule('C02.PRIORSTATE', lambda: rule_priorstate(ctx), 2)
    ctx.rule('C02.BOTHSIDES', lambda: rule_bothsides(ctx), 2)
    ctx.rule('C02.BISECT', lambda: rule_bisect(ctx), 2)
    ctx.rule('C02.BYHEIGHT', lambda: rule_byheight(ctx), 4)
    ctx.rule('C02.LIMIT', lambda: c17.rule_generator_limit(ctx, 'C02.LIMIT'), 1)
    from . import c03 as _c03
    ctx.rule('C02.MEMO', lambda: _c03.rule_memo(ctx, 'C02.MEMO'), 12)
    ctx.rule('C02.LOGICALFILE', lambda: c04.rule_logical_file(ctx, 'C02') + c04.rule_logical_file_stateless(ctx, 'C02'), 5)
    ctx.rule('C02.FSMETA', lambda: c04.rule_file_offsets(ctx, 'C02'), 5)
    ctx.rule('C02.COLLISION', lambda: c01.rule_collision(ctx, 'C02.COLLISION'), 2)
    ctx.rule('C02.LIMIT2', lambda: c17.rule_limit(ctx), 6)
    ctx.rule('C02.SCRUB', lambda: c04.rule_scrub(ctx, 'C02'), 6)
    c04.run(ctx)
    ctx.rule('C02.PREFIXSCAN', lambda: c04.rule_storage_prefix(ctx, 'C02'), 2)
    from . import c03 as _c03all
    _c03all.run(ctx)
    # a compacted (or half-compacted, or compaction-cancelled) database is still an index: the row-id discipline of the
    # compaction tool (C14) is a necessary condition of exact histories afterwards
    from . import c14
    c14.run(ctx)
