'''C08 - a synchronised mempool view is exact (thin).

Decided: INDEXPAIR / TOUCHPAIR (every insertion into txs is followed, in the same synchronous section, by the index and
touched updates for every hashX of both pair lists; every removal by the symmetric updates), SOURCES (add and remove draw
hashXs from the same two pair lists), MERGE (results of all fetch batches are accumulated, never replaced), SIGN (inputs
subtract, outputs add, both filtered by the queried hashX), LIVEFLAG (has-unconfirmed-inputs is computed from the current
transaction set at query time), FEE (fee from the resolved pairs), LOOKUP (byte layout of DB.lookup_utxos and its
collision rule, shared with C01).
Not decided: exactness of fee / flags / UTXO lists over pool evolutions; the fix-point acceptance loop.
'''
import ast

from ..model import AnalysisError, norm, walk_own, const_value
from .. import q, pathrules as pr, dataflow as df
from . import c01

EXPLANATION = ('static necessary conditions of C08 on server/mempool.py: paired updates of txs / hashXs / touched on all paths, same '
               'hashX sources for add and remove, accumulation of batch results, sign and filter of balance terms, query-time '
               'unconfirmed-inputs flag, fee expression, and the byte layout / collision rule of DB.lookup_utxos. Does NOT decide '
               'exactness over pool evolutions.')
ASSUMPTIONS = c01.ASSUMPTIONS


def run(ctx):
    ctx.rule('C08.INDEXPAIR', lambda: rule_add(ctx), 4)
    ctx.rule('C08.REMOVEPAIR', lambda: rule_remove(ctx), 4)
    ctx.rule('C08.MERGE', lambda: rule_merge(ctx), 2)
    ctx.rule('C08.SIGN', lambda: rule_sign(ctx), 2)
    ctx.rule('C08.LIVEFLAG', lambda: rule_liveflag(ctx), 2)
    ctx.rule('C08.FEE', lambda: rule_fee(ctx), 2)
    from . import c03 as _c03
    ctx.rule('C08.MEMO', lambda: _c03.rule_memo(ctx, 'C08.MEMO'), 12)
    ctx.rule('C08.POSITIONAL', lambda: rule_positional(ctx), 2)
    ctx.rule('C08.FIXPOINT', lambda: rule_fixpoint(ctx), 2)
    from . import c04 as _c04f
    ctx.rule('C08.LOGICALFILE', lambda: _c04f.rule_logical_file_stateless(ctx, 'C08'), 3)
    from . import c18 as _c18, c18x as _c18x
    from . import c09 as _c09
    ctx.rule('C08.HANDOVER', lambda: _c09.rule_refresh_handover(ctx, 'C08.HANDOVER'), 3)
    ctx.rule('C08.ALIGN', lambda: _c18.rule_align(ctx) + _c18x.rule_vector_single(ctx), 5)
    sch = ctx.rule('C08.SCHEMAS', lambda: c01.Schemas(ctx))
    if sch is not None:
        ctx.rule('C08.LOOKUP', lambda: c01.rule_layout_lookup(ctx, sch, 'C08.LOOKUP'), 8)
    ctx.rule('C08.COLLISION', lambda: c01.rule_collision(ctx, 'C08.COLLISION'), 2)


def pair_sources(expr):
    '''{'in_pairs', 'out_pairs'} mentioned by an expression such as itertools.chain(tx.in_pairs, tx.out_pairs).'''
    return {n.attr for n in ast.walk(expr) if isinstance(n, ast.Attribute) and n.attr in ('in_pairs', 'out_pairs')}


def rule_add(ctx):
    f = ctx.func('mp', 'MemPool._accept_transactions')
    cfg = ctx.cfg(f)
    n = 0
    ins = [s for s in f.own_nodes() if isinstance(s, ast.Assign) and isinstance(s.targets[0], ast.Subscript)
           and ctx.res.canon(s.targets[0].value, f) == 'self.txs']
    if len(ins) != 1:
        raise AnalysisError(f'{f.key}: expected one insertion into txs')
    s_ins = ins[0]
    hv = norm(s_ins.targets[0].slice)
    outer = [p for p, _f in q.enclosing_chain(s_ins, f.node) if isinstance(p, ast.For)][0]
    loops = [s for s in outer.body if isinstance(s, ast.For) and pair_sources(s.iter)]
    srcs = set()
    for lp in loops:
        srcs |= pair_sources(lp.iter)
    ok = srcs == {'in_pairs', 'out_pairs'} and all(lp.lineno > s_ins.lineno for lp in loops)
    # every iteration that inserts also runs the loop(s): nothing between can leave the iteration
    wit = None
    if ok:
        for lp in loops:
            p = pr.path_avoiding(cfg, [cfg.node(s_ins)], [cfg.node(outer)], {cfg.node(lp)} | pr.outside_loop(cfg, outer))
            if p is not None:
                ok, wit = False, cfg.describe_path(p)
    ctx.check(ok, 'C08.INDEXPAIR', ctx.key(f, s_ins, 'followed by the index update'),
              'an accepted transaction is indexed under the hashXs of both its input and its output pairs before the next one is looked at',
              'an accepted transaction is not indexed under both pair lists on every path (its script hashes are missing from the by-hashX index)',
              witness=wit, loc=ctx.loc(f, s_ins))
    n += 1
    for lp in loops:
        hx = norm(lp.target.elts[0]) if isinstance(lp.target, ast.Tuple) else norm(lp.target)
        adds = [c for c in walk_own(lp) if isinstance(c, ast.Call) and isinstance(c.func, ast.Attribute) and c.func.attr == 'add']
        idx = [c for c in adds if isinstance(c.func.value, ast.Subscript) and ctx.res.canon(c.func.value.value, f) == 'self.hashXs'
               and norm(c.func.value.slice) == hx and norm(c.args[0]) == hv]
        tch = [c for c in adds if norm(c.func.value) == f.params[3] and norm(c.args[0]) == hx]
        for label, cs in (('index', idx), ('touched', tch)):
            okk = len(cs) == 1
            if okk:
                okk, _w = pr.once_per_iteration(cfg, lp, [cfg.node(q.stmt(cs[0]))])
            ctx.check(okk, 'C08.INDEXPAIR' if label == 'index' else 'C08.TOUCHPAIR', ctx.key(f, lp, f'{label} per hashX'),
                      f'every hashX of the pairs gets its {label} update, unconditionally',
                      f'the {label} update is not made for every hashX of the pairs', loc=ctx.loc(f, lp))
            n += 1
    # in_pairs saved before the insertion
    ip = [s for s in outer.body if isinstance(s, ast.Assign) and norm(s.targets[0]).endswith('.in_pairs')]
    ctx.check(len(ip) == 1 and ip[0].lineno < s_ins.lineno, 'C08.INDEXPAIR', ctx.key(f, outer, 'in_pairs set first'),
              'the resolved input pairs are stored on the transaction before it is accepted', 'in_pairs are not stored before the transaction is accepted',
              loc=ctx.loc(f, outer))
    return n + 1


def rule_remove(ctx):
    f = ctx.func('mp', 'MemPool._process_mempool')
    cfg = ctx.cfg(f)
    n = 0
    pops = [c for c in q.own_calls(f) if q.callee_name(ctx, f, c) == 'self.txs.pop']
    if len(pops) != 1 or not isinstance(q.stmt(pops[0]), ast.Assign):
        raise AnalysisError(f'{f.key}: expected `tx = txs.pop(tx_hash)`')
    ps = q.stmt(pops[0])
    txv, hv = norm(ps.targets[0]), norm(pops[0].args[0])
    outer = [p for p, _f in q.enclosing_chain(ps, f.node) if isinstance(p, ast.For)][0]
    it = outer.iter
    okit = isinstance(it, ast.Call) and isinstance(it.func, ast.Attribute) and it.func.attr == 'difference' and len(it.args) == 1 and \
        norm(it.args[0]) == f.params[1] and isinstance(it.func.value, ast.Call) and norm(it.func.value.func) == 'set' and \
        ctx.res.canon(it.func.value.args[0], f) == 'self.txs'
    ctx.check(okit, 'C08.REMOVEPAIR', ctx.key(f, outer, 'vanished transactions'),
              'exactly the transactions no longer listed by the daemon are removed',
              f'the removal loop does not range over txs - all_hashes: {norm(outer.iter)}', loc=ctx.loc(f, outer))
    n += 1
    # the hashX set of the removed tx is drawn from both pair lists
    srcs = set()
    setv = None
    for s in outer.body:
        if pair_sources(s) and not isinstance(s, ast.For):
            srcs |= pair_sources(s)
            if isinstance(s, ast.Assign):
                setv = norm(s.targets[0])
    ctx.check(srcs == {'in_pairs', 'out_pairs'} and setv is not None, 'C08.SOURCES', ctx.key(f, outer, 'both pair lists'),
              'the hashXs of a removed transaction come from both its input and its output pairs (the lists the add side used)',
              f'the hashXs of a removed transaction come from {sorted(srcs)} only: index entries added from the other list are never removed',
              loc=ctx.loc(f, outer))
    n += 1
    inner = [s for s in outer.body if isinstance(s, ast.For) and setv and norm(s.iter) == setv]
    ok = len(inner) == 1
    if ok:
        lp = inner[0]
        hx = norm(lp.target)
        rms = [c for c in walk_own(lp) if isinstance(c, ast.Call) and isinstance(c.func, ast.Attribute) and c.func.attr in ('remove', 'discard')
               and isinstance(c.func.value, ast.Subscript) and ctx.res.canon(c.func.value.value, f) == 'self.hashXs' and norm(c.func.value.slice) == hx
               and norm(c.args[0]) == hv]
        dels = [s for s in walk_own(lp) if isinstance(s, ast.Delete) and isinstance(s.targets[0], ast.Subscript)
                and ctx.res.canon(s.targets[0].value, f) == 'self.hashXs' and norm(s.targets[0].slice) == hx]
        ok = len(rms) == 1 and len(dels) == 1
        if ok:
            o1, _ = pr.once_per_iteration(cfg, lp, [cfg.node(q.stmt(rms[0]))])
            conds = pr.control_conditions(dels[0], lp)
            t0 = conds[0][0] if len(conds) == 1 else None
            ok = o1 and len(conds) == 1 and conds[0][1] and isinstance(t0, ast.UnaryOp) and isinstance(t0.op, ast.Not) and \
                isinstance(t0.operand, ast.Subscript) and ctx.res.canon(t0.operand.value, f) == 'self.hashXs' and norm(t0.operand.slice) == hx
        p = pr.path_avoiding(cfg, [cfg.node(ps)], [cfg.node(outer)], {cfg.node(lp)} | pr.outside_loop(cfg, outer))
        ok = ok and p is None
    ctx.check(ok, 'C08.REMOVEPAIR', ctx.key(f, outer, 'index cleaned'),
              'a removed transaction is taken out of the index of each of its hashXs; emptied entries are deleted',
              'a removed transaction is not taken out of the index of every hashX (and emptied entries deleted) on every path', loc=ctx.loc(f, outer))
    n += 1
    # no other statement anywhere in the class shrinks or rebinds txs / hashXs behind the back of `touched`
    from . import c09
    rel = ctx.repo.path('mp')
    for g in ctx.repo.funcs.values():
        if g.unit.relpath != rel or g.cls != 'MemPool' or g.name == '__init__':
            continue
        for st in c09.mutates_shared(ctx, g):
            if g is f and (st is ps or q.in_body(st, outer.body)):
                continue
            shr = [c for c in ast.walk(st) if isinstance(c, ast.Call) and isinstance(c.func, ast.Attribute)
                   and c.func.attr in ('clear', 'pop', 'popitem') and ctx.res.canon(c.func.value, g) in c09.SHARED]
            if isinstance(st, ast.Delete) and any(isinstance(t, ast.Subscript) and ctx.res.canon(t.value, g) in c09.SHARED for t in st.targets):
                shr.append(st)
            if shr:
                ctx.bad('C08.TOUCHPAIR', ctx.key(g, st), f'`{norm(st)[:60]}` removes transactions outside the removal loop: their script hashes '
                        'are not added to touched, so subscribers are never told the transactions are gone', loc=ctx.loc(g, st))
        for st in g.own_nodes():
            if isinstance(st, ast.Assign) and g.name != '__init__' and any(
                    isinstance(t, ast.Attribute) and ctx.res.canon(t, g) in c09.SHARED for t in st.targets):
                ctx.bad('C08.TOUCHPAIR', ctx.key(g, st), f'`{norm(st)[:60]}` replaces the container wholesale: nothing is reported as touched',
                        loc=ctx.loc(g, st))
    tu = [c for c in walk_own(outer) if isinstance(c, ast.Call) and norm(c.func) == f'{f.params[2]}.update' and setv and norm(c.args[0]) == setv]
    ok = len(tu) == 1
    if ok:
        ok, _w = pr.once_per_iteration(cfg, outer, [cfg.node(q.stmt(tu[0]))])
    ctx.check(ok, 'C08.TOUCHPAIR', ctx.key(f, outer, 'touched on removal'),
              'the hashXs of every removed transaction are added to touched', 'the hashXs of a removed transaction are not all added to touched',
              loc=ctx.loc(f, outer))
    return n + 1


def rule_positional(ctx):
    '''out_pairs is indexed by output position (a child's prevout index selects the parent's pair; unconfirmed UTXOs
    report the position as tx_pos), so it must hold one pair per output of the transaction, in order.'''
    from .c03 import expand_locals
    rel = ctx.repo.path('mp')
    n = 0
    # consumers that index by position (floor: the property relies on them)
    users = []
    for f in ctx.repo.funcs.values():
        if f.unit.relpath != rel:
            continue
        for x in f.own_nodes():
            if isinstance(x, ast.Subscript) and isinstance(x.value, ast.Attribute) and x.value.attr == 'out_pairs':
                users.append((f, x))
            if isinstance(x, ast.Call) and norm(x.func) == 'enumerate' and x.args and isinstance(x.args[0], ast.Attribute) \
                    and x.args[0].attr == 'out_pairs':
                users.append((f, x))
    if not users:
        return 0    # nothing relies on positions any more
    for f in ctx.repo.funcs.values():
        if f.unit.relpath != rel:
            continue
        for c in f.own_nodes():
            if not (isinstance(c, ast.Call) and norm(c.func) == 'MemPoolTx'):
                continue
            arg = c.args[2] if len(c.args) >= 3 else next((k.value for k in c.keywords if k.arg == 'out_pairs'), None)
            if arg is None:
                continue
            n += 1
            e = expand_locals(f, arg)
            comp = e
            if isinstance(comp, ast.Call) and norm(comp.func) in ('tuple', 'list') and len(comp.args) == 1:
                comp = comp.args[0]
            ok = isinstance(comp, (ast.GeneratorExp, ast.ListComp)) and len(comp.generators) == 1 and not comp.generators[0].ifs \
                and isinstance(comp.generators[0].iter, ast.Attribute) and comp.generators[0].iter.attr == 'outputs'
            ctx.check(ok, 'C08.POSITIONAL', ctx.key(f, q.stmt(c), 'one pair per output'),
                      'out_pairs holds one pair per transaction output, in output order',
                      f'out_pairs is built as `{norm(e)[:100]}`: pairs are looked up by output index ({len(users)} positional uses), so a '
                      'filtered or re-ordered list resolves a child\'s input to the wrong output and reports wrong tx_pos',
                      loc=ctx.loc(f, c))
    return n + len(users)


def rule_merge(ctx):
    f = ctx.func('mp', 'MemPool._process_mempool')
    loops = [s for s in f.own_nodes() if isinstance(s, ast.AsyncFor)]
    if len(loops) != 1:
        raise AnalysisError(f'{f.key}: expected one `async for task in group`')
    lp = loops[0]
    res = [s for s in lp.body if isinstance(s, ast.Assign) and isinstance(s.value, ast.Call) and norm(s.value.func).endswith('.result')]
    n = 0
    ok, why = False, 'task.result() not unpacked'
    if len(res) == 1 and isinstance(res[0].targets[0], ast.Tuple):
        names = [norm(e) for e in res[0].targets[0].elts]
        ups = {norm(c.args[0]): norm(c.func.value) for c in walk_own(lp) if isinstance(c, ast.Call) and isinstance(c.func, ast.Attribute)
               and c.func.attr == 'update' and c.args}
        accs = [ups.get(nm) for nm in names]
        inits = {norm(s.targets[0]) for s in f.own_nodes() if isinstance(s, ast.Assign) and norm(s.value) == '{}'}
        rebound = [nm for nm in names if nm in inits]
        ok = all(a is not None and a in inits for a in accs) and len(set(accs)) == len(accs) and not rebound
        why = f'results {names} merged into {accs}; accumulators rebound by the unpacking: {rebound}'
    ctx.check(ok, 'C08.MERGE', ctx.key(f, lp, 'accumulate batch results'),
              'the deferred transactions and unspent lookups of every fetch batch are merged into the accumulators',
              'results of a fetch batch replace instead of extend the accumulated maps: ' + why +
              ' (with several batches, deferred transactions lose the confirmed-UTXO lookups of the other batches and are dropped)',
              loc=ctx.loc(f, lp))
    n += 1
    # every new hash is fetched: chunks over all new hashes, a task per chunk
    ch = [s for s in f.own_nodes() if isinstance(s, ast.For) and isinstance(s.iter, ast.Call) and q.callee_name(ctx, f, s.iter).split('.')[-1] == 'chunks']
    ok2 = False
    if len(ch) == 1 and isinstance(ch[0].iter.args[0], ast.Name):
        nd = df.defs(f).get(ch[0].iter.args[0].id, [])
        if len(nd) == 1:
            v = nd[0][1]
            inner = v.args[0] if isinstance(v, ast.Call) and norm(v.func) in ('list', 'sorted', 'tuple') and v.args else v
            ok2 = isinstance(inner, ast.Call) and isinstance(inner.func, ast.Attribute) and inner.func.attr == 'difference' and \
                norm(inner.func.value) == f.params[1] and len(inner.args) == 1 and ctx.res.canon(inner.args[0], f) == 'self.txs' and \
                any(isinstance(c, ast.Call) and norm(c.func).endswith('.spawn') for c in walk_own(ch[0]))
    ctx.check(ok2, 'C08.MERGE', ctx.key(f, None, 'all new hashes fetched'),
              'every listed hash not yet in the pool is fetched, in batches', 'not every new hash is fetched', loc=ctx.loc(f, f.node))
    return n + 1


def rule_sign(ctx):
    f = ctx.func('mp', 'MemPool.balance_delta')
    hp = f.params[1]
    n = 0
    for s in f.own_nodes():
        if isinstance(s, ast.AugAssign) and isinstance(s.value, ast.Call) and norm(s.value.func) == 'sum' and isinstance(s.value.args[0], ast.GeneratorExp):
            g = s.value.args[0]
            src = pair_sources(g.generators[0].iter)
            want_op = ast.Sub if src == {'in_pairs'} else (ast.Add if src == {'out_pairs'} else None)
            tgt = g.generators[0].target
            hx, vv = (norm(tgt.elts[0]), norm(tgt.elts[1])) if isinstance(tgt, ast.Tuple) and len(tgt.elts) == 2 else (None, None)
            flt = [norm(x) for x in g.generators[0].ifs]
            ok = want_op is not None and isinstance(s.op, want_op) and flt in ([f'{hx} == {hp}'], [f'{hp} == {hx}']) and norm(g.elt) == vv
            n += 1
            ctx.check(ok, 'C08.SIGN', ctx.key(f, s), f'{"inputs subtract" if want_op is ast.Sub else "outputs add"}, only those of the queried hashX',
                      f'balance term `{norm(s)}` has the wrong sign, source or filter', loc=ctx.loc(f, s))
    return n


def rule_liveflag(ctx):
    f = ctx.func('mp', 'MemPool.transaction_summaries')
    ctors = [c for c in q.own_calls(f) if norm(c.func) == 'MemPoolTxSummary']
    if len(ctors) != 1 or len(ctors[0].args) != 3:
        raise AnalysisError(f'{f.key}: MemPoolTxSummary(hash, fee, flag) not found')
    flag = ctors[0].args[2]
    e = flag
    if isinstance(flag, ast.Name):
        d = df.last_def_before(f, flag.id, ctors[0])
        e = d[1] if d else flag
    reads_txs = any(isinstance(n, ast.Attribute) and ctx.res.canon(n, f) == 'self.txs' for n in ast.walk(e))
    over_prev = any(isinstance(n, ast.Attribute) and n.attr == 'prevouts' for n in ast.walk(e))
    ctx.check(reads_txs and over_prev, 'C08.LIVEFLAG', ctx.key(f, q.stmt(ctors[0]), 'computed at query time'),
              'has-unconfirmed-inputs is computed from the transactions currently in the pool',
              f'has-unconfirmed-inputs is `{norm(e)}`, not a test of the prevouts against the current pool: it stays true after the parent confirmed',
              loc=ctx.loc(f, ctors[0]))
    # the summary is built once per element of an iteration (a loop, or the comprehension the normaliser makes of it)
    fors = [p for p, _f in q.enclosing_chain(q.stmt(ctors[0]), f.node) if isinstance(p, ast.For)]
    comps = [c for c in ast.walk(q.stmt(ctors[0])) if isinstance(c, ast.ListComp) and any(x is ctors[0] for x in ast.walk(c.elt))]
    tgt = fors[0].target if fors else (comps[0].generators[-1].target if comps and len(comps[0].generators) == 1 and not comps[0].generators[0].ifs else None)
    ok2 = tgt is not None and norm(ctors[0].args[0]) == norm(tgt)
    ctx.check(ok2, 'C08.LIVEFLAG', ctx.key(f, q.stmt(ctors[0]), 'one summary per indexed tx'),
              'one summary per transaction indexed under the hashX', 'summaries are not one per indexed transaction', loc=ctx.loc(f, ctors[0]))
    return 2


def rule_fee(ctx):
    f = ctx.func('mp', 'MemPool._accept_transactions')
    fees = [s for s in f.own_nodes() if isinstance(s, ast.Assign) and norm(s.targets[0]).endswith('.fee')]
    ok = False
    if len(fees) == 1 and isinstance(fees[0].value, ast.Call) and norm(fees[0].value.func) == 'max':
        args = fees[0].value.args
        diff = [a for a in args if isinstance(a, ast.BinOp) and isinstance(a.op, ast.Sub)]
        ok = len(diff) == 1 and pair_sources(diff[0].left) == {'in_pairs'} and pair_sources(diff[0].right) == {'out_pairs'} and \
            any(const_value(a) == 0 for a in args)
    ctx.check(ok, 'C08.FEE', ctx.key(f, fees[0] if fees else None, 'fee'), 'fee = max(0, sum of input values - sum of output values)',
              'the fee is not max(0, inputs - outputs)', loc=ctx.loc(f, f.node))
    # an input value comes from the DB lookup, else from the mempool parent's out_pairs at that index
    src = [s for s in f.own_nodes() if isinstance(s, ast.Assign) and 'out_pairs' in norm(s.value) and isinstance(s.value, ast.Subscript)]
    ok2 = False
    if len(src) == 1:
        v = src[0].value          # <txs>[<prev hash>].out_pairs[<prev index>]
        pv = [s for s in f.own_nodes() if isinstance(s, ast.Assign) and isinstance(s.targets[0], ast.Tuple) and len(s.targets[0].elts) == 2
              and isinstance(s.value, ast.Name)]
        names = [norm(e) for e in pv[0].targets[0].elts] if len(pv) == 1 else [None, None]
        ok2 = isinstance(v.value, ast.Attribute) and v.value.attr == 'out_pairs' and isinstance(v.value.value, ast.Subscript) and \
            ctx.res.canon(v.value.value.value, f) == 'self.txs' and norm(v.value.value.slice) == names[0] and norm(v.slice) == names[1]
    ctx.check(ok2, 'C08.FEE', ctx.key(f, src[0] if src else None, 'parent output'), 'an unconfirmed input takes (hashX, value) from its parent\'s output at that index',
              'an unconfirmed input is not resolved from txs[prev_hash].out_pairs[prev_index]', loc=ctx.loc(f, f.node))
    return 2


def rule_fixpoint(ctx, rule='C08.FIXPOINT'):
    '''After all fetch batches were merged, the deferred transactions are re-offered to _accept_transactions until a pass
    makes no progress: a chain of unconfirmed transactions spread over several batches resolves one generation per pass.
    And no refresh is skipped on a guess that nothing changed: apart from the DBSyncError guard, every path through
    _process_mempool passes the removal loop and the computation of the new hashes.'''
    f = ctx.func('mp', 'MemPool._process_mempool')
    cfg = ctx.cfg(f)
    n = 0
    merges = [s for s in f.own_nodes() if isinstance(s, ast.AsyncFor)]
    acc = ctx.func('mp', 'MemPool._accept_transactions')
    loops = [w for w in f.own_nodes() if isinstance(w, ast.While) and q.calls_resolving_to(ctx, f, acc)
             and any(q.in_body(c, w.body) for c in q.calls_resolving_to(ctx, f, acc))]
    ok, why = False, 'the merged deferred transactions are not re-offered in a loop'
    if len(loops) == 1 and merges:
        w = loops[0]
        call = [c for c in q.calls_resolving_to(ctx, f, acc) if q.in_body(c, w.body)][0]
        st = q.stmt(call)
        # loop carried: the call's first two arguments are re-bound from its result
        carried = isinstance(st, ast.Assign) and isinstance(st.targets[0], ast.Tuple) and \
            [norm(e) for e in st.targets[0].elts] == [norm(a) for a in call.args[:2]]
        mv = norm(call.args[0])
        # exits: only when nothing is left or a pass made no progress (size unchanged)
        conj = [norm(x) for x in pr.conjuncts(w.test)]
        nonempty = mv in conj or f'len({mv})' in conj
        progress = nonempty and any(f'len({mv})' in c and '!=' in c for c in conj)
        if not progress and nonempty:
            # the no-progress exit spelt as a break:  while tx_map: n = len(tx_map); <call>; if len(tx_map) == n: break
            brks = [b_ for b_ in walk_own(w) if isinstance(b_, ast.Break)]
            if len(brks) == 1:
                cds = pr.control_conditions(brks[0], w)
                snaps = {norm(s_.targets[0]) for s_ in w.body if isinstance(s_, ast.Assign) and norm(s_.value) == f'len({mv})' and s_.lineno < st.lineno}
                progress = len(cds) == 1 and cds[0][1] and isinstance(cds[0][0], ast.Compare) and isinstance(cds[0][0].ops[0], ast.Eq) \
                    and {norm(cds[0][0].left), norm(cds[0][0].comparators[0])} & snaps and f'len({mv})' in (norm(cds[0][0].left), norm(cds[0][0].comparators[0])) \
                    and brks[0].lineno > st.lineno
        after_merge = w.lineno > merges[0].lineno and not q.in_body(w, merges[0].body)
        ok = carried and progress and after_merge
        why = f'loop `while {norm(w.test)}` carried={carried} progress-test={progress} after the merge={after_merge}'
    ctx.check(ok, rule, ctx.key(f, loops[0] if loops else None, 'deferred transactions accepted to a fix-point'),
              'after the batches were merged, deferred transactions are re-offered until a pass accepts nothing more',
              why + ': descendants whose ancestors arrived in another batch (or a later generation) are dropped although the refresh was quiet',
              loc=ctx.loc(f, loops[0] if loops else f.node))
    n += 1
    # every return has passed the removal loop and the computation of the new hashes (dominance, so guard clauses after
    # those two steps are fine while a short-cut before them is not)
    ah = f.params[1]

    def diff_call(node, base_is_listing):
        for c in ast.walk(node):
            if isinstance(c, ast.Call) and isinstance(c.func, ast.Attribute) and c.func.attr == 'difference' and len(c.args) == 1:
                if base_is_listing and norm(c.func.value) == ah:
                    return True
                if not base_is_listing and norm(c.args[0]) == ah:
                    return True
        return False
    removal = [s for s in f.node.body if isinstance(s, ast.For) and diff_call(s.iter, False)]
    newh = [s for s in f.node.body if not isinstance(s, (ast.For, ast.While, ast.AsyncFor)) and diff_call(s, True)]
    rets = [r for r in f.own_nodes() if isinstance(r, ast.Return)]
    early = []
    if len(removal) == 1 and len(newh) >= 1:
        must = {cfg.node(removal[0]), cfg.node(newh[0])}
        for r in rets:
            for m in must:
                if pr.path_avoiding(cfg, [cfg.entry], [cfg.node(r)], {m}) is not None:
                    early.append(r)
                    break
    else:
        early = rets or [f.node]
    ctx.check(not early and bool(rets), rule, ctx.key(f, None, 'no refresh skipped'),
              'the only way through _process_mempool without processing the listing is the DBSyncError guard',
              'a return skips the refresh: ' + '; '.join(f'line {int(round(r.lineno))} under {[norm(t) for t, b, _p in pr.control_conditions(r, f.node)]}' for r in early[:2] if isinstance(r, ast.Return)) +
              ' - a listing of the same size (one eviction, one arrival) or any other guessed "no change" leaves the view stale',
              loc=ctx.loc(f, early[0] if early else f.node))
    return n + 1
