'''C03 - after any reorganisation the index equals a fresh index of the surviving chain.

Decided: TIPCHECK (prev-hash test dominates every mutation of advance_block), UNDODUAL (producer and consumer
of undo info are exact duals), INVERSE (state fields / counters rolled back by the inverse operation, once
per block / tx / output), TRUNC (history truncated at the decremented tx count with a left bisection over
decoded integers), FLUSHFIRST, RANGE (start + count - 1 = height on both branches), HEIGHTS (each re-fetched
block is paired with its own height), TOUCHED (hashXs of a backed-out block reach BlockProcessor.touched).
Not decided: equality with a fresh index for all fork histories; the doubling search of _calc_reorg_range.
'''
import ast

from ..model import AnalysisError, norm, walk_own, const_value
from .. import q, pathrules as pr, dataflow as df
from ..chain import ChainModel

EXPLANATION = ('static necessary conditions of C03 on advance_block / backup_block / reorg_chain / History.backup: tip check '
               'dominates mutations, undo producer/consumer duality, inverse state updates control-equivalent with the work they '
               'count, history truncation point, flush before backup, reorg range arithmetic, height/hash pairing, touched '
               'propagation. Does NOT decide equality with a fresh index.')
ASSUMPTIONS = ['bisect_left over an ascending integer array returns the first position whose value is >= the probe',
               'array("Q").frombytes decodes native little-endian 8-byte integers (x86/ARM hosts)']


def _loops(f, pred):
    return [s for s in f.own_nodes() if isinstance(s, (ast.For, ast.AsyncFor)) and pred(s)]


def tx_loop(ctx, f):
    ls = _loops(f, lambda s: isinstance(s.iter, ast.Call) and isinstance(s.iter.func, ast.Attribute)
                and s.iter.func.attr in ('iter_txs', 'iter_txs_reversed'))
    if len(ls) != 1:
        raise AnalysisError(f'{f.key}: expected exactly one transaction loop over block.iter_txs*()')
    return ls[0]


def input_loop(ctx, f, txl):
    txv = norm(txl.target.elts[0]) if isinstance(txl.target, ast.Tuple) else norm(txl.target)
    ls = [s for s in walk_own(txl) if isinstance(s, ast.For) and s is not txl and f'{txv}.inputs' in norm(s.iter)]
    if len(ls) != 1:
        # the input list may reach the loop through locals (a filtered copy, a zip with the undo items)
        ls = [s for s in walk_own(txl) if isinstance(s, ast.For) and s is not txl and f'{txv}.inputs' in norm(expand_locals(f, s.iter))]
    if len(ls) != 1:
        raise AnalysisError(f'{f.key}: expected exactly one loop over {txv}.inputs')
    return ls[0], txv


def expand_locals(f, e, depth=3):
    """Copy of expression e with single-definition locals replaced by their defining expression (bounded depth)."""
    from ..astcopy import fast_copy
    from .. import dataflow as df
    d = df.defs(f)

    class T(ast.NodeTransformer):
        def __init__(self, k):
            self.k = k

        def visit_Name(self, n):
            if isinstance(n.ctx, ast.Load) and self.k > 0:
                ds = d.get(n.id, [])
                if len(ds) == 1 and isinstance(ds[0][0], ast.Assign) and len(ds[0][0].targets) == 1 \
                        and isinstance(ds[0][0].targets[0], ast.Name) and ds[0][1] is not None:
                    return T(self.k - 1).visit(fast_copy(ds[0][1]))
            return n
    return T(depth).visit(fast_copy(e))


def output_loop(ctx, f, txl, txv):
    """The loop of the tx loop that walks the outputs (its iterable derives from <tx>.outputs, also through locals)."""
    ls = [s for s in walk_own(txl) if isinstance(s, ast.For) and s is not txl
          and f'{txv}.outputs' in norm(expand_locals(f, s.iter))]
    if len(ls) != 1:
        raise AnalysisError(f'{f.key}: expected exactly one loop over {txv}.outputs')
    return ls[0]


def output_positions_ok(f, ol, txv):
    """The loop enumerates the unfiltered output list, so the loop index is the output's position in the transaction."""
    it = norm(expand_locals(f, ol.iter))
    return it in (f'enumerate({txv}.outputs)', f'{txv}.outputs')


def gen_skip(loop):
    '''first statement `if <x>.is_generation(): continue`'''
    s = loop.body[0] if loop.body else None
    v = norm(loop.target)
    return isinstance(s, ast.If) and norm(s.test) == f'{v}.is_generation()' and len(s.body) == 1 \
        and isinstance(s.body[0], ast.Continue) and not s.orelse


def calls_to(ctx, f, within, target_key):
    out = []
    for c in walk_own(within):
        if isinstance(c, ast.Call):
            t = ctx.res.resolve_ref(c.func, f)
            if t is None and isinstance(c.func, ast.Name):
                al = ctx.res.aliases(f).get(c.func.id)
                t = ctx.res.resolve_ref(al, f) if al is not None else None
            if t is not None and t.key == target_key:
                out.append(c)
    return out


def calls_canon(ctx, f, within, name):
    return [c for c in walk_own(within) if isinstance(c, ast.Call) and q.callee_name(ctx, f, c) == name]


# ------------------------------------------------------------------------------------------------

def rule_tipcheck(ctx, rule='C03.TIPCHECK'):
    f = ctx.func('bp', 'BlockProcessor.advance_block')
    cfg = ctx.cfg(f)
    cm = ChainModel(ctx)
    checks = []
    for s in f.own_nodes():
        if isinstance(s, ast.If) and isinstance(s.test, ast.Compare) and len(s.test.ops) == 1 \
                and isinstance(s.test.ops[0], ast.NotEq):
            sides = [s.test.left, s.test.comparators[0]]
            tips = [x for x in sides if ctx.res.canon(x, f) == 'self.state.tip']
            prevs = [x for x in sides if isinstance(x, ast.Call) and norm(x.func).endswith('header_prevhash')
                     and len(x.args) == 1 and norm(x.args[0]).endswith('.header')]
            if tips and prevs:
                checks.append(s)
    n = 0
    if len(checks) != 1:
        ctx.bad(rule, ctx.key(f, None, 'tip check'),
                'advance_block does not compare the block\'s previous-block hash with the current tip before indexing it '
                '(a block of another branch would be indexed on top of the tip)', loc=ctx.loc(f, f.node))
        return 1
    chk = checks[0]
    rc = [s for s in chk.body if isinstance(s, ast.Assign) and ctx.res.canon(s.targets[0], f) == 'self.reorg_count']
    ret = [s for s in chk.body if isinstance(s, ast.Return)]
    v = const_value(rc[0].value) if rc else None
    ctx.check(len(rc) == 1 and isinstance(v, int) and v < 0 and len(ret) == 1 and not chk.orelse, rule,
              ctx.key(f, chk, 'requests a natural reorg'),
              'a mismatch requests a natural reorg (negative count) and returns',
              'a mismatch does not request a natural reorg (reorg_count < 0) and return', loc=ctx.loc(f, chk))
    n += 1
    cn = cfg.node(chk)
    sites = cm.sites(f)
    oks = [s for s in q.assigns(ctx, f, 'self.ok')]
    if len(sites) < 8:
        raise AnalysisError(f'{f.key}: only {len(sites)} mutation sites recognised')
    bad = []
    for node, text in sites + [(o, 'ok flag') for o in oks]:
        m = cfg.node(q.stmt(node))
        if not cfg.dominates(cn, m):
            bad.append((node, text))
    ctx.check(not bad, rule, ctx.key(f, chk, 'dominates all mutations'),
              f'the tip check dominates all {len(sites)} mutation sites of advance_block',
              'mutations not dominated by the tip check: ' + '; '.join(f'{ctx.loc(f, nd)} {t}' for nd, t in bad),
              loc=ctx.loc(f, chk))
    n += 1
    # the refusal path mutates nothing: no mutation reachable between entry and the return inside the check
    pre = []
    for node, text in sites:
        m = cfg.node(q.stmt(node))
        if cfg.find_path([m], {cn}) is not None:
            pre.append(text)
    ctx.check(not pre, rule, ctx.key(f, chk, 'nothing mutated before'),
              'nothing is mutated ahead of the check', f'mutations ahead of the check: {pre}', loc=ctx.loc(f, chk))
    n += 1
    # the caller acts on the request: advance_blocks stops, fetch loop runs reorg_chain and resets the request
    ab = ctx.func('bp', 'BlockProcessor.advance_blocks')
    loops = [s for s in ab.own_nodes() if isinstance(s, ast.For)]
    stop = False
    for lp in loops:
        first = lp.body[0] if lp.body else None
        if isinstance(first, ast.If) and norm(first.test) == 'self.reorg_count is not None' and \
                any(isinstance(x, ast.Break) for x in first.body):
            stop = True
    ctx.check(stop, rule, ctx.key(ab, None, 'stops on request'),
              'advance_blocks stops before the next block once a reorg is requested',
              'advance_blocks keeps advancing after a reorg was requested', loc=ctx.loc(ab, ab.node))
    n += 1
    fp = ctx.func('bp', 'BlockProcessor.fetch_and_process_blocks')
    # reorg_chain(self.reorg_count) runs exactly under `self.reorg_count is not None` (nested or behind a guard) and the
    # request is cleared after it in the same block
    okf = False
    rcs = calls_to(ctx, fp, fp.node, ctx.func('bp', 'BlockProcessor.reorg_chain').key)
    if len(rcs) == 1 and rcs[0].args and norm(rcs[0].args[0]) == 'self.reorg_count':
        st_ = q.stmt(rcs[0])
        loops_ = [p for p, _f in q.enclosing_chain(st_, fp.node) if isinstance(p, (ast.While, ast.For))]
        conds = [(norm(t), b_) for t, b_, _p in pr.guard_conditions(st_, loops_[0] if loops_ else fp.node)]
        requested = ('self.reorg_count is None', False) in conds
        blk = getattr(st_, '_parent', None)
        sibs = next((getattr(blk, fld) for fld in ('body', 'orelse', 'finalbody')
                     if isinstance(getattr(blk, fld, None), list) and any(x is st_ for x in getattr(blk, fld))), [])
        resets = [s for s in sibs if isinstance(s, ast.Assign) and ctx.res.canon(s.targets[0], fp) == 'self.reorg_count'
                  and norm(s.value) == 'None' and s.lineno > st_.lineno]
        okf = requested and len(conds) == 1 and len(resets) == 1
    ctx.check(okf, rule, ctx.key(fp, None, 'acts on request'),
              'the processing loop runs reorg_chain(self.reorg_count) and then clears the request',
              'the processing loop does not run reorg_chain on a request and clear it afterwards', loc=ctx.loc(fp, fp.node))
    return n + 1


def rule_undodual(ctx):
    adv = ctx.func('bp', 'BlockProcessor.advance_block')
    bak = ctx.func('bp', 'BlockProcessor.backup_block')
    spend = ctx.func('bp', 'BlockProcessor.spend_utxo')
    n = 0
    atx, btx = tx_loop(ctx, adv), tx_loop(ctx, bak)
    ctx.check(atx.iter.func.attr == 'iter_txs' and btx.iter.func.attr == 'iter_txs_reversed', 'C03.UNDODUAL',
              ctx.key(bak, btx, 'transaction order'),
              'transactions are applied forwards and undone in reverse',
              f'transaction order is not forward/reverse: advance uses {norm(atx.iter)}, backup uses {norm(btx.iter)}',
              loc=ctx.loc(bak, btx))
    n += 1
    ain, atxv = input_loop(ctx, adv, atx)
    bin_, btxv = input_loop(ctx, bak, btx)
    fwd = norm(ain.iter) == f'{atxv}.inputs'
    rev = norm(bin_.iter) == f'reversed({btxv}.inputs)'
    ctx.check(fwd and rev, 'C03.UNDODUAL', ctx.key(bak, bin_, 'input order'),
              'inputs are spent forwards and restored in reverse',
              f'input order is not forward/reverse: advance `{norm(ain.iter)}`, backup `{norm(bin_.iter)}` '
              '(undo entries would be matched to the wrong inputs)', loc=ctx.loc(bak, bin_))
    n += 1
    ctx.check(gen_skip(ain) and gen_skip(bin_), 'C03.UNDODUAL', ctx.key(bak, bin_, 'generation inputs skipped'),
              'both sides skip generation inputs first thing in the loop',
              'generation inputs are not skipped identically by producer and consumer', loc=ctx.loc(bak, bin_))
    n += 1
    # producer: one append of the spend result per non-skipped input
    acfg = ctx.cfg(adv)
    spends = calls_to(ctx, adv, ain, spend.key)
    from .roles import AdvanceNames
    names = AdvanceNames(ctx, adv)
    apps = calls_canon(ctx, adv, ain, f'{names.undo_list}.append')
    okp = len(spends) == 1 and len(apps) == 1
    wit = None
    if okp:
        sp_stmt, ap_stmt = q.stmt(spends[0]), q.stmt(apps[0])
        res_var = norm(sp_stmt.targets[0]) if isinstance(sp_stmt, ast.Assign) else None
        okp = res_var is not None and norm(apps[0].args[0]) == res_var
        ok2, wit = pr.control_equivalent_in_loop(acfg, ain, [acfg.node(sp_stmt)], [acfg.node(ap_stmt)])
        okp = okp and ok2 and acfg.find_path([acfg.node(ap_stmt)], {acfg.node(sp_stmt)}, avoiding={acfg.node(ain)}) is None
    ctx.check(okp, 'C03.UNDODUAL', ctx.key(adv, ain, 'one undo entry per spend'),
              'each spent input appends exactly its spent cache value to the undo info',
              'undo entries are not appended one per spent input, in spend order', witness=wit, loc=ctx.loc(adv, ain))
    n += 1
    # undo_info of the block is what is stored, under the block height
    sto = calls_canon(ctx, adv, adv.node, 'self.undo_infos.append')
    oks = len(sto) == 1 and norm(sto[0].args[0]) == f'({names.undo_list}, block.height)'
    ctx.check(oks, 'C03.UNDODUAL', ctx.key(adv, None, 'stored under the block height'),
              'the block\'s undo info is queued as (undo_info, block.height)',
              'the block\'s undo info is not queued under its own height', loc=ctx.loc(adv, adv.node))
    n += 1
    # consumer: cursor starts at len(undo_info); one decrement by the entry width per restored input, before the slice
    bcfg = ctx.cfg(bak)
    d = df.defs(bak)
    reads = calls_canon(ctx, bak, bak.node, 'self.db.read_undo_info')
    okr = len(reads) == 1 and norm(reads[0].args[0]) == 'block.height'
    uv = norm(q.stmt(reads[0]).targets[0]) if okr and isinstance(q.stmt(reads[0]), ast.Assign) else None
    ctx.check(okr and uv is not None, 'C03.UNDODUAL', ctx.key(bak, None, 'undo info of this block'),
              'the undo info is read for block.height', 'the undo info is not read for block.height', loc=ctx.loc(bak, bak.node))
    n += 1
    decs = [s for s in walk_own(bin_) if isinstance(s, ast.AugAssign) and isinstance(s.op, ast.Sub) and isinstance(s.target, ast.Name)]
    okc, why = False, 'cursor decrement not found'
    if len(decs) == 1 and uv:
        cur = decs[0].target.id
        width = norm(decs[0].value)
        init = [rhs for st, rhs in d.get(cur, []) if isinstance(st, ast.Assign)]
        init_ok = len(init) == 1 and norm(init[0]) == f'len({uv})'
        slices = [s for s in walk_own(bin_) if isinstance(s, ast.Assign) and isinstance(s.value, ast.Subscript)
                  and norm(s.value.value) == uv]
        # the slice taken is [cursor after the decrement, that + entry width): decided on the path through one iteration with
        # locals expressed in the cursor value at the start of the iteration (so `undo_info[n:n + w]` after `n -= w` and
        # `end = n; n -= w; undo_info[n:end]` read the same)
        sl_ok = len(slices) == 1 and isinstance(slices[0].value.slice, ast.Slice) and slices[0].value.slice.lower is not None \
            and slices[0].value.slice.upper is not None
        if sl_ok:
            from .. import paths as P
            sl_ok = False
            for pth in P.paths(bin_.body):
                if not pth.passes(slices[0]):
                    continue
                env_ = next((e_ for st_, e_ in pth.events if st_ is slices[0]), None)
                # the slice statement binds a plain local: take the environment from the path's bindings at that point
                lo = P.subst(slices[0].value.slice.lower, _env_at(pth, slices[0]))
                up = P.subst(slices[0].value.slice.upper, _env_at(pth, slices[0]))
                try:
                    w_ = q.linear(ctx, bak, decs[0].value)
                    lo_l, up_l = q.linear(ctx, None, lo), q.linear(ctx, None, up)
                    sl_ok = q.lin_eq(q.lin_sub(up_l, lo_l), w_) and q.lin_eq(q.lin_sub({cur: 1, '': 0}, lo_l), w_)
                except q.NotLinear:
                    sl_ok = False
                break
        puts = calls_canon(ctx, bak, bin_, 'self.utxo_cache.__setitem__')
        put_ok = sl_ok and len(puts) == 1 and norm(puts[0].args[1]) == norm(slices[0].targets[0])
        order_ok = sl_ok      # the slice bounds are expressed in the cursor at the start of the iteration: either order reads the same entry
        once, wit2 = pr.control_equivalent_in_loop(bcfg, bin_, [bcfg.node(decs[0])], [bcfg.node(q.stmt(puts[0]))]) if put_ok else (False, None)
        okc = init_ok and sl_ok and put_ok and order_ok and once
        why = f'init ok={init_ok}, slice ok={sl_ok}, restored value ok={put_ok}, decrement-before-slice={order_ok}, once per input={once}'
        # key restored under prev_hash + le32(prev_idx) is a LAYOUT obligation (C01)
    ctx.check(okc, 'C03.UNDODUAL', ctx.key(bak, bin_, 'undo cursor'),
              'the undo cursor starts at the end and moves back one entry per restored input before the entry is sliced out',
              'the undo info is not consumed as the exact reverse of how it was produced: ' + why, loc=ctx.loc(bak, bin_))
    n += 1
    # entry width: literal form checked against the cache value layout by C01.LAYOUT; here: same variable in decrement and slice
    return n


def state_writes(ctx, f):
    out = {}
    for s in f.own_nodes():
        if isinstance(s, (ast.Assign, ast.AugAssign)):
            for t in (s.targets if isinstance(s, ast.Assign) else [s.target]):
                if isinstance(t, ast.Attribute) and ctx.res.type_of(t.value, f) == ('inst', 'ChainState'):
                    out.setdefault(t.attr, []).append(s)
    return out


def rule_inverse(ctx):
    adv = ctx.func('bp', 'BlockProcessor.advance_block')
    bak = ctx.func('bp', 'BlockProcessor.backup_block')
    spend = ctx.func('bp', 'BlockProcessor.spend_utxo')
    aw, bw = state_writes(ctx, adv), state_writes(ctx, bak)
    n = 0
    ctx.check(set(aw) == set(bw) and all(len(v) == 1 for v in list(aw.values()) + list(bw.values())), 'C03.INVERSE',
              ctx.key(bak, None, 'state fields'),
              f'advance and backup write the same state fields once each: {sorted(aw)}',
              f'advance writes {sorted(aw)} but backup writes {sorted(bw)} (a field is not rolled back)', loc=ctx.loc(bak, bak.node))
    n += 1

    def one(d, k):
        return d[k][0] if k in d and len(d[k]) == 1 else None
    # height
    a, b = one(aw, 'height'), one(bw, 'height')
    ok = a is not None and b is not None and isinstance(a, ast.Assign) and norm(a.value) == 'block.height' and \
        ((isinstance(b, ast.AugAssign) and isinstance(b.op, ast.Sub) and const_value(b.value) == 1) or
         (isinstance(b, ast.Assign) and norm(b.value) in ('block.height - 1',)))
    ctx.check(ok, 'C03.INVERSE', ctx.key(bak, b, 'height') if b is not None else ctx.key(bak, None, 'height'),
              'height set to the block height on advance, moved back by one on backup',
              'height is not moved back by exactly one block', loc=ctx.loc(bak, b) if b is not None else None)
    n += 1
    # tip
    a, b = one(aw, 'tip'), one(bw, 'tip')
    ok = a is not None and b is not None and isinstance(a.value, ast.Call) and norm(a.value.func).endswith('header_hash') \
        and norm(a.value.args[0]) == 'block.header' and isinstance(b.value, ast.Call) \
        and norm(b.value.func).endswith('header_prevhash') and norm(b.value.args[0]) == 'block.header'
    ctx.check(ok, 'C03.INVERSE', ctx.key(bak, b, 'tip') if b is not None else ctx.key(bak, None, 'tip'),
              'tip = hash of the block header on advance, its prev-hash on backup',
              'tip is not restored to the previous-block hash of the backed-out block', loc=ctx.loc(bak, b) if b is not None else None)
    n += 1
    # chain_size
    a, b = one(aw, 'chain_size'), one(bw, 'chain_size')
    ok = isinstance(a, ast.AugAssign) and isinstance(b, ast.AugAssign) and isinstance(a.op, ast.Add) and isinstance(b.op, ast.Sub) \
        and norm(a.value) == norm(b.value) == 'block.size'
    ctx.check(ok, 'C03.INVERSE', ctx.key(bak, b, 'chain_size') if b is not None else ctx.key(bak, None, 'chain_size'),
              'chain size += / -= block.size', 'chain size is not rolled back by the block size',
              loc=ctx.loc(bak, b) if b is not None else None)
    n += 1
    # tx_count: advance `= tx_num` with tx_num = state.tx_count then += 1 per tx ; backup `-= count` with count += 1 per tx
    atx, btx = tx_loop(ctx, adv), tx_loop(ctx, bak)
    acfg, bcfg = ctx.cfg(adv), ctx.cfg(bak)
    a, b = one(aw, 'tx_count'), one(bw, 'tx_count')
    oka = isinstance(a, ast.Assign) and isinstance(a.value, ast.Name)
    if oka:
        v = a.value.id
        incs = [s for s in walk_own(atx) if isinstance(s, ast.AugAssign) and norm(s.target) == v]
        inits = [s for s in q.assigns(ctx, adv, v) if isinstance(s, ast.Assign)]
        oka = len(incs) == 1 and isinstance(incs[0].op, ast.Add) and const_value(incs[0].value) == 1 and len(inits) == 1 \
            and ctx.res.canon(inits[0].value, adv) == 'self.state.tx_count' and inits[0].lineno < atx.lineno
        if oka:
            oka, wit = pr.once_per_iteration(acfg, atx, [acfg.node(incs[0])])
            oka = oka and incs[0] in atx.body
    ctx.check(oka, 'C03.INVERSE', ctx.key(adv, a, 'tx_count') if a is not None else ctx.key(adv, None, 'tx_count'),
              'advance counts one tx number per transaction, starting from the prior tx count',
              'advance does not count exactly one tx number per transaction from the prior tx count',
              loc=ctx.loc(adv, a) if a is not None else None)
    n += 1
    okb = isinstance(b, ast.AugAssign) and isinstance(b.op, ast.Sub) and isinstance(b.value, ast.Name)
    if okb:
        v = b.value.id
        incs = [s for s in walk_own(btx) if isinstance(s, ast.AugAssign) and norm(s.target) == v]
        inits = [s for s in q.assigns(ctx, bak, v) if isinstance(s, ast.Assign)]
        # (an initialisation repeated right before the loop - what `enumerate(..., start=1)` normalises to - is the same 0)
        okb = len(incs) == 1 and isinstance(incs[0].op, ast.Add) and const_value(incs[0].value) == 1 and len(inits) >= 1 \
            and all(const_value(i_.value) == 0 and i_.lineno <= btx.lineno for i_ in inits) and incs[0] in btx.body
        if okb:
            okb, wit = pr.once_per_iteration(bcfg, btx, [bcfg.node(incs[0])])
    ctx.check(okb, 'C03.INVERSE', ctx.key(bak, b, 'tx_count') if b is not None else ctx.key(bak, None, 'tx_count'),
              'backup subtracts one per transaction of the block',
              'backup does not subtract exactly one tx number per transaction of the block',
              loc=ctx.loc(bak, b) if b is not None else None)
    n += 1
    # tx_counts append / pop
    ap = calls_canon(ctx, adv, adv.node, 'self.db.tx_counts.append')
    pp = calls_canon(ctx, bak, bak.node, 'self.db.tx_counts.pop')
    a = one(aw, 'tx_count')
    ok = len(ap) == 1 and len(pp) == 1 and not pp[0].args and a is not None and norm(ap[0].args[0]) == norm(a.value) \
        and not any(isinstance(x, (ast.For, ast.While, ast.If)) for x in q.enclosing_chain(pp[0], bak.node) if False)
    ok = ok and not [p for p, _f in q.enclosing_chain(q.stmt(pp[0]), bak.node) if isinstance(p, (ast.For, ast.While, ast.If))] \
        and not [p for p, _f in q.enclosing_chain(q.stmt(ap[0]), adv.node) if isinstance(p, (ast.For, ast.While, ast.If))]
    ctx.check(ok, 'C03.INVERSE', ctx.key(bak, None, 'tx_counts'),
              'the cumulative tx count is appended once per advanced block and popped once per backed-out block',
              'tx_counts is not appended / popped exactly once per block with the new cumulative count', loc=ctx.loc(bak, bak.node))
    n += 1
    # utxo_count delta: control-equivalent with the spends / adds it counts (C01.COUNT shares this)
    n += rule_utxo_count(ctx, adv, atx, spend, 'C03.INVERSE')
    n += rule_utxo_count(ctx, bak, btx, spend, 'C03.INVERSE')
    return n


def rule_utxo_count(ctx, f, txl, spend, rule):
    '''utxo_count_delta -= 1 with each spend_utxo call, += 1 with each cache put; flows into state.utxo_count.'''
    cfg = ctx.cfg(f)
    sw = state_writes(ctx, f).get('utxo_count', [])
    n = 0
    if len(sw) != 1 or not isinstance(sw[0], ast.AugAssign) or not isinstance(sw[0].op, ast.Add) or not isinstance(sw[0].value, ast.Name):
        ctx.bad(rule, ctx.key(f, None, 'utxo_count'), 'state.utxo_count is not updated by `+= <delta>` exactly once', loc=ctx.loc(f, f.node))
        return 1
    dv = sw[0].value.id
    inits = [s for s in q.assigns(ctx, f, dv) if isinstance(s, ast.Assign)]
    ok0 = len(inits) == 1 and const_value(inits[0].value) == 0 and inits[0].lineno < txl.lineno
    decs = [s for s in walk_own(txl) if isinstance(s, ast.AugAssign) and norm(s.target) == dv and isinstance(s.op, ast.Sub)
            and const_value(s.value) == 1]
    incs = [s for s in walk_own(txl) if isinstance(s, ast.AugAssign) and norm(s.target) == dv and isinstance(s.op, ast.Add)
            and const_value(s.value) == 1]
    others = [s for s in q.assigns(ctx, f, dv) if s not in inits and s not in decs and s not in incs]
    spends = calls_to(ctx, f, txl, spend.key)
    puts = calls_canon(ctx, f, txl, 'self.utxo_cache.__setitem__')
    shape = ok0 and len(decs) == 1 and len(incs) == 1 and not others and len(spends) == 1 and len(puts) == 1
    ctx.check(shape, rule, ctx.key(f, sw[0], 'delta shape'),
              'one -1 site, one +1 site, one spend site and one add site per transaction loop',
              f'utxo count delta bookkeeping not recognised (init ok={ok0}, -1 sites {len(decs)}, +1 sites {len(incs)}, '
              f'other writes {len(others)}, spends {len(spends)}, adds {len(puts)})', loc=ctx.loc(f, sw[0]))
    n += 1
    if not shape:
        return n
    for a, b, what in ((decs[0], q.stmt(spends[0]), 'spent'), (incs[0], q.stmt(puts[0]), 'added')):
        loop = [p for p, _fld in q.enclosing_chain(a, f.node) if isinstance(p, ast.For)]
        loop_b = [p for p, _fld in q.enclosing_chain(b, f.node) if isinstance(p, ast.For)]
        ok = bool(loop) and bool(loop_b) and loop[0] is loop_b[0]
        wit = None
        if ok:
            ok, wit = pr.control_equivalent_in_loop(cfg, loop[0], [cfg.node(a)], [cfg.node(b)])
        ctx.check(ok, rule, ctx.key(f, a, f'counts each {what} UTXO'),
                  f'`{norm(a)}` happens in exactly the iterations in which a UTXO is {what}',
                  f'`{norm(a)}` is not control-equivalent with the UTXO being {what} (the persisted UTXO count drifts)',
                  witness=wit, loc=ctx.loc(f, a))
        n += 1
    return n


def rule_trunc(ctx):
    hb = ctx.func('hist', 'History.backup')
    n = 0
    d = df.defs(hb)
    bis = []
    for c in q.own_calls(hb):
        nm = q.callee_name(ctx, hb, c)
        if nm.split('.')[-1] in ('bisect_left', 'bisect_right', 'bisect'):
            bis.append(c)
    ok, why = False, f'expected one bisection, found {len(bis)}'
    if len(bis) == 1:
        c = bis[0]
        nm = q.callee_name(ctx, hb, c).split('.')[-1]
        arr, probe = (c.args + [None, None])[:2]
        arr_ok = False
        if isinstance(arr, ast.Name):
            # a = array.array('Q'); a.frombytes(b''.join(item + bytes(3) for item in chunks(hist, 5)))
            adef = [rhs for st, rhs in d.get(arr.id, []) if isinstance(rhs, ast.Call) and norm(rhs.func).endswith('array')
                    and rhs.args and const_value(rhs.args[0]) == 'Q']
            fb = [x for x in q.own_calls(hb) if isinstance(x.func, ast.Attribute) and x.func.attr == 'frombytes'
                  and norm(x.func.value) == arr.id]
            # ... or in one step: a = array.array('Q', b''.join(...))   (the array is then fresh by construction)
            direct = len(adef) == 1 and len(adef[0].args) == 2 and not fb
            if direct:
                fb = [adef[0]]
            if len(adef) == 1 and len(fb) == 1 and fb[0].args:
                j = fb[0].args[-1] if direct else fb[0].args[0]
                if isinstance(j, ast.Call) and norm(j.func) == "b''.join" and isinstance(j.args[0], ast.GeneratorExp):
                    g = j.args[0]
                    it = g.generators[0].iter
                    pad = g.elt
                    if isinstance(it, ast.Call) and q.callee_name(ctx, hb, it).endswith('chunks') and len(it.args) == 2 \
                            and isinstance(pad, ast.BinOp) and isinstance(pad.op, ast.Add) \
                            and norm(pad.left) == norm(g.generators[0].target) and isinstance(pad.right, ast.Call) \
                            and norm(pad.right.func) == 'bytes' and const_value(pad.right.args[0]) is not None:
                        w = const_value(it.args[1])
                        arr_ok = isinstance(w, int) and w + const_value(pad.right.args[0]) == 8
                        # the array holds the numbers of THIS row only: it is created in the same loop iteration that
                        # fills it (frombytes appends - an array made once per script hash accumulates earlier rows)
                        adef_st = [st for st, rhs in d.get(arr.id, []) if rhs is adef[0]]
                        inner_fb = [p for p, _f in q.enclosing_chain(q.stmt(fb[0]), hb.node) if isinstance(p, (ast.For, ast.While))]
                        # (it must be the row loop: the array is decoded from this row's bytes)
                        inner_def = [p for p, _f in q.enclosing_chain(adef_st[0], hb.node) if isinstance(p, (ast.For, ast.While))] if adef_st else []
                        if not (inner_fb and inner_def and inner_fb[0] is inner_def[0]):
                            arr_ok = False
        probe_ok = probe is not None and norm(probe) == hb.params[2]
        ok = nm == 'bisect_left' and arr_ok and probe_ok
        why = f'{nm}({norm(arr)}, {norm(probe)}): decoded-integer array ok={arr_ok}, probe is the tx count ok={probe_ok}'
        idx_stmt = q.stmt(c)
        idxv = norm(idx_stmt.targets[0]) if isinstance(idx_stmt, ast.Assign) else None
    ctx.check(ok, 'C03.TRUNC', ctx.key(hb, None, 'cut point'),
              'history rows are cut at bisect_left(decoded tx numbers, tx_count): entries >= tx_count go, the rest stay',
              'history is not cut at the first entry >= tx_count of the decoded tx numbers: ' + why, loc=ctx.loc(hb, hb.node))
    n += 1
    if ok and idxv:
        # keep prefix hist[:5*idx] under idx > 0 (then stop), else delete the row and continue with the older one
        loops = [s for s in hb.own_nodes() if isinstance(s, ast.For) and isinstance(s.iter, ast.Call)
                 and isinstance(s.iter.func, ast.Attribute) and s.iter.func.attr == 'iterator']
        okl, whyl = False, 'row loop not found'
        if len(loops) == 1:
            lp = loops[0]
            kws = {k.arg: norm(k.value) for k in lp.iter.keywords}
            rev = kws.get('reverse') == 'True'
            keyv, histv = [norm(e) for e in lp.target.elts] if isinstance(lp.target, ast.Tuple) else (None, None)
            # per path through one row: idx > 0 (some entries survive) => the row keeps its prefix hist[:5 * idx] and the walk
            # stops; otherwise the emptied row is queued for deletion and the walk goes on with the next older row
            from .. import paths as P
            keep_ok, whyl = bool(keyv), 'row loop target not (key, hist)'
            n_keep = n_del = 0
            for pth in P.paths(lp.body) if keyv else []:
                itxt = norm(pth.env[idxv]) if idxv in pth.env else norm(c)        # the bisection, locals expressed in the row
                surv = P.decided(ctx, hb, pth, f'{itxt} > 0')
                if surv is None:
                    surv_ne = P.decided(ctx, hb, pth, f'{itxt} == 0')
                    surv = None if surv_ne is None else (not surv_ne)
                if surv is None:
                    surv = P.truthy(pth, itxt)         # `if idx:` - a bisection result is never negative
                simple = [(st_, e_) for st_, e_ in pth.events if isinstance(st_, (ast.Assign, ast.Expr))]
                keeps = [st_ for st_, e_ in simple if isinstance(st_, ast.Assign) and isinstance(st_.targets[0], ast.Subscript)
                         and norm(st_.targets[0].slice) == keyv]
                dels = [st_ for st_, e_ in simple if isinstance(st_, ast.Expr) and isinstance(st_.value, ast.Call) and isinstance(st_.value.func, ast.Attribute)
                        and st_.value.func.attr == 'append' and st_.value.args and norm(st_.value.args[0]) == keyv]
                if surv is None:
                    keep_ok, whyl = False, f'a path through the row is not decided by idx > 0: {pth.cond_texts()}'
                    break
                if surv:
                    n_keep += 1
                    sl_ok = False
                    if len(keeps) == 1 and isinstance(keeps[0].value, ast.Subscript) and norm(keeps[0].value.value) == histv \
                            and isinstance(keeps[0].value.slice, ast.Slice) and keeps[0].value.slice.lower is None:
                        sl_ok = norm(keeps[0].value.slice.upper) in (f'5 * {idxv}', f'{idxv} * 5')
                    if not (sl_ok and pth.exit == 'break' and not dels):
                        keep_ok, whyl = False, f'with survivors: kept prefix ok={sl_ok}, stops={pth.exit == "break"}, not deleted={not dels}'
                else:
                    n_del += 1
                    if not (len(dels) == 1 and not keeps and pth.exit in ('continue', 'fall')):
                        keep_ok, whyl = False, f'emptied row: deleted={len(dels) == 1}, nothing kept={not keeps}, walk goes on={pth.exit in ("continue", "fall")}'
            keep_ok = keep_ok and n_keep >= 1 and n_del >= 1
            if keep_ok:
                whyl = 'ok'
            outer_l = [p for p, _f in q.enclosing_chain(lp, hb.node) if isinstance(p, ast.For)]
            okl = rev and keep_ok and bool(outer_l) and norm(kws.get('prefix')) == norm(outer_l[0].target)
        ctx.check(okl, 'C03.TRUNC', ctx.key(hb, None, 'row walk'),
                  'rows of a script hash are walked newest first: emptied rows are deleted, the first row with survivors keeps its prefix and ends the walk',
                  'the row walk does not truncate exactly the newest entries: ' + whyl, loc=ctx.loc(hb, hb.node))
        n += 1
    # every touched hashX is processed
    outer = [s for s in hb.own_nodes() if isinstance(s, ast.For) and norm(s.iter) in (f'sorted({hb.params[1]})', hb.params[1])]
    ctx.check(len(outer) == 1, 'C03.TRUNC', ctx.key(hb, None, 'all touched script hashes'),
              'every touched script hash is truncated', 'not every touched script hash is truncated', loc=ctx.loc(hb, hb.node))
    return n + 1


def rule_flushfirst(ctx):
    f = ctx.func('bp', 'BlockProcessor.reorg_chain')
    cfg = ctx.cfg(f)
    bb = ctx.func('bp', 'BlockProcessor.backup_block')
    fl = ctx.func('bp', 'BlockProcessor.flush')
    backs = [c for c in q.own_calls(f) if ctx.res.is_ext(c, f, 'run_in_thread') and c.args and
             ctx.res.resolve_ref(c.args[0], f) is not None and ctx.res.resolve_ref(c.args[0], f).key == bb.key]
    fls = calls_to(ctx, f, f.node, fl.key)
    ok = len(backs) == 1 and len(fls) >= 1
    wit = None
    if ok:
        ok = norm(fls[0].args[0]) == 'True' if fls[0].args else False
        bn = cfg.node(q.stmt(backs[0]))
        p = pr.path_avoiding(cfg, [cfg.entry], [bn], {cfg.node(q.stmt(x)) for x in fls})
        if p is not None:
            ok, wit = False, cfg.describe_path(p)
    ctx.check(ok, 'C03.FLUSHFIRST', ctx.key(f, None, 'flush before first backup'),
              'everything is flushed (UTXOs included) before the first block is backed out',
              'a block can be backed out while unflushed state is pending (backup_block requires a flushed state)',
              witness=wit, loc=ctx.loc(f, f.node))
    # blocks are backed out from the tip downwards, each only if it is the current tip
    loops = [s for s in f.own_nodes() if isinstance(s, ast.For) and backs and q.in_body(backs[0], s.body)]
    ok2 = False
    if len(loops) == 1:
        lp = loops[0]
        ok2 = isinstance(lp.iter, ast.Call) and norm(lp.iter.func) == 'reversed' and len(lp.iter.args) == 1
        first = lp.body[0]
        ok2 = ok2 and isinstance(first, ast.If) and 'hash_to_hex_str(self.state.tip)' in norm(first.test) \
            and isinstance(first.test, ast.Compare) and isinstance(first.test.ops[0], ast.NotEq) \
            and norm(lp.target) in norm(first.test) and any(isinstance(x, ast.Return) for x in first.body)
    ctx.check(ok2, 'C03.FLUSHFIRST', ctx.key(f, None, 'tip downwards'),
              'blocks are backed out from the tip downwards, each only while it is the current tip',
              'blocks are not backed out strictly from the tip downwards under the is-tip test', loc=ctx.loc(f, f.node))
    return 2


def rule_range(ctx):
    f = ctx.func('bp', 'BlockProcessor._calc_reorg_range')
    n = 0
    # every way out of the function, with locals expressed in the inputs: (start, count) must satisfy
    # start + count - 1 == self.state.height, whichever spelling (one return, early returns, conditional expressions)
    from .. import paths as P
    rets = P.returns(f.node)
    if not rets or any(not (isinstance(r.value, ast.Tuple) and len(r.value.elts) == 2) for r in rets):
        raise AnalysisError(f'{f.key}: expected every exit to be `return start, count`')
    cp_ = f.params[1]
    groups = {'natural reorg branch': [], 'forced reorg branch': []}
    undecided = []
    for r in rets:
        d_ = P.decided(ctx, f, r, f'{cp_} < 0')
        if d_ is None:
            undecided.append(r)
        else:
            groups['natural reorg branch' if d_ else 'forced reorg branch'].append(r)
    sv = None
    for r in groups['natural reorg branch']:
        for x in ast.walk(r.value.elts[0]):
            if isinstance(x, ast.Name) and "'" in x.id:
                sv = x.id.split("'")[0]
    br = next((nd for r in rets for _t, _pol, nd in r.conds if isinstance(nd, ast.If)), f.node)
    for label, rs in groups.items():
        ok, txt = bool(rs), 'no such exit'
        for r in rs:
            try:
                tot = q.linear(ctx, None, ast.BinOp(left=ast.BinOp(left=r.value.elts[0], op=ast.Add(), right=r.value.elts[1]), op=ast.Sub(),
                                                    right=ast.parse('self.state.height + 1', mode='eval').body))
                good = q.lin_eq(tot, {'': 0})
                txt = f'start + count - 1 - height = {q.lin_text(tot)}'
            except q.NotLinear as e:
                good, txt = False, f'not linear: {e}'
            ok = ok and good
            if not good:
                break
        ctx.check(ok, 'C03.RANGE', ctx.key(f, None, label),
                  f'{label}: start + count - 1 = height ({txt})',
                  f'{label}: the range does not end at the current height ({txt})', loc=ctx.loc(f, br))
        n += 1
    ctx.check(not undecided, 'C03.RANGE',
              ctx.key(f, None, 'branch selection'), 'count < 0 selects the natural-reorg search',
              f'an exit is not selected by `count < 0`: {[" & ".join(r.cond_texts()) for r in undecided][:2]}', loc=ctx.loc(f, br))
    n += 1
    # the natural branch is the one with the search loop, the forced branch has none
    for label, rs in groups.items():
        loops_on = [any(isinstance(st_, ast.While) for st_, _e in r.events) for r in rs]
        want_loop = label.startswith('natural')
        ctx.check(bool(rs) and all(l_ == want_loop for l_ in loops_on), 'C03.RANGE', ctx.key(f, None, label + ' search'),
                  'the backwards search runs on the natural branch only',
                  f'{label}: the search loop {"does not run" if want_loop else "runs"} on this branch', loc=ctx.loc(f, br))
        n += 1
    # the backwards search stops at the first window whose leading hashes match: start moves to the first differing height
    wl = [s for s in walk_own(f.node) if isinstance(s, ast.While)]
    ok, why = False, 'no search loop on the natural branch'
    if len(wl) == 1:
        brks = [b for b in walk_own(wl[0]) if isinstance(b, ast.Break)]
        why = 'expected one `break` in the search loop'
        if len(brks) == 1:
            conds = pr.control_conditions(brks[0], wl[0])
            d_ = df.defs(f)
            why = 'the break is not guarded by a single test'
            if len(conds) == 1 and conds[0][1]:
                t = conds[0][0]
                nv = None
                if isinstance(t, ast.Name):
                    nv = t.id
                else:
                    vc = q.var_vs_const(t)
                    if vc and ((vc[1], vc[2]) in (('>', 0), ('>=', 1), ('!=', 0))):
                        nv = vc[0]
                why = f'the search stops under `{norm(t)}`, not as soon as the window starts with matching hashes'
                if nv is not None:
                    nd = d_.get(nv, [])
                    # the helper is recognised by what it does (index of the first pair of a zip that differs, else the
                    # length), wherever it lives: closure, static method, module function
                    from_diff = False
                    if len(nd) == 1 and isinstance(nd[0][1], ast.Call):
                        tgt = ctx.res.resolve_ref(nd[0][1].func, f)
                        if tgt is None and isinstance(nd[0][1].func, ast.Name):
                            tgt = next((g_ for g_ in ctx.repo.funcs.values() if g_.name == nd[0][1].func.id and g_.parent is f), None)
                        from_diff = tgt is not None and hasattr(tgt, 'node') and _is_first_difference(tgt)
                    moved = [a for a in conds[0][2].body if isinstance(a, ast.AugAssign) and isinstance(a.op, ast.Add)
                             and norm(a.target) == sv and norm(a.value) == nv]
                    ok = from_diff and len(moved) == 1
                    why = 'the matched-prefix length does not come from the first-difference helper' if not from_diff else \
                        'start is not advanced by the matched-prefix length'
    ctx.check(ok, 'C03.RANGE', ctx.key(f, br, 'search stops at the first matching prefix'),
              'the search stops at the first window with a non-empty matching prefix and start moves to the first differing height',
              why + ': the reorganisation then backs out more blocks than the fork is deep, beyond the undo window', loc=ctx.loc(f, br))
    n += 1
    # _reorg_hashes reads exactly that range from the DB
    g = ctx.func('bp', 'BlockProcessor._reorg_hashes')
    cr = calls_to(ctx, g, g.node, f.key)
    fb = calls_canon(ctx, g, g.node, 'self.db.fs_block_hashes')
    ok = len(cr) == 1 and len(fb) == 1 and isinstance(q.stmt(cr[0]), ast.Assign)
    if ok:
        tv = [norm(e) for e in q.stmt(cr[0]).targets[0].elts]
        ok = [norm(a) for a in fb[0].args] == tv
        rets = [s for s in g.own_nodes() if isinstance(s, ast.Return)]
        ok = ok and len(rets) == 1 and isinstance(rets[0].value, ast.Tuple) and norm(rets[0].value.elts[0]) == tv[0]
    ctx.check(ok, 'C03.RANGE', ctx.key(g, None, 'hashes of the range'),
              'the hashes to back out are the indexed hashes of exactly [start, start+count)',
              '_reorg_hashes does not read exactly the computed range', loc=ctx.loc(g, g.node))
    return n + 1


def _env_at(pth, stmt):
    """bindings of plain locals in force when `stmt` runs on the path (re-played from the statements passed before it)"""
    from .. import paths as P
    env = {}
    for st in pth.passed:
        if st is stmt:
            break
        if isinstance(st, ast.Assign) and len(st.targets) == 1 and isinstance(st.targets[0], ast.Name):
            env[st.targets[0].id] = P.subst(st.value, env)
        elif isinstance(st, ast.AugAssign) and isinstance(st.target, ast.Name):
            cur_ = env.get(st.target.id, ast.Name(id=st.target.id, ctx=ast.Load()))
            env[st.target.id] = ast.BinOp(left=cur_, op=st.op, right=P.subst(st.value, env))
    return env


def rule_reorg_flush(ctx, rule='C03.REORGFLUSH'):
    """reorg_chain flushes everything (under the state lock) before it asks the DB which blocks to back out: the hashes of
    the blocks above the last flush exist only in memory until then, so a range computed first is read from files that do
    not hold it (stale or missing hashes) and the wrong blocks are fetched and backed out."""
    f = ctx.func('bp', 'BlockProcessor.reorg_chain')
    cfg = ctx.cfg(f)
    rh = ctx.func('bp', 'BlockProcessor._reorg_hashes')
    fl = ctx.func('bp', 'BlockProcessor.flush')
    reads = [q.stmt(c) for c in q.own_calls(f) if ctx.res.resolve_ref(c.func, f) is not None and ctx.res.resolve_ref(c.func, f).key == rh.key]
    flushes = [q.stmt(c) for c in q.own_calls(f) if ctx.res.resolve_ref(c.func, f) is not None and ctx.res.resolve_ref(c.func, f).key == fl.key
               and c.args and norm(c.args[0]) == 'True']
    ok = len(reads) == 1 and bool(flushes)
    p = None
    if ok:
        p = pr.path_avoiding(cfg, [cfg.entry], [cfg.node(reads[0])], {cfg.node(s_) for s_ in flushes})
    ctx.check(ok and p is None, rule, ctx.key(f, reads[0] if reads else None, 'flushed before the range is read'),
              'the reorganisation flushes everything before it reads the hashes to back out from the DB',
              'the hashes to back out are read from the DB before the full flush: blocks processed since the last flush are not on '
              'disk yet, so the range is computed from stale files', witness=cfg.describe_path(p) if p else None, loc=ctx.loc(f, f.node))
    return 1


def _is_first_difference(g):
    """for n, (a, b) in enumerate(zip(X, Y)): if a != b: return n   ...   return len(<one of them / the enclosing list>)"""
    loops = [s_ for s_ in g.node.body if isinstance(s_, ast.For)]
    if len(loops) != 1:
        return False
    lp = loops[0]
    it = lp.iter
    if not (isinstance(it, ast.Call) and norm(it.func) == 'enumerate' and len(it.args) == 1 and isinstance(it.args[0], ast.Call)
            and norm(it.args[0].func) == 'zip' and len(it.args[0].args) == 2 and isinstance(lp.target, ast.Tuple) and len(lp.target.elts) == 2
            and isinstance(lp.target.elts[0], ast.Name) and isinstance(lp.target.elts[1], ast.Tuple) and len(lp.target.elts[1].elts) == 2):
        return False
    idx = lp.target.elts[0].id
    a, b = [norm(e) for e in lp.target.elts[1].elts]
    rets = [r for r in walk_own(lp) if isinstance(r, ast.Return)]
    if len(rets) != 1 or norm(rets[0].value) != idx:
        return False
    conds = pr.control_conditions(rets[0], lp)
    if len(conds) != 1 or not conds[0][1] or not isinstance(conds[0][0], ast.Compare) or not isinstance(conds[0][0].ops[0], ast.NotEq) \
            or {norm(conds[0][0].left), norm(conds[0][0].comparators[0])} != {a, b}:
        return False
    if any(isinstance(x, (ast.Break, ast.Continue)) for x in walk_own(lp)):
        return False
    tail = [r for r in g.node.body if isinstance(r, ast.Return)]
    return len(tail) == 1 and isinstance(tail[0].value, ast.Call) and norm(tail[0].value.func) == 'len'


def rule_heights(ctx):
    '''(height, hash) pairs given to the prefetcher attach start + i to the i-th hash of the ascending list.'''
    n = 0
    pm = ctx.func('bp', 'OnDiskBlock.prefetch_many')
    rh = ctx.func('bp', 'BlockProcessor._reorg_hashes')
    for qual in ('BlockProcessor.reorg_chain', 'BlockProcessor.next_block_hashes'):
        f = ctx.func('bp', qual)
        d = df.defs(f)
        for c in calls_to(ctx, f, f.node, pm.key):
            n += 1
            pairs = c.args[1] if len(c.args) > 1 else None
            e = pairs
            if isinstance(e, ast.Name):
                dd = d.get(e.id, [])
                e = dd[0][1] if len(dd) == 1 else None
            # strip order-only wrappers
            while True:
                if isinstance(e, ast.Call) and norm(e.func) in ('reversed', 'list', 'tuple') and len(e.args) == 1:
                    e = e.args[0]
                elif isinstance(e, ast.Subscript) and norm(e.slice) == '::-1':
                    e = e.value
                else:
                    break
            ok, why = False, f'pairs expression not recognised: {norm(pairs)}'
            # zip(range(S, S + len(hs)), hs) pairs exactly as enumerate(hs, start=S) does
            zipped = None
            if isinstance(e, ast.Call) and norm(e.func) == 'zip' and len(e.args) == 2 and isinstance(e.args[0], ast.Call) \
                    and norm(e.args[0].func) == 'range' and len(e.args[0].args) == 2 and isinstance(e.args[1], ast.Name):
                lo_, hi_ = e.args[0].args
                if norm(hi_) in (f'{norm(lo_)} + len({e.args[1].id})', f'len({e.args[1].id}) + {norm(lo_)}'):
                    zipped = (e.args[1], lo_)
            if zipped is not None or (isinstance(e, ast.Call) and norm(e.func) == 'enumerate' and e.args):
                if zipped is not None:
                    hs, start = zipped
                else:
                    hs = e.args[0]
                    start = None
                    for kw in e.keywords:
                        if kw.arg == 'start':
                            start = kw.value
                    if len(e.args) > 1:
                        start = e.args[1]
                if isinstance(hs, ast.Name) and start is not None:
                    # (start, hashes) must come from one call: `start, hashes = await self._reorg_hashes(count)` or
                    # hashes = await self.daemon.block_hex_hashes(first, count) with start == first
                    hd = d.get(hs.id, [])
                    good = False
                    for st, rhs in hd:
                        r = rhs.value if isinstance(rhs, ast.Await) else rhs
                        if isinstance(st, ast.Assign) and isinstance(st.targets[0], ast.Tuple) and isinstance(r, ast.Call):
                            names = [norm(x) for x in st.targets[0].elts]
                            if names == [norm(start), hs.id] and ctx.res.resolve_ref(r.func, f) is rh:
                                good = True
                        elif isinstance(r, ast.Call) and q.callee_name(ctx, f, r) == 'self.daemon.block_hex_hashes' \
                                and r.args and norm(r.args[0]) == norm(start):
                            good = True
                        elif isinstance(r, ast.List) and not r.elts:
                            pass
                    ok = good
                    why = f'{norm(e)} with hashes from {[norm(x[1]) for x in hd]}'
                else:
                    why = f'enumerate over `{norm(hs)}`: heights are attached to a re-ordered list'
            ctx.check(ok, 'C03.HEIGHTS', ctx.key(f, q.stmt(c), 'height/hash pairing'),
                      'each block hash is paired with its own height (start + position in the ascending list)',
                      'block hashes are paired with the wrong heights: ' + why +
                      ' (backup_block would read another block\'s undo information)', loc=ctx.loc(f, c))
    return n


def rule_touched(ctx, rule='C03.TOUCHED'):
    bak = ctx.func('bp', 'BlockProcessor.backup_block')
    spend = ctx.func('bp', 'BlockProcessor.spend_utxo')
    cfg = ctx.cfg(bak)
    btx = tx_loop(ctx, bak)
    bin_, txv = input_loop(ctx, bak, btx)
    bout = output_loop(ctx, bak, btx, txv)
    n = 0
    adds = calls_canon(ctx, bak, btx, 'self.touched.add')
    # spent outputs
    sp = calls_to(ctx, bak, bout, spend.key)
    a_out = [c for c in adds if q.in_body(c, bout.body)]
    ok = len(sp) == 1 and len(a_out) == 1
    wit = None
    if ok:
        arg = a_out[0].args[0]
        if isinstance(q.stmt(sp[0]), ast.Assign) and q.stmt(sp[0]).value is sp[0]:
            rv = norm(q.stmt(sp[0]).targets[0])
            ok = isinstance(arg, ast.Subscript) and norm(arg.value) == rv
        else:       # the removed row is sliced where it is returned: touched.add(spend_utxo(...)[:-13])
            ok = isinstance(arg, ast.Subscript) and arg.value is sp[0]
        ok2, wit = pr.control_equivalent_in_loop(cfg, bout, [cfg.node(q.stmt(sp[0]))], [cfg.node(q.stmt(a_out[0]))])
        ok = ok and ok2
    ctx.check(ok, rule, ctx.key(bak, bout, 'spent outputs touched'),
              'the script hash of every output removed by the backup enters self.touched',
              'script hashes of outputs removed by the backup do not all reach self.touched '
              '(their cached histories / subscribers are never refreshed)', witness=wit, loc=ctx.loc(bak, bout))
    n += 1
    a_in = [c for c in adds if q.in_body(c, bin_.body)]
    puts = calls_canon(ctx, bak, bin_, 'self.utxo_cache.__setitem__')
    ok = len(a_in) == 1 and len(puts) == 1
    if ok:
        arg = a_in[0].args[0]
        ok = isinstance(arg, ast.Subscript) and norm(arg.value) == norm(puts[0].args[1])
        ok2, wit = pr.control_equivalent_in_loop(cfg, bin_, [cfg.node(q.stmt(puts[0]))], [cfg.node(q.stmt(a_in[0]))])
        ok = ok and ok2
    ctx.check(ok, rule, ctx.key(bak, bin_, 'restored inputs touched'),
              'the script hash of every restored input enters self.touched',
              'script hashes of restored inputs do not all reach self.touched', witness=wit, loc=ctx.loc(bak, bin_))
    n += 1
    # nobody drops self.touched between backups and the next on_block: only on_caught_up / advance_blocks rebind it
    rebinds = []
    for g in ctx.repo.funcs.values():
        if g.cls == 'BlockProcessor' and g.name != '__init__':
            for s in q.assigns(ctx, g, 'self.touched'):
                rebinds.append((g, s))
        if g.cls == 'BlockProcessor':
            for c in q.own_calls(g):
                if q.callee_name(ctx, g, c) in ('self.touched.clear', 'self.touched.difference_update', 'self.touched.intersection_update'):
                    rebinds.append((g, q.stmt(c)))
    allowed = {'BlockProcessor.on_caught_up', 'BlockProcessor.advance_blocks'}
    bad = [f'{ctx.loc(g, s)} {g.qual}: {norm(s)}' for g, s in rebinds if g.qual not in allowed]
    ctx.check(not bad, rule, 'electrumx/server/block_processor.py :: BlockProcessor :: touched reset sites',
              'the touched set is reset only after it was reported (on_caught_up) or while not serving (advance_blocks)',
              f'the touched set is reset elsewhere: {bad}')
    n += 1
    # advance_blocks resets only when not caught up
    ab = ctx.func('bp', 'BlockProcessor.advance_blocks')
    for s in q.assigns(ctx, ab, 'self.touched'):
        conds = pr.control_conditions(s, ab.node)
        ok = any(b and norm(t) == 'not self.caught_up' for t, b, _p in conds) or \
            any((not b) and norm(t) == 'self.caught_up' for t, b, _p in conds)
        ctx.check(ok, rule, ctx.key(ab, s), 'touched is discarded only while there are no clients (not caught up)',
                  'touched is discarded while clients may be subscribed', loc=ctx.loc(ab, s))
        n += 1
    return n


def run(ctx):
    ctx.rule('C03.TIPCHECK', lambda: rule_tipcheck(ctx), 5)
    ctx.rule('C03.UNDODUAL', lambda: rule_undodual(ctx), 7)
    ctx.rule('C03.REORGFLUSH', lambda: rule_reorg_flush(ctx), 1)
    ctx.rule('C03.INVERSE', lambda: rule_inverse(ctx), 12)
    ctx.rule('C03.TRUNC', lambda: rule_trunc(ctx), 3)
    ctx.rule('C03.FLUSHFIRST', lambda: rule_flushfirst(ctx), 2)
    ctx.rule('C03.RANGE', lambda: rule_range(ctx), 4)
    ctx.rule('C03.HEIGHTS', lambda: rule_heights(ctx), 2)
    ctx.rule('C03.TOUCHED', lambda: rule_touched(ctx), 4)
    ctx.rule('C03.MEMO', lambda: rule_memo(ctx), 12)
    from . import c01 as _c01u
    ctx.rule('C03.UNSPENDABLE', lambda: _c01u.rule_unspendable(ctx), 5)
    from . import c02 as _c02, c10 as _c10
    ctx.rule('C03.BISECT', lambda: _c02.rule_bisect(ctx), 2)
    ctx.rule('C03.SIGNAL', lambda: _c10.rule_signal(ctx, 'C03.SIGNAL'), 5)
    # headers are an observable of the index: the header merkle cache must not keep orphaned block hashes
    from . import c11
    ctx.rule('C03.HEADERMC', lambda: c11.rule_truncate(ctx, 'C03.HEADERMC'), 2)
    # undo pairs each undo entry with the transactions in exact reverse order
    from . import c13
    ctx.rule('C03.REVERSE', lambda: c13.rule_reverse(ctx, 'C03.REVERSE'), 3)
    # 'a fork of any depth within the configured reorg limit': undo information must exist for that window (C15)
    from . import c15
    c15.run(ctx, standalone=False)
    # the backup flush truncates history with the decremented count in the same job (shared with C05 / C06)
    from ..effects import InlineGraph
    from .flushcommon import commit_points
    from . import c05
    fb = ctx.func('db', 'DB.flush_backup')
    ig = InlineGraph(ctx, fb)
    cps, _ = commit_points(ig)
    if len(cps) == 1:
        ctx.rule('C03.HISTTRUNC', lambda: c05.rule_histtrunc(ctx, ig, cps[0], 'C03'), 7)
    else:
        ctx.bad('C03.HISTTRUNC', ctx.key(fb, None, 'commit point'), 'backup flush has no single UTXO commit with the state record',
                loc=ctx.loc(fb, fb.node))


def rule_memo(ctx, rule='C03.MEMO'):
    '''DB and History keep no derived copy of table / file content that a backup does not also cut.  A field that a
    *reader* method fills (a memo in front of fs_tx_hash, a cache of rows) survives the reorganisation; tx numbers and
    heights are re-used by the replacing blocks, so the memo then answers with the orphaned block's data.

    Readers = methods of the class not reachable (plain calls) from its state-transition entry points (open / flush /
    backup / compaction).  Every field a reader writes - by assignment, subscript store or mutating call - must also be
    written by a method reachable from the backup entry point.'''
    n = 0
    MUT = ('append', 'extend', 'add', 'update', 'pop', 'popitem', 'clear', 'setdefault', 'insert', 'remove', 'discard', 'truncate')
    for mod, cls, entries, backup_entries in (
            ('db', 'DB', ('open_for_sync', 'open_for_serving', 'open_for_compacting', 'flush_dbs', 'flush_backup', 'set_flush_count',
                          'populate_header_merkle_cache', '__init__'), ('flush_backup',)),
            ('hist', 'History', ('open_db', 'close_db', 'flush', 'backup', 'add_unflushed', '_compact_history', 'cancel_compaction',
                                 '_cancel_compaction', 'clear_excess', '__init__'), ('backup',))):
        rel = ctx.repo.path(mod)
        methods = {f.name: f for f in ctx.repo.funcs.values() if f.unit.relpath == rel and f.cls == cls and f.parent is None}

        def closure(names):
            seen, work = set(), [methods[x] for x in names if x in methods]
            while work:
                g = work.pop()
                if g.key in seen:
                    continue
                seen.add(g.key)
                for e in ctx.cg.callees(g, ('CALL', 'AWAIT', 'THREAD')):
                    if e[1].cls == cls and e[1].unit.relpath == rel:
                        work.append(e[1])
                for nested in g.nested.values():
                    work.append(nested)
            return seen
        trans = closure(entries)
        back = closure(backup_entries)

        def writes(g):
            out = set()
            for s_ in g.own_nodes():
                if isinstance(s_, ast.AugAssign) and isinstance(s_.value, ast.Constant) and isinstance(s_.value.value, (int, float)):
                    continue        # a statistics counter (`self.lookups += 1`) remembers nothing about the chain
                tg = s_.targets if isinstance(s_, (ast.Assign, ast.Delete)) else [s_.target] if isinstance(s_, (ast.AugAssign, ast.AnnAssign)) else []
                for t in tg:
                    for e in (t.elts if isinstance(t, (ast.Tuple, ast.List)) else [t]):
                        b = e
                        while isinstance(b, ast.Subscript):
                            b = b.value
                        c = ctx.res.canon(b, g) if isinstance(b, (ast.Attribute, ast.Name)) else None
                        if c and c.startswith('self.') and c.count('.') == 1 and (isinstance(e, ast.Subscript) or isinstance(b, ast.Attribute)):
                            out.add(c)
                if isinstance(s_, ast.Call) and isinstance(s_.func, ast.Attribute) and s_.func.attr in MUT:
                    c = ctx.res.canon(s_.func.value, g)
                    if c and c.startswith('self.') and c.count('.') == 1:
                        out.add(c)
            return out
        back_w = set()
        for g in ctx.repo.funcs.values():
            if g.key in back:
                back_w |= writes(g)
        # memoising decorators keep results across a backup just like a hand-written memo
        for name, g in sorted(methods.items()):
            decos = [norm(d_) for d_ in g.node.decorator_list]
            memo = [d_ for d_ in decos if any(k in d_ for k in ('lru_cache', 'functools.cache', 'cachedproperty', 'cached_property'))
                    or d_ in ('cache',)]
            if memo:
                n += 1
                ctx.bad(rule, ctx.key(g, None, 'memoised method'),
                        f'{cls}.{name} is memoised by @{memo[0]}: nothing drops the memo when blocks are backed out, and its keys '
                        '(tx numbers, heights) are re-used by the replacing blocks', loc=ctx.loc(g, g.node))
        for name, g in sorted(methods.items()):
            fam = [g] + list(g.nested.values())
            if g.key in trans:
                continue
            n += 1
            w = set()
            for x in fam:
                w |= writes(x)
            stale = sorted(w - back_w)
            ctx.check(not stale, rule, ctx.key(g, None, 'reader keeps no state a backup leaves behind'),
                      f'{cls}.{name} writes no field, or only fields the backup path also cuts',
                      f'{cls}.{name} is a reader but fills {stale}, which no method on the backup path ({", ".join(backup_entries)}) '
                      'writes: after a reorganisation it still answers from the orphaned blocks (tx numbers and heights are re-used)',
                      loc=ctx.loc(g, g.node))
    return n
