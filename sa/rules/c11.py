'''C11 - every merkle proof the server hands out verifies against the current chain.

Decided: TRUNCATE (every backup flush truncates the header merkle cache to at most height + 1), EXTEND (the
cache never commits hashes read across a suspension without re-checking its truncation epoch; the epoch is
bumped on every truncate call), RANGE (header proofs only under height <= cp_height <= db height, with
length cp_height + 1), CACHES (by-height caches cleared on the reorg signal - shared with C10.SIGNAL - and
filled only from validated reads), BYHEIGHT (reads above the flushed height refused), TSCFORWARD (shared
with C12).
Not decided: that proofs fold to the right root (numeric, C12's remainder).
'''
import ast

from ..model import AnalysisError, norm, walk_own
from .. import q, pathrules as pr
from .fresh import Fresh, rule_epoch_bumped
from . import c10

EXPLANATION = ('static necessary conditions of C11: header cache truncated on every backup flush, epoch-validated cache extension '
               '(MerkleCache._extend_to vs truncate on the worker thread), truncation epoch bumped on every call, header-proof range '
               'guard dominating the cache call, by-height caches cleared on the reorg signal and filled from validated reads, '
               'by-height reads bounded by the flushed height. Does NOT decide that proofs fold to the right root.')
ASSUMPTIONS = c10.ASSUMPTIONS + ['MerkleCache.initialize reads only hashes at least reorg_limit below the tip (header cache) or an '
                                 'immutable list (per-block caches): exempt from EXTEND (enumerated)']

EXEMPT_WRITERS = {'MerkleCache.__init__': 'construction', 'MerkleCache.truncate': 'the invalidator itself',
                  'MerkleCache.initialize': 'reads data that cannot be orphaned (see ASSUMPTIONS)'}


def rule_truncate(ctx, rule='C11.TRUNCATE'):
    """Every backup flush truncates the header merkle cache to at most (new height + 1) hashes, and does so only AFTER
    DB.state has been lowered: header readers clip to DB.state.height, so while it still has the old value a header
    proof request can read the orphaned headers and re-insert their hashes into an already truncated cache (nothing
    truncates it again after the last backed-out block)."""
    n = 0
    fb = ctx.func('db', 'DB.flush_backup')
    cfg = ctx.cfg(fb)
    fd = fb.params[1]
    dbrel = ctx.repo.path('db')

    def trunc_calls(g):
        return [c for c in q.own_calls(g) if q.callee_name(ctx, g, c) == 'self.header_mc.truncate' and len(c.args) == 1]

    def small(g, arg, hexpr):
        """arg <= hexpr + 1 as linear forms over g's names"""
        try:
            d = q.lin_sub(q.linear(ctx, g, arg), q.linear(ctx, g, ast.parse(f'{hexpr} + 1', mode='eval').body))
            return set(k for k, v in d.items() if v != 0) <= {''} and d.get('', 0) <= 0
        except q.NotLinear:
            return False
    sites = []     # (statement of flush_backup, ok_bound, text)
    for c in trunc_calls(fb):
        sites.append((q.stmt(c), small(fb, c.args[0], f'{fd}.state.height'), norm(c)))
    for e in ctx.cg.callees(fb, ('CALL',)):
        g, call = e[1], e[3]
        if g.unit.relpath != dbrel or g.cls != 'DB':
            continue
        for c in trunc_calls(g):
            okb = False
            for pi, pn in enumerate(g.params[1:]):
                if pi < len(call.args) and norm(call.args[pi]) == f'{fd}.state.height' and small(g, c.args[0], pn):
                    okb = True
            always = pr.path_avoiding(ctx.cfg(g), [ctx.cfg(g).entry], [ctx.cfg(g).exit], {ctx.cfg(g).node(q.stmt(c))}) is None
            sites.append((q.stmt(call), okb and always, f'{g.qual}: {norm(c)}'))
    # statements of flush_backup that lower DB.state (assign self.state, directly or in a callee)
    lowers = []
    for st in fb.own_nodes():
        if isinstance(st, ast.Assign) and any(ctx.res.canon(t, fb) == 'self.state' for t in st.targets if isinstance(t, ast.Attribute)):
            lowers.append(st)
    for e in ctx.cg.callees(fb, ('CALL',)):
        g = e[1]
        if g.unit.relpath == dbrel and g.cls == 'DB' and any(
                isinstance(st, ast.Assign) and any(isinstance(t, ast.Attribute) and ctx.res.canon(t, g) == 'self.state' for t in st.targets)
                for st in g.own_nodes()):
            lowers.append(q.stmt(e[3]))
    ok, why, wit = False, 'no header_mc.truncate on the backup flush path', None
    if sites and lowers:
        tn = {cfg.node(s) for s, _b, _t in sites}
        ln = {cfg.node(s) for s in lowers}
        p = pr.path_avoiding(cfg, [cfg.entry], [cfg.exit], tn)
        bound = all(b for _s, b, _t in sites)
        early = pr.path_avoiding(cfg, [cfg.entry], list(tn), ln)
        ok = p is None and bound and early is None
        if not bound:
            why = 'the truncation keeps more than (new height + 1) hashes: ' + '; '.join(t for _s, b, t in sites if not b)
        elif p is not None:
            why, wit = 'a backup flush can complete without truncating the header cache', cfg.describe_path(p)
        else:
            why, wit = ('the header cache is truncated before DB.state is lowered: until the state is lowered readers still fetch '
                        'the orphaned headers (they clip to DB.state.height) and a header proof served in that window puts the '
                        'orphaned hash back into the truncated cache'), (cfg.describe_path(early) if early else None)
    elif sites:
        why = 'flush_backup does not lower DB.state'
    ctx.check(ok, rule, ctx.key(fb, None, 'header cache truncated after the state is lowered'),
              'every backup flush truncates the header merkle cache to at most new height + 1 hashes, after DB.state was lowered',
              why + ': hashes of orphaned blocks stay in the cache and later header proofs fold to the abandoned chain',
              witness=wit, loc=ctx.loc(fb, fb.node))
    n += 1
    # pointers: backup_fs is called with the new (lower) height on every backup flush
    f = ctx.func('db', 'DB.backup_fs', required=False)
    if f is None:
        # merged into flush_backup: the pointer assignment itself
        sts = [s_ for s_ in fb.own_nodes() if isinstance(s_, ast.Assign) and len(s_.targets) == 1 and ctx.res.canon(s_.targets[0], fb) == 'self.fs_height']
        ok = len(sts) == 1 and norm(sts[0].value) == f'{fd}.state.height' and \
            pr.path_avoiding(cfg, [cfg.entry], [cfg.exit], {cfg.node(sts[0])}) is None
    else:
        cs = q.calls_resolving_to(ctx, fb, f)
        ok = len(cs) == 1 and norm(cs[0].args[0]) == f'{fd}.state.height' and \
            pr.path_avoiding(cfg, [cfg.entry], [cfg.exit], {cfg.node(q.stmt(cs[0]))}) is None
    ctx.check(ok, rule, ctx.key(fb, None, 'backup_fs on every backup flush'),
              'every backup flush calls backup_fs with the new (lower) height',
              'a backup flush can complete without backup_fs(new height)', loc=ctx.loc(fb, fb.node))
    return n + 1


def rule_extend(ctx):
    fr = Fresh(ctx, {'self.truncations'})
    n = 0
    rel = ctx.repo.path('merkle')
    for f in ctx.repo.funcs.values():
        if f.unit.relpath != rel or f.cls != 'MerkleCache' or f.qual in EXEMPT_WRITERS:
            continue
        for s in f.own_nodes():
            tg = []
            if isinstance(s, ast.Assign):
                tg = s.targets
            elif isinstance(s, ast.AugAssign):
                tg = [s.target]
            for t in tg:
                if isinstance(t, ast.Name):
                    continue
                base = t.value if isinstance(t, ast.Subscript) else t
                c = ctx.res.canon(base, f)
                if c in ('self.level', 'self.length'):
                    n += 1
                    bad = fr.unvalidated_before(f, s)
                    cfg = ctx.cfg(f)
                    ctx.check(not bad, 'C11.EXTEND', ctx.key(f, s),
                              f'{c} is written only from data validated against the truncation epoch after the last suspension',
                              f'{c} is written from data read across a suspension without re-checking the truncation epoch: a truncate() '
                              'that ran on the worker thread during the read is undone and orphaned hashes re-enter the cache ('
                              + '; '.join(f'{cfg.label(x)}: {r}' for x, r in bad[:2]) + ')', loc=ctx.loc(f, s))
    # readers: a branch computed from level/length read across a suspension is returned only under the epoch re-check
    bar = ctx.func('merkle', 'MerkleCache.branch_and_root')
    d = fr.dirty(bar)
    ctx.check(d is None, 'C11.EXTEND', ctx.key(bar, None, 'answer validated against the truncation epoch'),
              'branch_and_root returns only results computed without an intervening truncation (epoch re-checked after the last suspension)',
              f'branch_and_root can return a result computed across a suspension without re-checking the truncation epoch ({d}): a '
              'truncate() on the worker thread in between cuts the level it then reads, and the branch folds to a root of no chain',
              loc=ctx.loc(bar, bar.node))
    n += 1
    tr = ctx.func('merkle', 'MerkleCache.truncate')
    # the bump comes BEFORE the cut: readers take no lock, so a reader that already sees the shortened level must also
    # see the moved counter
    tcfg = ctx.cfg(tr)
    cuts = [tcfg.node(s_) for s_ in tr.own_nodes() if isinstance(s_, (ast.Assign, ast.AugAssign)) and any(
        not isinstance(t_, ast.Name) and ctx.res.canon(t_.value if isinstance(t_, ast.Subscript) else t_, tr) in ('self.level', 'self.length')
        for t_ in (s_.targets if isinstance(s_, ast.Assign) else [s_.target]))]
    n += rule_epoch_bumped(ctx, tr, 'self.truncations', 'C11.EXTEND', must_precede=[tcfg.exit] + cuts)
    # commit and truncation serialised by the same lock (truncate runs on another thread)
    ext = ctx.func('merkle', 'MerkleCache._extend_to')
    for f, what in ((ext, 'commit'), (tr, 'truncation')):
        writes = [s for s in f.own_nodes() if isinstance(s, (ast.Assign, ast.AugAssign)) and any(
            not isinstance(t, ast.Name) and
            ctx.res.canon(t.value if isinstance(t, ast.Subscript) else t, f) in ('self.level', 'self.length', 'self.truncations')
            for t in (s.targets if isinstance(s, ast.Assign) else [s.target]))]
        unlocked = []
        for s in writes:
            withs = [p for p, _fld in q.enclosing_chain(s, f.node) if isinstance(p, ast.With)
                     and any(ctx.res.canon(i.context_expr, f) == 'self.lock' for i in p.items)]
            if not withs:
                unlocked.append(norm(s))
        ctx.check(bool(writes) and not unlocked, 'C11.EXTEND', ctx.key(f, None, f'{what} under the cache lock'),
                  f'the {what} updates level / length / epoch under self.lock',
                  f'the {what} updates cache fields outside self.lock ({unlocked}): the worker-thread truncation can interleave with '
                  'the epoch check and the write', loc=ctx.loc(f, f.node))
        n += 1
    # the epoch comparison itself is inside the same locked block as the write
    ifs = [s for s in ext.own_nodes() if isinstance(s, ast.If) and 'self.truncations' in norm(s.test)]
    okl = bool(ifs) and all(any(isinstance(p, ast.With) for p, _f in q.enclosing_chain(s, ext.node)) for s in ifs)
    ctx.check(okl, 'C11.EXTEND', ctx.key(ext, None, 'check and write in one critical section'),
              'the epoch comparison and the write are one critical section', 'the epoch comparison is outside the lock that guards the write',
              loc=ctx.loc(ext, ext.node))
    return n + 1


def rule_range(ctx):
    f = ctx.func('sess', 'ElectrumX._merkle_proof')
    cfg = ctx.cfg(f)
    cp, h = f.params[1], f.params[2]
    calls = [c for c in q.own_calls(f) if q.callee_name(ctx, f, c) == 'self.db.header_branch_and_root']
    if len(calls) != 1:
        raise AnalysisError(f'{f.key}: header_branch_and_root call not found')
    c = calls[0]
    # per path to the cache call, tests split into their atoms (so `not a <= b <= c`, `a > b or b > c`, nested ifs and guard
    # clauses read the same): the path decided height <= cp_height and cp_height <= self.db.state.height, both true
    from .. import paths as P
    ok, why, seen = True, '', 0
    for pth in P.paths(f.node.body):
        if not pth.passes(q.stmt(c)):
            continue
        seen += 1
        lows = P.decided(ctx, f, pth, f'{h} <= {cp}')
        highs = P.decided(ctx, f, pth, f'{cp} <= self.db.state.height')
        if lows is not True or highs is not True:
            ok = False
            why = f'a path reaches the proof under {pth.cond_texts()}: height<=cp ok={lows}, cp<=db height ok={highs}'
    ok = ok and seen >= 1
    if not seen:
        why = 'no path to the cache call found'
    ctx.check(ok, 'C11.RANGE', ctx.key(f, None, 'range guard'),
              'header proofs are computed only under height <= cp_height <= db height',
              'the header-proof range guard is not `height <= cp_height <= db height` dominating the cache call (' + why +
              '): requests outside the chain are answered instead of refused', loc=ctx.loc(f, f.node))
    args_ok = len(c.args) == 2 and norm(c.args[1]) == h
    try:
        args_ok = args_ok and q.lin_eq(q.linear(ctx, f, c.args[0]), {cp: 1, '': 1})
    except q.NotLinear:
        args_ok = False
    ctx.check(args_ok, 'C11.RANGE', ctx.key(f, q.stmt(c), 'length and index'),
              'the proof is over cp_height + 1 hashes for the leaf at `height`',
              f'the proof is not computed over cp_height + 1 hashes at index height: {norm(c)}', loc=ctx.loc(f, c))
    # callers pass (cp_height, height) in that order
    n = 2
    for qual in ('ElectrumX.block_header', 'ElectrumX.block_headers'):
        g = ctx.func('sess', qual)
        cs = q.calls_resolving_to(ctx, g, f)
        for cc in cs:
            want_h = 'height' if qual.endswith('block_header') else None
            okc = len(cc.args) == 2 and norm(cc.args[0]) == 'cp_height'
            if want_h:
                okc = okc and norm(cc.args[1]) == want_h
            else:
                # on every path to the request, locals expressed in the inputs:
                #   leaf height = validated start + (number of headers the DB returned) - 1, requested only when that number is > 0
                from .. import paths as P
                pos = True
                seen = 0
                for pth in P.paths(g.node.body):
                    e_at = pth.env_at(q.stmt(cc))       # whether the reply is merged in place or bound to a local first
                    if e_at is None:
                        continue
                    evs = [e_at]
                    seen += 1
                    hexpr = P.subst(cc.args[1], evs[0])
                    cpx = P.subst(cc.args[0], evs[0])
                    okc = okc and norm(cpx) == f'non_negative_integer({g.params[3]})'
                    try:
                        lin = {k: v for k, v in q.linear(ctx, None, hexpr).items() if v != 0}
                    except q.NotLinear:
                        lin = {}
                    got = [k for k in lin if 'read_headers(' in k and k.endswith('[1]')]
                    okc = okc and len(got) == 1 and lin == {f'non_negative_integer({g.params[1]})': 1, got[0]: 1, '': -1}
                    if okc:
                        # the leaf height is not negative: at least one header was returned
                        some = any((pol and isinstance(t, ast.expr) and norm(t) == got[0]) for t, pol, _n in pth.conds)
                        for t, pol, _n in pth.conds:
                            if isinstance(t, ast.expr):
                                cn = q.comparison_normal(ctx, None, t if pol else ast.UnaryOp(op=ast.Not(), operand=t))
                                if cn is not None and ((cn[1] == '>' and q.lin_eq(cn[0], {got[0]: 1, '': 0})) or
                                                       (cn[1] == '>=' and q.lin_eq(cn[0], {got[0]: 1, '': -1})) or
                                                       (cn[1] == '!=' and (q.lin_eq(cn[0], {got[0]: 1, '': 0}) or q.lin_eq(cn[0], {got[0]: -1, '': 0})))):
                                    some = True
                        pos = pos and some
                okc = okc and seen >= 1
                if okc:
                    ctx.check(pos, 'C11.RANGE', ctx.key(g, q.stmt(cc), 'leaf height not negative'),
                              'the proof is requested only when at least one header was returned (start + count - 1 >= start >= 0)',
                              'the proof can be requested with count == 0: the leaf height is start_height - 1, i.e. -1 for start 0, which the '
                              'range guard (height <= cp_height) lets through - headers are then read from height -1 and a DB error escapes',
                              loc=ctx.loc(g, cc))
                    n += 1
            ctx.check(okc, 'C11.RANGE', ctx.key(g, q.stmt(cc), 'proof arguments'),
                      'the proof is requested for (cp_height, height of the last returned header)',
                      f'the proof is requested for the wrong header: {norm(cc)}', loc=ctx.loc(g, cc))
            n += 1
    return n


def rule_retry_raise(ctx, rule='C11.RETRYRAISE'):
    """Inside the epoch-validated retry loop of MerkleCache.branch_and_root the branch is computed from a level that a
    concurrent truncate() may have cut; Merkle.branch_and_root(_from_level) then fails its own consistency checks with
    ValueError.  That exception says nothing about the request: it must not leave the loop unless the truncation counter
    is unchanged - i.e. each such computation sits in a `try` whose ValueError handler compares the counter with the
    snapshot and re-raises only when they are equal."""
    f = ctx.func('merkle', 'MerkleCache.branch_and_root')
    loops = [s_ for s_ in f.node.body if isinstance(s_, ast.While)]
    comps = [c for c in q.own_calls(f) if q.callee_name(ctx, f, c) in ('self.merkle.branch_and_root', 'self.merkle.branch_and_root_from_level')]
    n = 0
    for c in comps:
        n += 1
        st = q.stmt(c)
        ok, why = False, 'not inside a try that handles ValueError'
        for p_, _fld in q.enclosing_chain(st, f.node):
            if not isinstance(p_, ast.Try) or not any(any(y is st for y in ast.walk(x)) for x in p_.body):
                continue
            for h in p_.handlers:
                names = [norm(x).split('.')[-1] for x in ((h.type.elts if isinstance(h.type, ast.Tuple) else [h.type]) if h.type else ['*'])]
                if not any(nm in ('ValueError', 'Exception', '*') for nm in names):
                    continue
                # the handler: raise only under `snapshot == self.truncations`, otherwise go round again
                from .. import paths as P
                good = True
                seen_raise = seen_retry = False
                for pth in P.paths(h.body):
                    same = None
                    for t, pol, _n in pth.conds:
                        if isinstance(t, ast.Compare) and len(t.ops) == 1 and isinstance(t.ops[0], (ast.Eq, ast.NotEq)) \
                                and 'self.truncations' in (ctx.res.canon(t.left, f), ctx.res.canon(t.comparators[0], f)):
                            same = (pol == isinstance(t.ops[0], ast.Eq))
                    if pth.exit == 'raise':
                        seen_raise = True
                        good = good and same is True
                    elif pth.exit in ('continue', 'fall'):
                        seen_retry = True
                        good = good and same is False
                    else:
                        good = False
                ok = good and seen_raise and seen_retry
                why = 'the ValueError handler does not re-raise exactly when the truncation counter is unchanged'
        in_loop = bool(loops) and q.in_body(st, loops[0].body)
        ctx.check(ok and in_loop, rule, ctx.key(f, st, 'consistency failure re-validated'),
                  'a consistency failure of the computation is raised only if no truncation happened since the snapshot; otherwise retried',
                  f'`{norm(c.func)}` can raise ValueError out of the retry loop ({why}): a level cut by a concurrent truncate() fails the '
                  'consistency check and a request that is valid on the new chain ends in an internal error', loc=ctx.loc(f, c))
    return n


def rule_cachefill(ctx, rule='C11.CACHES'):
    '''_merkle_cache / _tx_hashes_cache are filled only from validated reads (no unvalidated suspension before the store,
    nor between the validated read and _merkle_branch in its callers).'''
    fr = Fresh(ctx, c10.EPOCHS)
    from .fresh import rule_fill
    n = rule_fill(ctx, fr, ctx.func('sess', 'SessionManager.tx_hashes_at_blockheight'), 'self._tx_hashes_cache', rule)
    mb = ctx.func('sess', 'SessionManager._merkle_branch')
    n += rule_fill(ctx, fr, mb, 'self._merkle_cache', rule)
    for caller, _callee, kind, node in ctx.cg.callers(mb):
        s = q.stmt(node)
        bad = fr.unvalidated_before(caller, s)
        cfg = ctx.cfg(caller)
        ctx.check(not bad, rule, ctx.key(caller, s, 'fresh tx hashes'),
                  'the tx hashes handed to _merkle_branch were validated after the last suspension',
                  'tx hashes reach _merkle_branch (and its per-height cache) across an unvalidated suspension: '
                  + '; '.join(f'{cfg.label(x)}: {r}' for x, r in bad[:2]), loc=ctx.loc(caller, s))
        n += 1
    return n


def run(ctx):
    from . import c12
    ctx.rule('C11.TRUNCATE', lambda: rule_truncate(ctx), 2)
    ctx.rule('C11.EXTEND', lambda: rule_extend(ctx), 5)
    ctx.rule('C11.RANGE', lambda: rule_range(ctx), 4)
    ctx.rule('C11.INITLEN', lambda: rule_init_below_horizon(ctx), 1)
    ctx.rule('C11.EXACTCOUNT', lambda: rule_exact_hashes(ctx), 1)
    ctx.rule('C11.HEADERSRC', lambda: rule_header_source(ctx), 1)
    from . import c04 as _c04l
    ctx.rule('C11.LOGICALFILE', lambda: _c04l.rule_logical_file(ctx, 'C11'), 2)
    c12.run(ctx)
    ctx.rule('C11.CACHE', lambda: c12.rule_cache_commit(ctx, 'C11.CACHE'), 4)
    ctx.rule('C11.CACHES', lambda: rule_cachefill(ctx) + c10.rule_signal(ctx, 'C11.CACHES'), 9)
    ctx.rule('C11.BYHEIGHT', lambda: c10.rule_byheight(ctx, 'C11.BYHEIGHT'), 2)
    ctx.rule('C11.BYHEIGHTCLEAR', lambda: c10.rule_byheight_fields(ctx, 'C11.BYHEIGHTCLEAR'), 2)
    ctx.rule('C11.TSCFORWARD', lambda: c12.rule_tscforward(ctx, 'C11.TSCFORWARD'), 5)


def rule_init_below_horizon(ctx, rule='C11.INITLEN'):
    '''MerkleCache.initialize() is not protected by the truncation epoch (it installs length and level across a
    suspension).  That is sound only because the header cache is initialised to a length no reorganisation can reach:
    at most height - reorg_limit hashes.'''
    f = ctx.func('db', 'DB.populate_header_merkle_cache')
    from .. import dataflow as df
    calls = [c for c in q.own_calls(f) if q.callee_name(ctx, f, c) == 'self.header_mc.initialize' and len(c.args) == 1]
    ok, why = False, 'header_mc.initialize(<length>) call not found'
    if len(calls) == 1:
        a = calls[0].args[0]
        if isinstance(a, ast.Name):
            d = df.last_def_before(f, a.id, calls[0])
            a = d[1] if d else a
        why = f'the header cache is initialised to `{norm(a)[:60]}` hashes'
        cands = [a]
        if isinstance(a, ast.Call) and norm(a.func) == 'max':
            cands = [x for x in a.args if not isinstance(x, ast.Constant)]
            small_const = all(isinstance(x.value, int) and x.value <= 1 for x in a.args if isinstance(x, ast.Constant))
        else:
            small_const = True
        try:
            ok = small_const and bool(cands)
            for c_ in cands:
                lin = q.linear(ctx, f, c_)
                dlt = q.lin_sub(lin, {'self.state.height': 1, 'self.env.reorg_limit': -1, '': 0})
                if not (set(k for k, v in dlt.items() if v and k) == set() and dlt.get('', 0) <= 0):
                    ok = False
        except q.NotLinear:
            ok = False
    ctx.check(ok, rule, ctx.key(f, None, 'initial length below the reorg horizon'),
              'the header merkle cache is initialised to at most height - reorg_limit hashes (never touched by a truncation)',
              why + ', which a reorganisation during the (suspending) initialisation can cut into: initialize() then installs the '
              'full pre-reorg level over the truncated length and header proofs at the boundary fold to a wrong root',
              loc=ctx.loc(f, f.node))
    return 1


def rule_exact_hashes(ctx, rule='C11.EXACTCOUNT'):
    '''MerkleCache commits `length` for whatever its source returned: the source must return exactly the number of hashes
    asked for or raise.  fs_block_hashes therefore refuses a short read (headers above DB.state.height are clipped away
    by read_headers during a reorganisation).'''
    f = ctx.func('db', 'DB.fs_block_hashes')
    cfg = ctx.cfg(f)
    cntp = f.params[2]
    guards = [s for s in f.own_nodes() if isinstance(s, ast.If) and any(isinstance(x, ast.Raise) for x in s.body)]
    ok, why = False, 'no raising guard on the number of headers read'
    for g in guards:
        t = g.test
        if isinstance(t, ast.Compare) and len(t.ops) == 1 and isinstance(t.ops[0], ast.NotEq) and cntp in (norm(t.left), norm(t.comparators[0])):
            rets = [cfg.node(r) for r in f.own_nodes() if isinstance(r, ast.Return)]
            ok = all(cfg.dominates(cfg.node(g), r) for r in rets) and bool(rets)
            why = 'the guard does not dominate every return'
    ctx.check(ok, rule, ctx.key(f, None, 'short read refused'),
              'fs_block_hashes raises unless exactly `count` headers were read',
              why + ': a short read (headers clipped at the index height during a reorganisation) is returned as if complete, and the '
              'merkle cache commits the requested length over fewer hashes - the in-flight proof and later ones fold to wrong roots',
              loc=ctx.loc(f, f.node))
    return 1


def rule_header_source(ctx, rule='C11.HEADERSRC'):
    '''The cached header-subscription result (hsub_results) is refreshed only when a new height is notified and is not
    touched by the reorg handler: it may be handed out as the subscription answer only, never as the header of a height a
    client asks for.'''
    readers = []
    for f in ctx.repo.funcs.values():
        for x in f.own_nodes():
            if isinstance(x, ast.Attribute) and x.attr == 'hsub_results' and isinstance(x.ctx, ast.Load):
                readers.append((f, x))
    # the header requests and everything they call
    from .c06 import _task_closure
    served = {}
    for qn in ('ElectrumX.block_header', 'ElectrumX.block_headers', 'ElectrumX._merkle_proof'):
        served.update(_task_closure(ctx, ctx.func('sess', qn)))
    bad = [f'{ctx.loc(f, x)} {f.qual}' for f, x in readers if f.key in served]
    ctx.check(not bad and bool(readers), rule, 'electrumx/server/session.py :: hsub_results :: not a source of requested headers',
              'no header request (block.header / block.headers) is answered from the cached subscription header',
              f'a header request reads the cached subscription header ({bad}): after a reorganisation it still holds the orphaned block\'s '
              'header until the next height change is notified, so the header served does not belong to the chain the proof is for')
    return max(len(readers), 1)
