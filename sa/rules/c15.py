'''C15 - exactly the configured window of recent blocks can be undone.

Decided: THRESHOLD (min_undo_height(m) = m - reorg_limit + 1), KEEP (advance_block keeps undo info exactly under
block.height >= min_undo_height(daemon cached height), no further condition), PRUNE (start-up pruning deletes exactly
heights < min_undo_height(state.height), scanning in key order, on every open), ORDERKEY (big-endian height in the undo
key; reader and writer use the same key function), REFUSAL (backup refuses only when the undo row is absent, not when
it is empty), STORED (every queued undo info is written, joined, under its own height).
Not decided: availability for all sync trajectories.
'''
import ast

from ..model import AnalysisError, norm, walk_own, const_value
from .. import q, pathrules as pr, dataflow as df

EXPLANATION = ('static necessary conditions of C15: linear form of the undo threshold, keep-side and prune-side comparisons complementary '
               'with the right arguments, prune on every open, big-endian undo key shared by reader and writer, refusal only on an '
               'absent row, every queued undo info stored. Does NOT decide availability for all sync trajectories.')
ASSUMPTIONS = ['LevelDB / RocksDB iterate keys in bytewise order (so big-endian heights iterate numerically)']


def struct_of(ctx, name):
    from .c13 import struct_table
    st = struct_table(ctx)
    return st.get(name)


def run(ctx, standalone=True):
    ctx.rule('C15.THRESHOLD', lambda: rule_threshold(ctx), 1)
    ctx.rule('C15.KEEP', lambda: rule_keep(ctx), 2)
    ctx.rule('C15.PRUNE', lambda: rule_prune(ctx), 4)
    ctx.rule('C15.ORDERKEY', lambda: rule_key(ctx), 3)
    ctx.rule('C15.REFUSAL', lambda: rule_refusal(ctx), 1)
    ctx.rule('C15.STORED', lambda: rule_stored(ctx), 2)
    ctx.rule('C15.PENDING', lambda: rule_pending_owned(ctx), 3)
    ctx.rule('C15.NOREFUSAL', lambda: rule_reorg_unrefused(ctx), 1)
    ctx.rule('C15.KEYUSERS', lambda: rule_undo_key_users(ctx), 2)
    # the window is measured from daemon.cached_height(): it must be the daemon's latest reply, not a filtered / high-water one
    from . import c18x as _c18x
    ctx.rule('C18.HEIGHTREPLY', lambda: _c18x.rule_height_reply(ctx), 1)
    if standalone:
        from . import c03 as _c03h
        ctx.rule('C15.HEIGHTS', lambda: _c03h.rule_heights(ctx), 2)
    if standalone:
        # 'replacing up to the reorg limit of most recent blocks': the range backed out must be exactly the fork depth
        from . import c03
        ctx.rule('C15.RANGE', lambda: c03.rule_range(ctx), 5)
        # '... can be carried out, because undo information exists': what was stored must be what the backup consumes,
        # entry for entry (producer / consumer agreement on order, width and cursor)
        ctx.rule('C03.UNDODUAL', lambda: c03.rule_undodual(ctx), 7)
        ctx.rule('C03.REORGFLUSH', lambda: c03.rule_reorg_flush(ctx), 1)


def rule_threshold(ctx):
    f = ctx.func('db', 'DB.min_undo_height')
    rets = [s for s in f.own_nodes() if isinstance(s, ast.Return)]
    ok, txt = False, 'no single return'
    if len(rets) == 1:
        try:
            l = q.linear(ctx, f, rets[0].value)
            ok = q.lin_eq(l, {f.params[1]: 1, 'self.env.reorg_limit': -1, '': 1})
            txt = q.lin_text(l)
        except q.NotLinear as e:
            txt = f'not linear: {e}'
    ctx.check(ok, 'C15.THRESHOLD', ctx.key(f, None, 'linear form'),
              'min_undo_height(m) = m - reorg_limit + 1 (the last reorg_limit blocks up to m)',
              f'min_undo_height(m) is {txt}, not m - reorg_limit + 1: the undo window is off by some blocks', loc=ctx.loc(f, f.node))
    return 1


def rule_keep(ctx):
    f = ctx.func('bp', 'BlockProcessor.advance_block')
    muh = ctx.func('db', 'DB.min_undo_height')
    apps = [c for c in q.own_calls(f) if q.callee_name(ctx, f, c) == 'self.undo_infos.append']
    if len(apps) != 1:
        raise AnalysisError(f'{f.key}: expected one self.undo_infos.append')
    s = q.stmt(apps[0])
    conds = pr.control_conditions(s, f.node)
    ok, why = False, f'guards: {[norm(c[0]) for c in conds]}'
    # `not a < b` / a guard passed on the false side read as the comparison they are
    if len(conds) == 1:
        t0, pol0 = conds[0][0], conds[0][1]
        while isinstance(t0, ast.UnaryOp) and isinstance(t0.op, ast.Not):
            t0, pol0 = t0.operand, not pol0
        flip = {ast.Lt: ast.GtE, ast.GtE: ast.Lt, ast.Gt: ast.LtE, ast.LtE: ast.Gt}
        if not pol0 and isinstance(t0, ast.Compare) and len(t0.ops) == 1 and type(t0.ops[0]) in flip:
            t0 = ast.copy_location(ast.Compare(left=t0.left, ops=[flip[type(t0.ops[0])]()], comparators=t0.comparators), t0)
            pol0 = True
        conds = [(t0, pol0, conds[0][2])]
    if len(conds) == 1 and conds[0][1] and isinstance(conds[0][0], ast.Compare) and len(conds[0][0].ops) == 1:
        t = conds[0][0]
        sides = [t.left, t.comparators[0]]
        calls = [x for x in sides if isinstance(x, ast.Call) and ctx.res.resolve_ref(x.func, f) is not None
                 and ctx.res.resolve_ref(x.func, f).key == muh.key]
        others = [x for x in sides if x not in calls]
        if len(calls) == 1 and len(others) == 1:
            # normalise: block.height - T >= 0
            op = t.ops[0]
            ge = (isinstance(op, ast.GtE) and sides[1] is calls[0]) or (isinstance(op, ast.LtE) and sides[0] is calls[0])
            arg_ok = len(calls[0].args) == 1 and norm(calls[0].args[0]) == 'self.daemon.cached_height()'
            ok = ge and arg_ok and norm(others[0]) == 'block.height'
            why = f'`{norm(t)}` (non-strict >= ok={ge}, threshold argument ok={arg_ok})'
    ctx.check(ok, 'C15.KEEP', ctx.key(f, s, 'keep condition'),
              'undo info is kept exactly when block.height >= min_undo_height(daemon height)',
              'undo info is not kept exactly under block.height >= min_undo_height(daemon.cached_height()): ' + why +
              ' - a block inside the window has no undo information (also for blocks indexed during initial sync)', loc=ctx.loc(f, s))
    a0 = apps[0].args[0]
    okarg = isinstance(a0, ast.Tuple) and len(a0.elts) == 2 and isinstance(a0.elts[0], ast.Name) and norm(a0.elts[1]) == 'block.height'
    ctx.check(okarg, 'C15.KEEP', ctx.key(f, s, 'queued with its height'), 'queued as (undo_info, block.height)',
              f'not queued with its own height: {norm(apps[0])}', loc=ctx.loc(f, s))
    return 2


def rule_prune(ctx):
    f = ctx.func('db', 'DB.clear_excess_undo_info')
    muh = ctx.func('db', 'DB.min_undo_height')
    d = df.defs(f)
    n = 0
    calls = q.calls_resolving_to(ctx, f, muh)
    ok = len(calls) == 1 and len(calls[0].args) == 1 and ctx.res.canon(calls[0].args[0], f) == 'self.state.height'
    ctx.check(ok, 'C15.PRUNE', ctx.key(f, None, 'threshold argument'),
              'the pruning threshold is min_undo_height(state.height)',
              f'the pruning threshold is not min_undo_height(self.state.height): {norm(calls[0]) if calls else "?"} '
              '(one block too many / too few is pruned on every open)', loc=ctx.loc(f, f.node))
    n += 1
    mv = norm(q.stmt(calls[0]).targets[0]) if calls and isinstance(q.stmt(calls[0]), ast.Assign) else None
    loops = [s for s in f.own_nodes() if isinstance(s, ast.For) and isinstance(s.iter, ast.Call) and isinstance(s.iter.func, ast.Attribute)
             and s.iter.func.attr == 'iterator']
    ok, why = False, 'scan loop not found'
    if len(loops) == 1 and mv:
        lp = loops[0]
        kws = {k.arg: k.value for k in lp.iter.keywords}
        pref = kws.get('prefix')
        if isinstance(pref, ast.Name):
            pd = d.get(pref.id, [])
            pref = pd[0][1] if len(pd) == 1 else None
        pref_ok = const_value(pref) == b'U' and 'reverse' not in kws
        keyv = norm(lp.target.elts[0]) if isinstance(lp.target, ast.Tuple) else norm(lp.target)
        # the height decoded from the key: bound to a local first, or used where it is compared
        decs = [c_ for c_ in walk_own(lp) if isinstance(c_, ast.Call) and norm(c_.func) == 'unpack_be_uint32' and c_.args
                and norm(c_.args[0]) == f'{keyv}[-4:]']
        # per path through one row: height >= threshold => the scan stops, nothing collected; otherwise the key is collected
        from .. import paths as P
        app = [c for c in walk_own(lp) if isinstance(c, ast.Call) and isinstance(c.func, ast.Attribute) and c.func.attr == 'append'
               and norm(c.args[0]) == keyv]
        cond_ok = len(decs) == 1 and len(app) == 1
        after = cond_ok
        n_stop = n_take = 0
        for pth in P.paths(lp.body) if cond_ok else []:
            hexpr = f'{norm(decs[0])}[0]'
            keep = P.decided(ctx, f, pth, f'{hexpr} >= {mv}')
            took = any(st_ is q.stmt(app[0]) for st_, _e in pth.events)
            if keep is None:
                cond_ok = False
            elif keep:
                n_stop += 1
                after = after and pth.exit == 'break' and not took
            else:
                n_take += 1
                after = after and took and pth.exit in ('fall', 'continue')
        cond_ok = cond_ok and n_stop >= 1 and n_take >= 1
        ok = pref_ok and cond_ok and after
        why = f"prefix b'U' ok={pref_ok}, stops at the first height >= threshold ok={cond_ok}, collects the rest ok={bool(after)}"
    ctx.check(ok, 'C15.PRUNE', ctx.key(f, None, 'selection'),
              'exactly the undo rows with height < threshold are collected, scanning upwards',
              'the rows pruned are not exactly those with height < threshold: ' + why, loc=ctx.loc(f, f.node))
    n += 1
    dels = [c for c in q.own_calls(f) if isinstance(c.func, ast.Attribute) and c.func.attr == 'delete']
    okd = len(dels) == 1 and any(isinstance(p, ast.With) for p, _f in q.enclosing_chain(dels[0], f.node))
    ctx.check(okd, 'C15.PRUNE', ctx.key(f, None, 'deleted in a batch'), 'the collected rows are deleted in one batch',
              'the collected rows are not deleted in a batch', loc=ctx.loc(f, f.node))
    n += 1
    ob = ctx.func('db', 'DB._open_dbs')
    cfg = ctx.cfg(ob)
    cs = q.calls_resolving_to(ctx, ob, f)
    rs = q.calls_resolving_to(ctx, ob, ctx.func('db', 'DB.read_utxo_state'))
    oko = len(cs) == 1 and len(rs) == 1 and pr.path_avoiding(cfg, [cfg.entry], [cfg.exit], {cfg.node(q.stmt(cs[0]))}) is None \
        and pr.path_avoiding(cfg, [cfg.entry], [cfg.node(q.stmt(cs[0]))], {cfg.node(q.stmt(rs[0]))}) is None
    ctx.check(oko, 'C15.PRUNE', ctx.key(ob, None, 'on every open'),
              'every open prunes, after the state was loaded', 'an open can complete without pruning old undo information',
              loc=ctx.loc(ob, ob.node))
    return n + 1


def rule_key(ctx):
    f = ctx.func('db', 'DB.undo_key')
    rets = [s for s in f.own_nodes() if isinstance(s, ast.Return)]
    ok, why = False, 'shape not recognised'
    if len(rets) == 1 and isinstance(rets[0].value, ast.BinOp) and isinstance(rets[0].value.op, ast.Add):
        v = rets[0].value
        tag = const_value(v.left)
        pk = v.right
        if isinstance(pk, ast.Call) and isinstance(pk.func, ast.Name):
            st = struct_of(ctx, pk.func.id)
            be = st is not None and st[1].startswith('>') and st[2] == 'pack'
            ok = tag == b'U' and be and bool(f.params) and norm(pk.args[0]) == f.params[-1]        # (self, height) or a static (height)
            why = f'{norm(v)} (tag {tag!r}, struct {st})'
    ctx.check(ok, 'C15.ORDERKEY', ctx.key(f, None, 'big-endian height'),
              "undo key = b'U' + big-endian height (key order is numeric order; the pruning scan stops at the first kept height)",
              'the undo key is not b\'U\' + a big-endian height: ' + why, loc=ctx.loc(f, f.node))
    n = 1
    for qual, meth in (('DB.read_undo_info', 'get'), ('DB.flush_undo_infos', None)):
        g = ctx.func('db', qual)
        cs = q.calls_resolving_to(ctx, g, f)
        hname = 'height' if 'height' in g.params else None
        if hname is None:
            lps = [s for s in g.own_nodes() if isinstance(s, ast.For) and isinstance(s.target, ast.Tuple) and len(s.target.elts) == 2]
            hname = norm(lps[0].target.elts[1]) if len(lps) == 1 else None
        okk = len(cs) == 1 and hname is not None and norm(cs[0].args[0]) == hname
        ctx.check(okk, 'C15.ORDERKEY', ctx.key(g, None, 'uses undo_key(height)'), f'{qual} addresses the row through undo_key(height)',
                  f'{qual} does not address the row through undo_key(height)', loc=ctx.loc(g, g.node))
        n += 1
    return n


def rule_refusal(ctx):
    f = ctx.func('bp', 'BlockProcessor.backup_block')
    reads = [c for c in q.own_calls(f) if q.callee_name(ctx, f, c) == 'self.db.read_undo_info']
    if len(reads) != 1 or not isinstance(q.stmt(reads[0]), ast.Assign):
        raise AnalysisError(f'{f.key}: read_undo_info call not found')
    uv = norm(q.stmt(reads[0]).targets[0])
    n = 0
    for s in f.own_nodes():
        if isinstance(s, ast.If) and uv in q.names_in(s.test) and any(isinstance(x, (ast.Raise, ast.Return)) for x in s.body):
            n += 1
            ok = norm(s.test) == f'{uv} is None'
            ctx.check(ok, 'C15.REFUSAL', ctx.key(f, s), 'the backup is refused only when the undo row is absent',
                      f'the backup is refused under `{norm(s.test)}`: an empty undo row (a block without spends) is present and valid, '
                      'yet the reorganisation fails', loc=ctx.loc(f, s))
    if n == 0:
        ctx.ok('C15.REFUSAL', ctx.key(f, None, 'no refusal'), 'no refusal on the undo info value')
        n = 1
    return n


def rule_pending_owned(ctx, rule='C15.PENDING'):
    '''The pending containers handed to the DB in FlushData (headers, tx hashes, undo infos, UTXO adds, deletes) are emptied
    by the DB only, after it wrote them.  If the block processor rebinds or clears one of them itself, whatever a
    history-only flush left pending (undo infos, UTXO changes) is dropped without ever being written.'''
    n = 0
    bprel = ctx.repo.path('bp')
    fields = []
    for f in ctx.repo.funcs.values():
        if f.unit.relpath != bprel or f.cls != 'BlockProcessor':
            continue
        for c in f.own_nodes():
            if isinstance(c, ast.Call) and norm(c.func) == 'FlushData':
                for a in c.args[1:]:
                    cn = ctx.res.canon(a, f)
                    if cn and cn.startswith('self.') and cn not in fields:
                        fields.append(cn)
    if len(fields) < 3:
        raise AnalysisError('BlockProcessor: FlushData(...) hand-over of the pending containers not found')

    def hits(t, f):
        if isinstance(t, (ast.Tuple, ast.List)):
            return [x for e in t.elts for x in hits(e, f)]
        if isinstance(t, ast.Attribute) and ctx.res.canon(t, f) in fields:
            return [ctx.res.canon(t, f)]
        return []
    for f in ctx.repo.funcs.values():
        if f.unit.relpath != bprel or f.cls != 'BlockProcessor' or f.name == '__init__':
            continue
        for s_ in f.own_nodes():
            bad = []
            if isinstance(s_, ast.Assign):
                bad = [x for t in s_.targets for x in hits(t, f)]
            elif isinstance(s_, ast.Delete):
                bad = [x for t in s_.targets for x in hits(t, f)]
            elif isinstance(s_, ast.Call) and isinstance(s_.func, ast.Attribute) and s_.func.attr == 'clear' \
                    and ctx.res.canon(s_.func.value, f) in fields:
                bad = [ctx.res.canon(s_.func.value, f)]
            if bad:
                n += 1
                ctx.bad(rule, ctx.key(f, q.stmt(s_)), f'`{norm(q.stmt(s_))[:70]}` empties {", ".join(bad)} on the block-processor side: entries '
                        'that the DB has not written yet (a history-only flush writes neither undo infos nor UTXO changes) are lost',
                        loc=ctx.loc(f, s_))
    # DB side: a pending container is emptied only where, on every path to that statement, it has been read (written out) in
    # the same flush - directly, or by a callee handed the FlushData that reads it on all of its paths.  `undo_infos.clear()`
    # at the tail of flush_dbs is reached by a history-only flush that never wrote them.
    dbrel = ctx.repo.path('db')
    pend = {f_.split('.', 1)[1] for f_ in fields}
    fd_cls = ctx.repo.cls('db', 'FlushData')
    names = [t.id for b in fd_cls.body if isinstance(b, ast.Assign) for t in b.targets if isinstance(t, ast.Name)]
    names = [x for x in names if x != 'state']

    def reads_on_all_paths(g, par, field, depth=0):
        """statements of g that read <par>.<field> (or hand <par> to a callee that reads it on all paths)"""
        out = []
        for st in g.own_nodes():
            if not isinstance(st, ast.stmt) or isinstance(st, (ast.FunctionDef, ast.AsyncFunctionDef, ast.If, ast.For, ast.While, ast.With, ast.Try)):
                heads = [getattr(st, 'test', None), getattr(st, 'iter', None)] if isinstance(st, (ast.If, ast.For, ast.While)) else []
                heads = [h for h in heads if h is not None]
            else:
                heads = [st]
            for h in heads:
                for x in ast.walk(h):
                    if isinstance(x, ast.Attribute) and x.attr == field and isinstance(x.value, ast.Name) and x.value.id == par \
                            and not (isinstance(getattr(x, '_parent', None), ast.Attribute) and x._parent.attr == 'clear'):
                        out.append(st)
                    if depth < 2 and isinstance(x, ast.Call):
                        for k, a in enumerate(x.args):
                            if isinstance(a, ast.Name) and a.id == par:
                                cal = ctx.res.resolve_ref(x.func, g)
                                if cal is not None and hasattr(cal, 'params'):
                                    off = 1 if cal.params and cal.params[0] == 'self' else 0
                                    if k + off < len(cal.params):
                                        cp = cal.params[k + off]
                                        ccfg = ctx.cfg(cal)
                                        if any(ccfg.dominates(ccfg.node(r), ccfg.exit) for r in reads_on_all_paths(cal, cp, field, depth + 1)):
                                            out.append(st)
        return out
    n_db = 0
    for g in ctx.repo.funcs.values():
        if g.unit.relpath != dbrel or g.cls != 'DB':
            continue
        gcfg = None
        for c in g.own_nodes():
            if isinstance(c, ast.Call) and isinstance(c.func, ast.Attribute) and c.func.attr == 'clear' and isinstance(c.func.value, ast.Attribute) \
                    and isinstance(c.func.value.value, ast.Name) and c.func.value.value.id in g.params and c.func.value.attr in names:
                par, field = c.func.value.value.id, c.func.value.attr
                gcfg = gcfg or ctx.cfg(g)
                st = q.stmt(c)
                rd = [r for r in reads_on_all_paths(g, par, field) if r is not st]
                ok_ = any(gcfg.dominates(gcfg.node(r), gcfg.node(st)) for r in rd)
                n_db += 1
                ctx.check(ok_, rule, ctx.key(g, st, 'emptied after it was written'),
                          f'`{par}.{field}` is cleared only after it was read (written out) on every path of this flush',
                          f'`{norm(st)}` is reached on a path of the flush that never wrote {par}.{field} out (a history-only flush writes '
                          'neither undo infos nor UTXO changes): the entries are dropped unwritten', loc=ctx.loc(g, st))
    if n_db < 3:
        raise AnalysisError(f'{rule}: fewer than three DB-side clears of the pending containers found ({n_db})')
    n += n_db
    ctx.ok(rule, f'{bprel} :: BlockProcessor :: pending containers emptied by the DB only',
           f'no method of BlockProcessor rebinds or clears {", ".join(fields)}')
    return n + len(fields)


def rule_stored(ctx):
    f = ctx.func('db', 'DB.flush_undo_infos')
    loops = [s for s in f.node.body if isinstance(s, ast.For)]
    ok = False
    if len(loops) == 1 and norm(loops[0].iter) == f.params[2] and isinstance(loops[0].target, ast.Tuple):
        ui, hv = [norm(e) for e in loops[0].target.elts]
        puts = [c for c in walk_own(loops[0]) if isinstance(c, ast.Call) and norm(c.func) == f.params[1]]
        ok = len(puts) == 1 and q.stmt(puts[0]) in loops[0].body and norm(puts[0].args[0]) == f'self.undo_key({hv})' \
            and norm(puts[0].args[1]) == f"b''.join({ui})"
    ctx.check(ok, 'C15.STORED', ctx.key(f, None, 'all queued undo infos'),
              'every queued (undo_info, height) pair is written as the joined entries under its own height',
              'queued undo infos are not all written, joined, under their own heights', loc=ctx.loc(f, f.node))
    g = ctx.func('db', 'DB.flush_utxo_db')
    cs = q.calls_resolving_to(ctx, g, f)
    ok2 = len(cs) == 1 and norm(cs[0].args[1]) == 'flush_data.undo_infos' and \
        any(isinstance(p, ast.With) for p, _f in q.enclosing_chain(cs[0], g.node)) and \
        not [p for p, _f in q.enclosing_chain(q.stmt(cs[0]), g.node) if isinstance(p, (ast.If, ast.For, ast.While))]
    ctx.check(ok2, 'C15.STORED', ctx.key(g, None, 'inside the UTXO batch'),
              'the undo infos are written unconditionally inside the UTXO batch of the flush',
              'the undo infos are not written unconditionally inside the UTXO batch', loc=ctx.loc(g, g.node))
    return 2


def rule_reorg_unrefused(ctx, rule='C15.NOREFUSAL'):
    '''reorg_chain itself never refuses a reorganisation: whether undo information exists is decided per block by
    backup_block (read_undo_info is None).  An up-front depth test in reorg_chain compares against the wrong horizon - the
    cached daemon height is already the new branch's tip - and refuses reorganisations whose undo rows all exist.'''
    f = ctx.func('bp', 'BlockProcessor.reorg_chain')
    exits = [s for s in f.own_nodes() if isinstance(s, (ast.Raise, ast.Return))]
    bad = []
    for s in exits:
        conds = pr.control_conditions(s, f.node)
        tip_guard = any(b and 'self.state.tip' in norm(t) and isinstance(t, ast.Compare) and isinstance(t.ops[0], ast.NotEq) for t, b, _p in conds)
        in_loop = any(isinstance(p_, (ast.For, ast.While)) for p_, _f in q.enclosing_chain(s, f.node))
        if isinstance(s, ast.Return) and tip_guard and in_loop:
            continue
        bad.append(f'line {int(round(s.lineno))} `{norm(s)[:60]}`' + (f' under {[norm(t)[:50] for t, b, _p in conds]}' if conds else ''))
    ctx.check(not bad, rule, ctx.key(f, None, 'no refusal ahead of the per-block undo check'),
              'reorg_chain leaves early only when the block to undo is not the tip; missing undo information is detected per block',
              'reorg_chain can refuse or abandon the reorganisation itself: ' + '; '.join(bad[:2]), loc=ctx.loc(f, f.node))
    return 1


def rule_undo_key_users(ctx, rule='C15.KEYUSERS'):
    '''Undo rows are addressed only to be written by a flush (flush_undo_infos) and read by a backup (read_undo_info); the
    start-up pruning works on the raw key range.  Any other use of undo_key() - in particular feeding it to a delete list -
    removes undo information of a block that is still inside the window (the height at hand during a backup is already
    the lowered one).'''
    uk = ctx.func('db', 'DB.undo_key')
    allowed = {'DB.flush_undo_infos', 'DB.read_undo_info'}
    n = 0
    bad = []
    for (caller, _callee, kind, node) in ctx.cg.callers(uk):
        n += 1
        if caller.qual not in allowed:
            bad.append(f'{ctx.loc(caller, node)} {caller.qual}: `{norm(q.stmt(node))[:70]}`')
    ctx.check(not bad and n >= 2, rule, ctx.key(uk, None, 'used by the writer and the reader only'),
              'undo_key() is used only to write undo rows in a flush and to read them in a backup',
              'undo_key() is also used by ' + '; '.join(bad[:2]) + ': an undo row can be removed (or written) outside the flush / '
              'start-up-prune discipline, so undo information of a block inside the window goes missing',
              loc=ctx.loc(uk, uk.node))
    return max(n, 1)
